#!/bin/bash
# usage: tools/all_quick.sh [seed ...]   runs every quick check in parallel for each seed; prints only non-zero exits and VIOLATION lines
cd "$(dirname "$0")/.." || exit 2
mkdir -p /tmp/q; rm -f /tmp/q/*
for sd in "${@:-0}"; do
  for i in 01 02 03 04 05 06 07 08 09 10 11 12 13 14 15 16 17 18 19 20; do
    ( VERIF_SEED=$sd ./check C$i --tier quick > /tmp/q/C$i.s$sd.log 2>&1; echo "C$i seed=$sd exit=$?" >> /tmp/q/summary ) &
  done
  wait
done 2>/dev/null
sort /tmp/q/summary | grep -v "exit=0$"
grep -h "VIOLATION" /tmp/q/*.log
echo "done: $(wc -l < /tmp/q/summary) runs"
