#!/bin/bash
# usage: tools/sweep_seeds.sh <lanes> <name-prefix ...>   runs tools/run_seeds.py for the given seeds in <lanes> parallel copies of
# /verif (+ scratch worktrees of /repo) so that /repo and /verif are not disturbed; copies meta.json back and rewrites seeded/RESULTS.md
lanes=$1; shift
cd "$(dirname "$0")/.." || exit 2
names=$(ls seeded | grep -v '\.md$' | while read n; do for a in "$@"; do case $n in $a*) echo $n;; esac; done; done | sort -u)
i=0
for l in $(seq 1 $lanes); do
  rm -rf /tmp/vseed$l; git -C /repo worktree remove --force /tmp/rseed$l 2>/dev/null
  rsync -a --delete --exclude .git /verif/ /tmp/vseed$l/; git -C /repo worktree add -q --detach /tmp/rseed$l HEAD
done
for n in $names; do i=$((i+1)); echo $n >> /tmp/vseed$(( (i % lanes) + 1 ))/.lane; done
for l in $(seq 1 $lanes); do
  ( cd /tmp/vseed$l && [ -f .lane ] && VERIF_REPO=/tmp/rseed$l python3 tools/run_seeds.py $(cat .lane) > /tmp/vseed$l/.sweep.log 2>&1 ) &
done
wait
for l in $(seq 1 $lanes); do
  [ -f /tmp/vseed$l/.lane ] && for n in $(cat /tmp/vseed$l/.lane); do cp /tmp/vseed$l/seeded/$n/meta.json seeded/$n/meta.json; done
  grep "^('" /tmp/vseed$l/.sweep.log
  git -C /repo worktree remove --force /tmp/rseed$l; rm -rf /tmp/vseed$l
done
python3 - <<'PY'
import json,os
rows=[]
for n in sorted(os.listdir('seeded')):
    p=f'seeded/{n}/meta.json'
    if os.path.exists(p):
        m=json.load(open(p)); d=m.get('detected_by') or {}
        rows.append((n,m['property'],'; '.join(f'{k}: {v}' for k,v in d.items())))
with open('seeded/RESULTS.md','w') as f:
    f.write('# Seeded changes vs. quick checks (written by tools/run_seeds.py / sweep_seeds.sh)\n\n| seed | property | result |\n|---|---|---|\n')
    for r in rows: f.write('| '+' | '.join(r)+' |\n')
PY
