#!/usr/bin/env python3
"""usage: tools/keep_seed.py <PROP> <agent_out_dir> <name> : confirm a seeded change in a scratch worktree and store it under seeded/"""
import json, os, shutil, subprocess, sys
prop, src, name = sys.argv[1:4]
wt = f'/tmp/wt/verify_{name}'
def sh(cmd, cwd=None):
    p = subprocess.run(cmd, shell=True, cwd=cwd, capture_output=True, text=True)
    return p.returncode, (p.stdout + p.stderr)
subprocess.run(f'git -C /repo worktree remove --force {wt}', shell=True, capture_output=True)
rc, out = sh(f'git -C /repo worktree add -q --detach {wt} HEAD')
assert rc == 0, out
try:
    env = f'cd {wt} && PYTHONPATH={wt} /venv/bin/python'
    shutil.copy(f'{src}/demo.py', f'{wt}/demo.py')
    rc0, o0 = sh(f'{env} demo.py')
    rc, out = sh(f'git apply --3way {src}/patch.diff', cwd=wt)
    if rc != 0:
        print('APPLY FAILED', out[:300]); sys.exit(1)
    sh('git reset -q', cwd=wt)
    rct, ot = sh(f'{env} -m pytest -q -p no:cacheprovider --timeout=900 2>&1 | tail -1')
    rc1, o1 = sh(f'{env} demo.py')
    rcd, diff = sh('git diff -- pytoniq_core', cwd=wt)
    ok = rc0 == 0 and '51 passed' in ot and rc1 != 0
    print(f'{name}: demo clean rc={rc0}, tests "{ot.strip()}", demo mutated rc={rc1} -> {"KEEP" if ok else "REJECT"}')
    if ok:
        dst = f'/verif/seeded/{name}'
        os.makedirs(dst, exist_ok=True)
        open(f'{dst}/patch.diff', 'w').write(diff)
        shutil.copy(f'{src}/demo.py', f'{dst}/demo.py')
        notes = open(f'{src}/notes.md').read() if os.path.exists(f'{src}/notes.md') else ''
        meta = {'property': prop, 'needs_to_manifest': notes, 'base_commit': subprocess.check_output('git -C /repo rev-parse HEAD', shell=True, text=True).strip(),
                'confirmed': {'demo_on_clean_tree_exit': rc0, 'pytest_with_change': ot.strip(), 'demo_with_change_exit': rc1,
                              'demo_with_change_output_tail': o1[-400:]},
                'ran': ['git worktree add (scratch)', 'demo.py on clean tree', 'git apply patch.diff', 'pytest (51 tests)', 'demo.py with change'],
                'detected_by': None}
        json.dump(meta, open(f'{dst}/meta.json', 'w'), indent=1)
finally:
    subprocess.run(f'git -C /repo worktree remove --force {wt}', shell=True, capture_output=True)
