#!/bin/sh
# usage: tools/try_patch.sh <patch.diff> <prop> [more props...] : apply to /repo, run quick checks, restore
P="$1"; shift
cd /repo || exit 2
if ! git apply --3way "$P" 2>/tmp/apply.err; then echo "APPLY FAILED: $(head -3 /tmp/apply.err)"; git checkout -q -- . ; git reset -q; exit 3; fi
git reset -q
cd /verif
for prop in "$@"; do
  ./check "$prop" --tier quick 2>&1 | grep -E "VIOLATION|KNOWN|holds|VIOLATED|ERROR|TIMEOUT" | cut -c1-260
  echo "  -> exit $?"
done
cd /repo && git checkout -q -- . && git status --short | grep -v '^??' | head -3
