#!/venv/bin/python
"""Regenerates /verif/MANIFEST.json from the SPEC['manifest'] blocks of harness/props/Cxx.py.
A property whose module has no SPEC['manifest'] (or no module) is listed under not_applicable with the reason
given in NOT_CLAIMED below.  Run:  tools/gen_manifest.py   (from anywhere)."""
import importlib
import json
import os
import sys

VERIF = os.path.dirname(os.path.dirname(os.path.abspath(__file__)))
sys.path.insert(0, VERIF)
sys.path.insert(1, os.environ.get('VERIF_REPO', '/repo'))

NOT_CLAIMED = {
}
DEFAULT_REASON = 'check not built yet (work in progress; planned per DESIGN.md §6)'

props = [json.loads(l)['id'] for l in open(os.path.join(VERIF, 'properties.jsonl'))]
checks, na, served = [], [], []
for p in props:
    spec = None
    if os.path.exists(os.path.join(VERIF, 'harness/props', p + '.py')):
        spec = importlib.import_module(f'harness.props.{p}').SPEC
    man = (spec or {}).get('manifest')
    if not man:
        na.append({'property_id': p, 'reason': NOT_CLAIMED.get(p, DEFAULT_REASON)})
        continue
    served.append(p)
    checks.append({
        'property_id': p,
        'quick_cmd': f'./check {p} --tier quick',
        'thorough_cmd': f'./check {p} --tier thorough',
        'evidence_file': f'evidence/{p}.json',
        'replay_cmd_template': f'./check {p} --replay {{path}}',
        'engine': 'lean4-proofs',
        'level_claimed': {'category': man['category'], 'text': man['text'], 'design_ref': spec.get('design_ref', 'DESIGN.md §6')},
        'level_note': man['level_note'],
        'technique': man['technique'],
    })
old = json.load(open(os.path.join(VERIF, 'MANIFEST.json')))
out = {
    'version': 1,
    'setup_cmd': old['setup_cmd'],
    'hooks': old['hooks'],
    'engines': [{'name': 'lean4-proofs', 'path': 'lean/', 'serves_properties': served,
                 'kind_free_text': 'Lean 4 models + theorems; driver exe tonmodel; Python correspondence harness in harness/'}],
    'checks': checks,
    'not_applicable': na,
}
if old.get('notes'):
    out['notes'] = old['notes']
with open(os.path.join(VERIF, 'MANIFEST.json'), 'w') as f:
    json.dump(out, f, indent=1)
    f.write('\n')
print(f'claimed {served}; not claimed {[x["property_id"] for x in na]}')
