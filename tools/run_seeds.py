#!/usr/bin/env python3
"""Apply every seeded change under seeded/ to /repo (one at a time), run the quick check of its property,
restore /repo, and record in seeded/<name>/meta.json + seeded/RESULTS.md which check caught it."""
import json, os, subprocess, sys
os.chdir('/verif')
names = sorted(d for d in os.listdir('seeded') if os.path.isdir(f'seeded/{d}'))
if len(sys.argv) > 1:
    names = [n for n in names if any(n.startswith(a) for a in sys.argv[1:])]
rows = []
for n in names:
    meta = json.load(open(f'seeded/{n}/meta.json'))
    prop = meta['property']
    extra = meta.get('also_check', [])
    subprocess.run('git -C /repo checkout -q -- .', shell=True)
    p = subprocess.run(f'git -C /repo apply --3way /verif/seeded/{n}/patch.diff && git -C /repo reset -q', shell=True, capture_output=True, text=True)
    if p.returncode != 0:
        rows.append((n, prop, 'APPLY FAILED', ''))
        subprocess.run('git -C /repo checkout -q -- . ; git -C /repo reset -q', shell=True)
        continue
    res = {}
    try:
        for pr in [prop] + extra:
            q = subprocess.run(['./check', pr, '--tier', 'quick'], capture_output=True, text=True)
            v = [l for l in q.stdout.split('\n') if l.startswith('VIOLATION')]
            res[pr] = {'exit': q.returncode, 'violations': v[:3]}
    finally:
        subprocess.run('git -C /repo checkout -q -- . ; git -C /repo reset -q', shell=True)
    meta['detected_by'] = {pr: ('caught' if r['exit'] == 1 and r['violations'] else ('NO-CHECK' if r['exit'] not in (0, 1) or (r['exit'] == 1 and not r['violations']) else 'MISSED')) + (' (no-failing-input-found)' if any('no-failing' in x for x in r['violations']) else '')
                           for pr, r in res.items()}
    json.dump(meta, open(f'seeded/{n}/meta.json', 'w'), indent=1)
    rows.append((n, prop, '; '.join(f'{k}: {v}' for k, v in meta['detected_by'].items()), ''))
    print(rows[-1], flush=True)
old = {}
if os.path.exists('seeded/RESULTS.md'):
    for l in open('seeded/RESULTS.md'):
        if l.startswith('| ') and not l.startswith('| seed'):
            c = [x.strip() for x in l.strip('|\n').split('|')]
            old[c[0]] = c
for r in rows:
    old[r[0]] = [r[0], r[1], r[2]]
with open('seeded/RESULTS.md', 'w') as f:
    f.write('# Seeded changes vs. quick checks (written by tools/run_seeds.py)\n\n| seed | property | result |\n|---|---|---|\n')
    for k in sorted(old):
        f.write('| ' + ' | '.join(old[k][:3]) + ' |\n')
