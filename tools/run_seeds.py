#!/usr/bin/env python3
"""Apply every seeded change under seeded/ to the repository (one at a time), run the quick check of its property,
restore the repository, and record in seeded/<name>/meta.json + seeded/RESULTS.md which check caught it.

usage: tools/run_seeds.py [name-prefix ...]
By default works on /repo from the directory this file lives in.  For a sweep that does not disturb ongoing work:
  rsync -a --delete /verif/ /tmp/vseed/ ; git -C /repo worktree add --detach /tmp/rseed HEAD
  VERIF_REPO=/tmp/rseed /tmp/vseed/tools/run_seeds.py ; cp results back (seeded/*/meta.json, seeded/RESULTS.md)
(the registered checks themselves always run in /verif against /repo; this tool only tabulates detection of seeded changes)."""
import json, os, subprocess, sys
VERIF = os.path.dirname(os.path.dirname(os.path.abspath(__file__)))
REPO = os.environ.get('VERIF_REPO', '/repo')
os.chdir(VERIF)
names = sorted(d for d in os.listdir('seeded') if os.path.isdir(f'seeded/{d}'))
if len(sys.argv) > 1:
    names = [n for n in names if any(n.startswith(a) for a in sys.argv[1:])]
rows = []


def restore():
    subprocess.run(f'git -C {REPO} checkout -q -- . ; git -C {REPO} reset -q ; git -C {REPO} clean -fdq -- pytoniq_core', shell=True)


for n in names:
    meta = json.load(open(f'seeded/{n}/meta.json'))
    prop = meta['property']
    extra = meta.get('also_check', [])
    restore()
    p = subprocess.run(f'git -C {REPO} apply --3way {VERIF}/seeded/{n}/patch.diff && git -C {REPO} reset -q', shell=True, capture_output=True, text=True)
    if p.returncode != 0:
        rows.append((n, prop, 'APPLY FAILED', ''))
        restore()
        continue
    res = {}
    try:
        for pr in [prop] + extra:
            try:
                q = subprocess.run(['./check', pr, '--tier', 'quick'], capture_output=True, text=True, timeout=1800)
                v = [l for l in q.stdout.split('\n') if l.startswith('VIOLATION')]
                res[pr] = {'exit': q.returncode, 'violations': v[:3]}
            except subprocess.TimeoutExpired:
                res[pr] = {'exit': 2, 'violations': []}
    finally:
        restore()
    meta['detected_by'] = {pr: ('caught' if r['exit'] == 1 and r['violations'] else ('NO-CHECK' if r['exit'] not in (0, 1) or (r['exit'] == 1 and not r['violations']) else 'MISSED')) + (' (no-failing-input-found)' if any('no-failing' in x for x in r['violations']) else '')
                           for pr, r in res.items()}
    json.dump(meta, open(f'seeded/{n}/meta.json', 'w'), indent=1)
    rows.append((n, prop, '; '.join(f'{k}: {v}' for k, v in meta['detected_by'].items()), ''))
    print(rows[-1], flush=True)
old = {}
if os.path.exists('seeded/RESULTS.md'):
    for l in open('seeded/RESULTS.md'):
        if l.startswith('| ') and not l.startswith('| seed'):
            c = [x.strip() for x in l.strip('|\n').split('|')]
            old[c[0]] = c
for r in rows:
    old[r[0]] = [r[0], r[1], r[2]]
with open('seeded/RESULTS.md', 'w') as f:
    f.write('# Seeded changes vs. quick checks (written by tools/run_seeds.py)\n\n| seed | property | result |\n|---|---|---|\n')
    for k in sorted(old):
        f.write('| ' + ' | '.join(old[k][:3]) + ' |\n')
