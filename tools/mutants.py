#!/venv/bin/python
"""Systematic syntactic mutation sweep of the anchored library files (machinery self-test, complements seeded/).

For a sample of single-point mutants (comparison / arithmetic / boolean operator swaps, integer constants +-1, load_uint<->load_int,
load<->preload, dropped statements, negated conditions) of the files named in properties.jsonl anchors:
  1. apply the mutant in a scratch worktree of the library (VERIF_REPO, never /repo),
  2. run the repository's 51 tests - a mutant they kill is uninteresting and skipped,
  3. run the quick checks of the properties anchored in that file; the mutant is KILLED if one exits 1 with a VIOLATION line.
Survivors are written to the report with their diff: each is either an equivalent mutant (harmless rewrite - the checks are right
to stay quiet) or a hole in a generator.  Nothing here decides a property; it measures the tie.

usage: VERIF_REPO=/tmp/rseed0 tools/mutants.py --shard 0/4 --per-file 12 --seed 1 --out /tmp/mut0.json [--files a.py,b.py]
"""
import argparse, ast, json, os, random, subprocess, sys, copy

VERIF = os.path.dirname(os.path.dirname(os.path.abspath(__file__)))
REPO = os.environ.get('VERIF_REPO')
assert REPO and os.path.abspath(REPO) != '/repo', 'run against a scratch worktree (VERIF_REPO), never /repo'

CMP = {ast.Lt: ast.LtE, ast.LtE: ast.Lt, ast.Gt: ast.GtE, ast.GtE: ast.Gt, ast.Eq: ast.NotEq, ast.NotEq: ast.Eq, ast.Is: ast.IsNot, ast.IsNot: ast.Is,
       ast.In: ast.NotIn, ast.NotIn: ast.In}
BIN = {ast.Add: ast.Sub, ast.Sub: ast.Add, ast.Mult: ast.FloorDiv, ast.FloorDiv: ast.Mult, ast.LShift: ast.RShift, ast.RShift: ast.LShift,
       ast.BitAnd: ast.BitOr, ast.BitOr: ast.BitAnd, ast.Mod: ast.FloorDiv, ast.BitXor: ast.BitOr}
ATTR = {'load_uint': 'load_int', 'load_int': 'load_uint', 'preload_uint': 'load_uint', 'load_ref': 'preload_ref', 'preload_ref': 'load_ref',
        'store_uint': 'store_int', 'store_int': 'store_uint', 'load_bit': 'preload_bit', 'load_bits': 'preload_bits', 'load_coins': 'preload_coins',
        'load_maybe_ref': 'preload_maybe_ref', 'append': 'extend', 'get_hash': 'get_depth', 'load_var_uint': 'load_var_int',
        'store_maybe_ref': 'store_ref', 'load_address': 'preload_address'}


def sites(tree):
    """-> list of (kind, node, extra) mutation sites in source order"""
    out = []
    for node in ast.walk(tree):
        if isinstance(node, ast.Compare):
            for i, op in enumerate(node.ops):
                if type(op) in CMP:
                    out.append(('cmp', node, i))
        elif isinstance(node, ast.BinOp) and type(node.op) in BIN:
            if not (isinstance(node.op, (ast.Add, ast.Mod)) and (isinstance(node.left, ast.Constant) and isinstance(node.left.value, str)
                                                                   or isinstance(node.right, ast.JoinedStr) or isinstance(node.left, ast.JoinedStr))):
                out.append(('bin', node, None))
        elif isinstance(node, ast.BoolOp):
            out.append(('bool', node, None))
        elif isinstance(node, ast.UnaryOp) and isinstance(node.op, ast.Not):
            out.append(('not', node, None))
        elif isinstance(node, ast.Constant) and isinstance(node.value, int) and not isinstance(node.value, bool) and abs(node.value) < 2 ** 33:
            out.append(('const+', node, None))
            out.append(('const-', node, None))
        elif isinstance(node, ast.Attribute) and node.attr in ATTR and isinstance(node.ctx, ast.Load):
            out.append(('attr', node, None))
        elif isinstance(node, ast.If):
            out.append(('ifneg', node, None))
        elif isinstance(node, (ast.AugAssign,)):
            out.append(('drop', node, None))
        elif isinstance(node, ast.Expr) and isinstance(node.value, ast.Call):
            out.append(('drop', node, None))
        elif isinstance(node, ast.Raise):
            out.append(('drop', node, None))
    out.sort(key=lambda s: (getattr(s[1], 'lineno', 0), getattr(s[1], 'col_offset', 0), s[0]))
    return out


def in_docstring_or_exc(node, parents):
    p = parents.get(node)
    while p is not None:
        if isinstance(p, ast.Raise) and p is not node:
            return True            # messages / arguments of exceptions
        if isinstance(p, ast.FunctionDef) and p.name in ('__repr__', '__str__'):
            return True
        p = parents.get(p)
    return False


def mutate(src, k):
    """the k-th site mutated -> (new source, description) or None"""
    tree = ast.parse(src)
    parents = {}
    for n in ast.walk(tree):
        for c in ast.iter_child_nodes(n):
            parents[c] = n
    ss = [s for s in sites(tree) if not in_docstring_or_exc(s[1], parents)]
    if k >= len(ss):
        return None
    kind, node, extra = ss[k]
    line = getattr(node, 'lineno', 0)
    if kind == 'cmp':
        old = type(node.ops[extra]).__name__
        node.ops[extra] = CMP[type(node.ops[extra])]()
        desc = f'{old}->{type(node.ops[extra]).__name__}'
    elif kind == 'bin':
        old = type(node.op).__name__
        node.op = BIN[type(node.op)]()
        desc = f'{old}->{type(node.op).__name__}'
    elif kind == 'bool':
        node.op = ast.Or() if isinstance(node.op, ast.And) else ast.And()
        desc = 'and<->or'
    elif kind == 'not':
        new = node.operand
        for f, v in ast.iter_fields(parents[node]):
            if v is node:
                setattr(parents[node], f, new)
            elif isinstance(v, list) and node in v:
                v[v.index(node)] = new
        desc = 'not dropped'
    elif kind in ('const+', 'const-'):
        old = node.value
        node.value = old + 1 if kind == 'const+' else old - 1
        desc = f'{old}->{node.value}'
    elif kind == 'attr':
        desc = f'.{node.attr}->.{ATTR[node.attr]}'
        node.attr = ATTR[node.attr]
    elif kind == 'ifneg':
        node.test = ast.UnaryOp(op=ast.Not(), operand=node.test)
        desc = 'if negated'
    elif kind == 'drop':
        par = parents[node]
        done = False
        for f, v in ast.iter_fields(par):
            if isinstance(v, list) and node in v:
                v[v.index(node)] = ast.Pass()
                done = True
        if not done:
            return None
        desc = f'{type(node).__name__} dropped'
    ast.fix_missing_locations(tree)
    try:
        new_src = ast.unparse(tree)
    except Exception:
        return None
    return new_src, f'line {line}: {kind} {desc}', len(ss)


def sh(cmd, cwd=None, timeout=1800):
    try:
        p = subprocess.run(cmd, shell=True, cwd=cwd, capture_output=True, text=True, timeout=timeout)
        return p.returncode, p.stdout + p.stderr
    except subprocess.TimeoutExpired:
        return 124, 'timeout'


def main():
    ap = argparse.ArgumentParser()
    ap.add_argument('--shard', default='0/1')
    ap.add_argument('--per-file', type=int, default=10)
    ap.add_argument('--seed', type=int, default=0)
    ap.add_argument('--out', required=True)
    ap.add_argument('--files', default='')
    a = ap.parse_args()
    si, sn = map(int, a.shard.split('/'))
    anchors = {}
    for l in open(os.path.join(VERIF, 'properties.jsonl')):
        p = json.loads(l)
        for f in p['anchors']['files']:
            if f.endswith('.py'):
                anchors.setdefault(f, []).append(p['id'])
    files = sorted(anchors)
    if a.files:
        files = [f for f in files if any(f.endswith(x) for x in a.files.split(','))]
    rng = random.Random(a.seed)
    todo = []
    for f in files:
        src = open(os.path.join(REPO, f)).read()
        n = mutate(src, 0)
        total = n[2] if n else 0
        ks = rng.sample(range(total), min(a.per_file, total))
        todo += [(f, k) for k in sorted(ks)]
    todo = [t for i, t in enumerate(todo) if i % sn == si]
    report = []
    for f, k in todo:
        sh('git checkout -q -- . ', cwd=REPO)
        path = os.path.join(REPO, f)
        orig = open(path).read()
        m = mutate(orig, k)
        if m is None:
            continue
        new_src, desc, _ = m
        if ast.dump(ast.parse(new_src)) == ast.dump(ast.parse(orig)):
            continue
        # write the mutant by patching only the changed line region: unparse reformats, so write the whole unparsed file
        open(path, 'w').write(new_src + '\n')
        rc, out = sh(f'cd {REPO} && PYTHONPATH={REPO} /venv/bin/python -m pytest -q -x -p no:cacheprovider --timeout=300 2>&1 | tail -1')
        entry = {'file': f, 'site': k, 'mutation': desc, 'props': anchors[f]}
        if '51 passed' not in out:
            entry['result'] = 'killed-by-tests'
            report.append(entry)
            print(json.dumps(entry), flush=True)
            continue
        killed_by = []
        for pr in anchors[f]:
            rc, out = sh(f'cd {VERIF} && VERIF_REPO={REPO} ./check {pr} --tier quick', timeout=2400)
            viol = [l for l in out.split('\n') if l.startswith('VIOLATION')]
            if rc == 1 and viol:
                killed_by.append(pr + (' (no-failing-input-found)' if all('no-failing' in v for v in viol) else ''))
                break
            if rc not in (0, 1):
                killed_by.append(pr + f' (exit {rc}: machinery)')
        entry['result'] = 'killed' if any('machinery' not in x for x in killed_by) else ('machinery' if killed_by else 'SURVIVED')
        entry['killed_by'] = killed_by
        report.append(entry)
        print(json.dumps(entry), flush=True)
        json.dump(report, open(a.out, 'w'), indent=1)
    sh('git checkout -q -- . ', cwd=REPO)
    json.dump(report, open(a.out, 'w'), indent=1)


if __name__ == '__main__':
    main()
