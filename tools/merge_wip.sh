#!/bin/bash
# usage: tools/merge_wip.sh <sha-or-branch> "<message>"   merges a sub-builder branch; evidence/ and MANIFEST.json conflicts are taken from
# the branch (both are regenerated afterwards); any other conflict is listed and left for the coordinator.
cd "$(dirname "$0")/.." || exit 2
git merge --no-ff -m "$2" "$1" > /tmp/merge.log 2>&1
for f in $(git diff --name-only --diff-filter=U); do case $f in evidence/*|MANIFEST.json|seeded/RESULTS.md) git checkout --theirs -- "$f"; git add "$f";; *) echo "CONFLICT $f";; esac; done
if [ -z "$(git diff --name-only --diff-filter=U)" ]; then
  /venv/bin/python tools/gen_manifest.py > /dev/null; git add -A; git commit -qm "$2" 2>/dev/null; git log --oneline | head -1
fi
