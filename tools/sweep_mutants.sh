#!/bin/bash
# usage: tools/sweep_mutants.sh <shards> <seed> <per-file> <outprefix>   syntactic mutation sweep in <shards> parallel copies of /verif
# (each with its own scratch worktree of /repo); results /tmp/<outprefix><k>.json, merged into seeded/mutants-<outprefix>.json
n=$1; seed=$2; per=$3; out=$4
cd "$(dirname "$0")/.." || exit 2
for k in $(seq 0 $((n-1))); do
  rm -rf /tmp/vmut$k; git -C /repo worktree remove --force /tmp/rmut$k 2>/dev/null
  rsync -a --delete --exclude .git /verif/ /tmp/vmut$k/; git -C /repo worktree add -q --detach /tmp/rmut$k HEAD
  ( cd /tmp/vmut$k && VERIF_REPO=/tmp/rmut$k nice -n 5 /venv/bin/python tools/mutants.py --shard $k/$n --per-file $per --seed $seed --out /tmp/$out$k.json > /tmp/$out$k.log 2>&1 ) &
done
wait
python3 - "$n" "$out" <<'PY'
import json,sys
n,out=int(sys.argv[1]),sys.argv[2]
allr=[]
for k in range(n):
    try: allr+=json.load(open(f'/tmp/{out}{k}.json'))
    except Exception as e: print('shard',k,e)
json.dump(allr,open(f'seeded/mutants-{out}.json','w'),indent=1)
from collections import Counter
print(Counter(r.get('verdict') or r.get('result') for r in allr))
PY
for k in $(seq 0 $((n-1))); do git -C /repo worktree remove --force /tmp/rmut$k; rm -rf /tmp/vmut$k; done
