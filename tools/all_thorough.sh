#!/bin/bash
# usage: tools/all_thorough.sh [parallel] [seed]   builds the lean project if needed, then runs every thorough check (parallel at a time);
# prints exit codes and VIOLATION lines. Meant for `vp run -- tools/all_thorough.sh 2` (validation of the thorough tier on the unchanged tree).
cd "$(dirname "$0")/.." || exit 2
par=${1:-2}; sd=${2:-0}
( cd lean && lake build TonVerif tonmodel > /tmp/thorough_build.log 2>&1 ) || { echo "lake build failed"; tail -20 /tmp/thorough_build.log; exit 2; }
mkdir -p thorough_logs
printf '%s\n' 01 02 03 04 05 06 07 08 09 10 11 12 13 14 15 16 17 18 19 20 | xargs -P "$par" -I{} bash -c \
  "s=\$(date +%s); VERIF_SEED=$sd ./check C{} --tier thorough > thorough_logs/C{}.log 2>&1; echo \"C{} exit=\$? \$(( \$(date +%s) - s ))s\""
grep -h VIOLATION thorough_logs/*.log
echo done
