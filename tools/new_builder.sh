#!/bin/bash
# usage: tools/new_builder.sh <name>   creates /tmp/vw/<name> (worktree of /verif, branch wip/<name>, with a copy of the
# built .lake) and /tmp/rw/<name> (worktree of /repo, branch fix/<name>); remove both with tools/new_builder.sh -d <name>
set -e
if [ "$1" = "-d" ]; then
  n=$2
  git -C /verif worktree remove --force /tmp/vw/$n 2>/dev/null || true
  git -C /repo worktree remove --force /tmp/rw/$n 2>/dev/null || true
  rm -rf /tmp/vw/$n /tmp/rw/$n
  exit 0
fi
n=$1
mkdir -p /tmp/vw /tmp/rw
git -C /verif worktree add -q -B wip/$n /tmp/vw/$n HEAD
git -C /repo worktree add -q -B fix/$n /tmp/rw/$n HEAD
[ -d /verif/lean/.lake ] && cp -a /verif/lean/.lake /tmp/vw/$n/lean/.lake
echo "export VERIF_REPO=/tmp/rw/$n; cd /tmp/vw/$n"
