#!/venv/bin/python
"""After cherry-picking builders' fix commits into /repo, rewrite the shas in known_findings.json 'fixed' lines
to the commits on /repo's main (matched by commit subject)."""
import json, subprocess, re
def sh(*a): return subprocess.run(a, capture_output=True, text=True).stdout.strip()
main = {}
for l in sh('git', '-C', '/repo', 'log', '--format=%h|%s', 'aede573..main').split('\n'):
    h, s = l.split('|', 1); main[s] = h
kf = json.load(open('/verif/known_findings.json'))
out = []
for f in kf['fixed']:
    p, sha, what = re.match(r'fixed: property=(C\d+) (\w+) (.*)', f).groups()
    if subprocess.run(['git', '-C', '/repo', 'merge-base', '--is-ancestor', sha, 'main'], capture_output=True).returncode != 0:
        subj = sh('git', '-C', '/repo', 'log', '-1', '--format=%s', sha)
        new = main.get(subj)
        print(sha, '->', new, subj[:70])
        if new:
            sha = new
    out.append(f'fixed: property={p} {sha} {what}')
kf['fixed'] = out
json.dump(kf, open('/verif/known_findings.json', 'w'), indent=1); open('/verif/known_findings.json', 'a').write('\n')
listed = {re.match(r'fixed: property=C\d+ (\w+)', f).group(1) for f in out}
for s, h in main.items():
    if h not in listed:
        print('NOT LISTED in known_findings:', h, s[:90])
