"""Literals of the CURRENT source of the anchored files, for planting into generated inputs (shared, append-only).

A change that special-cases a marker text / a block size / a magic number carries that constant in its own source: reading the
str / bytes / int literals of the files a property is anchored to (via `ast`, from $VERIF_REPO - the tree under test, not the tree the
harness was written against) lets a generator build inputs that CONTAIN each text and have sizes AROUND each number, without
knowing what the constants mean.  Nothing here looks at a diff: on the unchanged tree the same code plants the unchanged
tree's literals."""
import ast
import os

from ..paths import REPO


class Literals:
    """strs / bytes / ints: sorted lists of the distinct literal values; where[value] = [(file, line), ...]"""

    def __init__(self):
        self.strs, self.bytes, self.ints, self.where = [], [], [], {}

    def __repr__(self):
        return f'Literals({len(self.strs)} str, {len(self.bytes)} bytes, {len(self.ints)} int)'


def _docstring_nodes(tree):
    out = set()
    for node in ast.walk(tree):
        if isinstance(node, (ast.Module, ast.ClassDef, ast.FunctionDef, ast.AsyncFunctionDef)):
            body = getattr(node, 'body', [])
            if body and isinstance(body[0], ast.Expr) and isinstance(body[0].value, ast.Constant) and isinstance(body[0].value.value, str):
                out.add(id(body[0].value))
    return out


def _fold_int(node):
    """value of an int expression made of literals only (1 << 20, 2 ** 16, 64 * 1024, -1, 0xffff + 1), else None"""
    if isinstance(node, ast.Constant) and type(node.value) is int:
        return node.value
    if isinstance(node, ast.UnaryOp) and isinstance(node.op, (ast.USub, ast.Invert, ast.UAdd)):
        v = _fold_int(node.operand)
        if v is None:
            return None
        return -v if isinstance(node.op, ast.USub) else ~v if isinstance(node.op, ast.Invert) else v
    if isinstance(node, ast.BinOp):
        a, b = _fold_int(node.left), _fold_int(node.right)
        if a is None or b is None:
            return None
        try:
            if isinstance(node.op, ast.LShift):
                return a << b if 0 <= b <= 64 else None
            if isinstance(node.op, ast.Pow):
                return a ** b if 0 <= b <= 64 and abs(a) <= 1 << 16 else None
            if isinstance(node.op, ast.Mult):
                return a * b
            if isinstance(node.op, ast.Add):
                return a + b
            if isinstance(node.op, ast.Sub):
                return a - b
            if isinstance(node.op, ast.FloorDiv):
                return a // b if b else None
            if isinstance(node.op, ast.RShift):
                return a >> b if 0 <= b <= 4096 else None
        except Exception:
            return None
    return None


def source_literals(files, docstrings=False, repo=None):
    """files: paths relative to the library root (e.g. 'pytoniq_core/boc/address.py'), or absolute.  Missing / unparsable files are
    skipped (the translators report those).  Besides plain constants, int expressions built from literals only are folded
    (`1 << 20` contributes 1, 20 AND 1048576); the text pieces of f-strings count as str literals."""
    out = Literals()
    strs, byts, ints = set(), set(), set()

    def note(v, f, node):
        out.where.setdefault(v, []).append((f, getattr(node, 'lineno', 0)))

    for f in files:
        path = f if os.path.isabs(f) else os.path.join(repo or REPO, f)
        try:
            tree = ast.parse(open(path, encoding='utf-8').read())
        except Exception:
            continue
        skip = set() if docstrings else _docstring_nodes(tree)
        for node in ast.walk(tree):
            if isinstance(node, ast.Constant):
                v = node.value
                if isinstance(v, str):
                    if id(node) not in skip:
                        strs.add(v)
                        note(v, f, node)
                elif isinstance(v, bytes):
                    byts.add(v)
                    note(v, f, node)
                elif type(v) is int:
                    ints.add(v)
                    note(v, f, node)
            elif isinstance(node, (ast.BinOp, ast.UnaryOp)):
                v = _fold_int(node)
                if v is not None and abs(v) < 1 << 80:
                    ints.add(v)
                    note(v, f, node)
    out.strs, out.bytes, out.ints = sorted(strs), sorted(byts), sorted(ints)
    return out


def int_neighbours(ints, lo=0, hi=None, spread=(0, -1, 1)):
    """the literals, their +-1 neighbours and the powers of two next to them, within [lo, hi] - sizes worth trying"""
    out = set()
    for v in ints:
        cands = {v + d for d in spread}
        if v > 0:
            p = 1 << (v.bit_length() - 1)
            cands |= {p + d for d in spread} | {2 * p + d for d in spread}
        for c in cands:
            if c >= lo and (hi is None or c <= hi):
                out.add(c)
    return sorted(out)


def fits(text, alphabet):
    """the str literal is non-empty and made of characters of `alphabet` only (it can occur inside a text over that alphabet)"""
    return bool(text) and all(c in alphabet for c in text)


def plantable(strs, alphabet, max_len):
    """the literals (and, for longer / partly fitting ones, their maximal runs over the alphabet) that can be planted into a text over
    `alphabet` with room for max_len characters.  Runs of one character are dropped (every text contains them anyway)."""
    out = []
    seen = set()
    for s in strs:
        run = ''
        for c in s + '\0':
            if c in alphabet:
                run += c
                continue
            if 2 <= len(run) <= max_len and run not in seen:
                seen.add(run)
                out.append(run)
            run = ''
    return out


def source_thresholds(files, repo=None):
    """the ints of the source that act as SIZES / BOUNDS rather than data: operands of comparisons, slice bounds, range() arguments,
    right operands of % // & >> <<, and NAME = <int expression> assignments (CHUNK = 1 << 20).  Table entries (elements of list /
    tuple / dict literals) are not included.  Sorted list of distinct values."""
    out = set()

    def take(node):
        v = _fold_int(node)
        if v is not None and abs(v) < 1 << 80:
            out.add(v)

    for f in files:
        path = f if os.path.isabs(f) else os.path.join(repo or REPO, f)
        try:
            tree = ast.parse(open(path, encoding='utf-8').read())
        except Exception:
            continue
        for node in ast.walk(tree):
            if isinstance(node, ast.Compare):
                for x in [node.left] + list(node.comparators):
                    take(x)
            elif isinstance(node, ast.Slice):
                for x in (node.lower, node.upper, node.step):
                    if x is not None:
                        take(x)
            elif isinstance(node, ast.Call) and isinstance(node.func, ast.Name) and node.func.id == 'range':
                for x in node.args:
                    take(x)
            elif isinstance(node, ast.BinOp) and isinstance(node.op, (ast.Mod, ast.FloorDiv, ast.BitAnd, ast.RShift, ast.LShift)):
                take(node.right)
            elif isinstance(node, ast.Assign) and isinstance(node.value, (ast.Constant, ast.BinOp, ast.UnaryOp)):
                take(node.value)
            elif isinstance(node, ast.AnnAssign) and node.value is not None and isinstance(node.value, (ast.Constant, ast.BinOp, ast.UnaryOp)):
                take(node.value)
    return sorted(out)


def size_candidates(ints, blocks=(16,), cap=None, min_size=2):
    """payload lengths around every size in `ints` (and around the powers of two next to each): L-1, L, L+1, 2L, 3L, L +- b and the next
    four multiples of b at or above L for every block size b - the lengths at which a chunked / block-wise path changes behaviour
    (last chunk full, empty tail, exactly one block over).  Sorted, distinct, within [0, cap]."""
    base = set()
    for v in ints:
        if v < min_size:
            continue
        base.add(v)
        p = 1 << (v.bit_length() - 1)
        base |= {p, 2 * p}
    out = set()
    for L in base:
        out |= {L - 1, L, L + 1, 2 * L - 1, 2 * L, 2 * L + 1, 3 * L}
        for b in blocks:
            if b < 1:
                continue
            up = -(-L // b) * b
            out |= {L - b, L + b, 2 * L + b, up, up + b, up + 2 * b, up + 3 * b, up - b}
    return sorted(x for x in out if x >= 0 and (cap is None or x <= cap))
