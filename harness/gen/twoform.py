"""Keys / texts that are valid in TWO forms at once (C09 key forms; C13 address texts).

Where an API accepts the same Python type in several readings (a `str` key: bit string - or a textual address?  a `bytes`
key: big-endian integer - or 32 hash bytes / a 36-byte friendly address?  a text with hash_key: to be hashed - or already a
key?), an input that is well-formed under BOTH readings separates them; random inputs practically never are.  They are
CONSTRUCTED here, not waited for:

* `b64_crc_strings(rng, template)`: strings that follow a per-position alphabet template (e.g. 48 x '01') AND base64-decode
  to 36 bytes whose last two are the CRC-16/XMODEM of the first 34 - i.e. texts `Address(text)` takes for a user-friendly
  address whatever the tag byte.  CRC-16 with zero init is linear over GF(2) and a message followed by its CRC has CRC 0, so
  the condition is 16 linear equations in the free bits of the template: solved by elimination (no search).
* raw-address look-alikes `wc:hex` over restricted alphabets, friendly addresses of chosen (tag, wc, hash), and the bytes /
  hashed-text twins of all of them.

No library code: the CRC is binascii.crc_hqx (CRC-CCITT, init 0 = XMODEM), base64 the stdlib's.
"""
import base64
import binascii

STD = 'ABCDEFGHIJKLMNOPQRSTUVWXYZabcdefghijklmnopqrstuvwxyz0123456789+/'
URLSAFE = {'-': '+', '_': '/'}


def b64_index(ch):
    """6-bit value of a base64 character (standard or url-safe), None for a character the lenient decoders drop"""
    ch = URLSAFE.get(ch, ch)
    i = STD.find(ch)
    return i if i >= 0 and ch else None


def crc16(data: bytes) -> bytes:
    return binascii.crc_hqx(data, 0).to_bytes(2, 'big')


def friendly(tag, wc, hash_part, urlsafe=True):
    """user-friendly address text of (tag byte, signed workchain byte, 32-byte hash): independent encoder"""
    raw = bytes([tag, wc & 0xff]) + hash_part
    raw += crc16(raw)
    return (base64.urlsafe_b64encode(raw) if urlsafe else base64.b64encode(raw)).decode()


def _affine(chars):
    """(base value, [free bit masks]) of a set of base64 characters whose 6-bit values form an affine subspace, else None"""
    vals = sorted({b64_index(c) for c in chars})
    base = vals[0]
    diffs = {v ^ base for v in vals}
    masks = []
    span = {0}
    for d in sorted(diffs):
        if d not in span:
            masks.append(d)
            span |= {x ^ d for x in span}
    return (base, masks) if span == diffs else None


def b64_crc_strings(rng, template, count=1):
    """template: list of strings, one per character position = the characters allowed there (their 6-bit values must form an
    affine set, e.g. '01', '4567', 'cdef', 'x'); characters that are not base64 (blanks ...) are dropped by the lenient decoders
    and must be single choices.  The base64 characters must number 48.  -> up to `count` distinct strings that match the
    template and decode to 34 bytes + their CRC-16.  [] when the template admits none."""
    pos = []            # (template index, bit offset in the 288-bit message) of every base64 position
    off = 0
    fixed = []
    for i, chars in enumerate(template):
        if b64_index(chars[0]) is None:
            assert len(chars) == 1
            fixed.append(chars)
            continue
        a = _affine(chars)
        assert a is not None, f'not an affine alphabet: {chars!r}'
        pos.append((i, off, a))
        fixed.append(None)
        off += 6
    assert off == 288, 'the template must hold 48 base64 characters'
    base_val = 0
    free = []           # (template idx, 6-bit mask, message bit mask)
    for i, o, (b, masks) in pos:
        base_val |= b << (288 - 6 - o)
        for m in masks:
            free.append((i, m, m << (288 - 6 - o)))

    def crc_of(v):
        return binascii.crc_hqx(v.to_bytes(36, 'big'), 0)
    c0 = crc_of(base_val)
    cols = [crc_of(mm) for _, _, mm in free]        # linear: crc(a ^ b) = crc(a) ^ crc(b) at equal length, zero init
    # elimination: pivots[bit] = (combined column value, set of free indices)
    pivots = {}
    for j, c in enumerate(cols):
        comb = {j}
        while c:
            hb = c.bit_length() - 1
            if hb not in pivots:
                pivots[hb] = (c, comb)
                break
            pc, pcomb = pivots[hb]
            c ^= pc
            comb = comb ^ pcomb
    out, seen = [], set()
    for _ in range(count * 4):
        if len(out) >= count:
            break
        x = {j for j in range(len(free)) if rng.random() < 0.5}
        r = c0
        for j in x:
            r ^= cols[j]
        ok = True
        while r:
            hb = r.bit_length() - 1
            if hb not in pivots:
                ok = False
                break
            pc, pcomb = pivots[hb]
            r ^= pc
            x = x ^ pcomb
        if not ok:
            return out
        vals = {i: b for i, _, (b, _) in pos}
        for j in x:
            i, m, _ = free[j]
            vals[i] ^= m
        s = ''.join(fixed[i] if fixed[i] is not None else _char(template[i], vals[i]) for i in range(len(template)))
        raw = base64.urlsafe_b64decode(s)
        assert len(raw) == 36 and raw[34:] == crc16(raw[:34]), s
        if s not in seen:
            seen.add(s)
            out.append(s)
    return out


def _char(chars, val):
    for c in chars:
        if b64_index(c) == val:
            return c
    raise AssertionError((chars, val))


# ----------------------------------------------------------------------------- templates

BIN = ['01'] * 48
HEXISH = [c for c in ('4567', 'cdef', '01', '89', 'ab')]     # affine sub-alphabets of the hex digits


def templates(rng):
    """(style, template) pairs: every spelling Python's int(s, 2) admits that is ALSO 48 base64 characters for the lenient
    decoders (blanks are dropped by them and stripped by int()), plus hex-looking and general ones"""
    yield 'bits48', list(BIN)
    yield 'plus+bits47', ['+'] + ['01'] * 47                  # int('+0101', 2) is fine; '+' is base64 character 62
    yield 'minus-bits47', ['-'] + ['01'] * 47                 # a NEGATIVE numeral: never a key; '-' is url-safe character 62
    yield 'blank+bits48', [rng.choice(' \n\t')] + ['01'] * 48 + ([' '] if rng.random() < 0.5 else [])
    i = rng.randrange(1, 47)
    yield 'underscore', ['01'] * i + ['_'] + ['01'] * (47 - i)            # '0_1' is a numeral; '_' is url-safe character 63
    yield '0b+bits46', ['0', 'b'] + ['01'] * 46                          # int('0b01', 2) is fine; 'b' is a base64 character
    yield 'hexish48', [rng.choice(HEXISH) for _ in range(48)]            # looks like 24 bytes of hex
    yield 'digits48', [rng.choice(['01', '0123', '4567', '89']) for _ in range(48)]


def two_form_strings(rng, per_style=3):
    """[(style, text)]: texts of every template that `Address(text)` accepts as a user-friendly address"""
    out = []
    for style, tpl in templates(rng):
        for s in b64_crc_strings(rng, tpl, per_style):
            out.append((style, s))
    return out


def raw_address_lookalikes(rng):
    """[(style, text)]: `wc:hex` texts (the raw address form) written with binary / decimal digits only, full (64 hex digits) and
    short hash parts"""
    out = []
    for wc in ('0', '-1', '1', '00', '+0', '255'):
        for alpha, nm in (('01', 'bin'), ('0123456789', 'dec'), ('0123456789abcdef', 'hex')):
            for ln in (64, 2, 66):
                out.append((f'raw-{nm}{ln}', wc + ':' + ''.join(rng.choice(alpha) for _ in range(ln))))
    return out
