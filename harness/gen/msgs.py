"""C15: logical messages / state-inits / currency values, an independent Python transcription of the block.tlb
reading (encoder with the Either choices + decoder = the harness-side oracle), conversion to library objects and to
the Lean driver's tokens, and seeded generators.

Logical values (plain Python):
  addr   = list of parts as in scripts.py: ['n'] | ['e', len, val] | ['s', wc, hashhex] | ['s', wc, hashhex, depth, pfx]
  info   = ('I', ihr_disabled, bounce, bounced, src, dest, grams, extra: dict, ihr_fee, fwd_fee, lt, at)
         | ('X', src, dest, import_fee) | ('O', src, dest, lt, at)
  init   = None | dict(sd=None|int, tt=None|(tick, tock), code=Cell|None, data=Cell|None, lib=Cell|None)
  msg    = dict(info=info, init=init, body=Cell)
Cells are real library cells (built with Builder.store_bits/store_ref only).
"""
from . import cells as G
from . import scripts as S


def _lib():
    from pytoniq_core.boc.builder import Builder
    from pytoniq_core.boc.cell import Cell
    from pytoniq_core.boc.hashmap.hashmap import HashMap
    return Builder, Cell, HashMap


def mk_cell(bits, refs=()):
    Builder, _, _ = _lib()
    b = Builder()
    if bits:
        b.store_bits(bits)
    for r in refs:
        b.store_ref(r)
    return b.end_cell()


def dict_root(d):
    """root cell of HashmapE 32 (VarUInteger 32) or None; uses the library's dictionary serialiser (subject of C09/C10)"""
    if not d:
        return None
    _, _, HashMap = _lib()
    return HashMap(32, map_=dict(d), value_serializer=lambda src, dest: dest.store_var_uint(src, 5)).serialize()


def parse_dict_root(root):
    if root is None:
        return {}
    _, _, HashMap = _lib()
    return HashMap.parse(root.begin_parse(), 32, None, lambda src: src.load_var_uint(5))


# ----------------------------------------------------------------------------- DAG of library cells

class Dag:
    """child-before-parent node list of a set of library cells (deduplicated by hash)"""

    def __init__(self):
        self.nodes = []
        self.index = {}

    def add(self, cell):
        h = cell.hash
        if h in self.index:
            return self.index[h]
        refs = tuple(self.add(r) for r in cell.refs)
        self.nodes.append((cell.type_, cell.bits.to01(), refs))
        self.index[h] = len(self.nodes) - 1
        return self.index[h]

    def line(self):
        return G.dag_line(self.nodes)[8:] if self.nodes else '-'


def bits_of(cell):
    return cell.bits.to01()


# ----------------------------------------------------------------------------- spec encoder (independent)

def enc_grams(v):
    return S.enc_var_uint(v, 4)


def enc_maybe_ref(c):
    return ('0', []) if c is None else ('1', [c])


def enc_currency(grams, extra):
    b, r = enc_maybe_ref(dict_root(extra))
    return enc_grams(grams) + b, r


def enc_info(info):
    k = info[0]
    if k == 'I':
        _, a, b, c, src, dest, grams, extra, ihr, fwd, lt, at = info
        cb, cr = enc_currency(grams, extra)
        bits = '0' + ''.join('1' if x else '0' for x in (a, b, c)) + S.enc_addr(src) + S.enc_addr(dest) + cb \
               + enc_grams(ihr) + enc_grams(fwd) + S.enc_uint(lt, 64) + S.enc_uint(at, 32)
        return bits, cr
    if k == 'X':
        _, src, dest, fee = info
        return '10' + S.enc_addr(src) + S.enc_addr(dest) + enc_grams(fee), []
    _, src, dest, lt, at = info
    return '11' + S.enc_addr(src) + S.enc_addr(dest) + S.enc_uint(lt, 64) + S.enc_uint(at, 32), []


def enc_state_init(si):
    bits, refs = '', []
    bits += '0' if si['sd'] is None else '1' + S.enc_uint(si['sd'], 5)
    bits += '0' if si['tt'] is None else '1' + ''.join('1' if x else '0' for x in si['tt'])
    for k in ('code', 'data', 'lib'):
        b, r = enc_maybe_ref(si[k])
        bits += b
        refs += r
    return bits, refs


def enc_message(msg, init_ref, body_ref):
    """-> (bits, refs) of the message cell for the two Either choices, or None if it does not fit"""
    bits, refs = enc_info(msg['info'])
    refs = list(refs)
    if msg['init'] is None:
        bits += '0'
    else:
        sb, sr = enc_state_init(msg['init'])
        if init_ref:
            bits += '11'
            refs.append(mk_cell(sb, sr))
        else:
            bits += '10' + sb
            refs += sr
    if body_ref:
        bits += '1'
        refs.append(msg['body'])
    else:
        bits += '0' + bits_of(msg['body'])
        refs += list(msg['body'].refs)
    if len(bits) > 1023 or len(refs) > 4:
        return None
    return bits, refs


# ----------------------------------------------------------------------------- spec decoder (independent)

class Rd:
    def __init__(self, bits, refs):
        self.b, self.r, self.i, self.j = bits, list(refs), 0, 0

    def bits(self, n):
        if self.i + n > len(self.b):
            raise ValueError('short')
        s = self.b[self.i:self.i + n]
        self.i += n
        return s

    def uint(self, n):
        return int(self.bits(n), 2) if n else 0

    def int_(self, n):
        v = self.uint(n)
        return v - (1 << n) if v >> (n - 1) else v

    def bit(self):
        return self.bits(1) == '1'

    def ref(self):
        if self.j >= len(self.r):
            raise ValueError('no ref')
        self.j += 1
        return self.r[self.j - 1]

    def done(self):
        return self.i == len(self.b) and self.j == len(self.r)

    def rest(self):
        return self.b[self.i:], self.r[self.j:]


def dec_grams(rd):
    return rd.uint(8 * rd.uint(4))


def dec_addr(rd):
    t = rd.bits(2)
    if t == '00':
        return ['n']
    if t == '01':
        ln = rd.uint(9)
        return ['e', ln, rd.uint(ln)]
    if t == '10':
        any_ = None
        if rd.bit():
            d = rd.uint(5)
            if not 1 <= d <= 30:
                raise ValueError('anycast depth')
            any_ = (d, rd.uint(d))
        wc = rd.int_(8)
        h = G.bits_to_bytes(rd.bits(256)).hex()
        return ['s', wc, h] + (list(any_) if any_ else [])
    raise ValueError('addr_var')


def dec_maybe_ref(rd):
    return rd.ref() if rd.bit() else None


def dec_info(rd):
    if not rd.bit():
        a, b, c = rd.bit(), rd.bit(), rd.bit()
        src, dest = dec_addr(rd), dec_addr(rd)
        grams = dec_grams(rd)
        root = dec_maybe_ref(rd)
        ihr, fwd = dec_grams(rd), dec_grams(rd)
        return ('I', a, b, c, src, dest, grams, root, ihr, fwd, rd.uint(64), rd.uint(32))
    if not rd.bit():
        return ('X', dec_addr(rd), dec_addr(rd), dec_grams(rd))
    return ('O', dec_addr(rd), dec_addr(rd), rd.uint(64), rd.uint(32))


def dec_state_init(rd):
    sd = rd.uint(5) if rd.bit() else None
    tt = (rd.bit(), rd.bit()) if rd.bit() else None
    return dict(sd=sd, tt=tt, code=dec_maybe_ref(rd), data=dec_maybe_ref(rd), lib=dec_maybe_ref(rd))


def dec_message(cell):
    """spec reading of a message cell -> canonical string (see canon_msg) ; raises ValueError if not a Message Any"""
    rd = Rd(bits_of(cell), cell.refs)
    info = dec_info(rd)
    init = None
    if rd.bit():
        if rd.bit():
            c = rd.ref()
            r2 = Rd(bits_of(c), c.refs)
            init = dec_state_init(r2)
            if not r2.done():
                raise ValueError('state-init cell has extra data')
        else:
            init = dec_state_init(rd)
    if rd.bit():
        body = rd.ref()
        if not rd.done():
            raise ValueError('data after the body reference')
        bb, br = bits_of(body), list(body.refs)
    else:
        bb, br = rd.rest()
    return canon_parts(info, init, bb, br, root_is_cell=True)


# ----------------------------------------------------------------------------- canonical strings (= Drv/Message.lean showMsg)

def b01(x):
    return '1' if x else '0'


def hx(c):
    return '-' if c is None else c.hash.hex()


def canon_addr(parts):
    return ':'.join(str(p) if p != '' else '-' for p in parts)


def canon_info(info, root_is_cell=False):
    if info[0] == 'I':
        _, a, b, c, src, dest, grams, extra, ihr, fwd, lt, at = info
        root = extra if root_is_cell else dict_root(extra)
        return f'I;{b01(a)};{b01(b)};{b01(c)};{canon_addr(src)};{canon_addr(dest)};{grams};{hx(root)};{ihr};{fwd};{lt};{at}'
    if info[0] == 'X':
        return f'X;{canon_addr(info[1])};{canon_addr(info[2])};{info[3]}'
    return f'O;{canon_addr(info[1])};{canon_addr(info[2])};{info[3]};{info[4]}'


def canon_init(si):
    if si is None:
        return '-'
    sd = '-' if si['sd'] is None else str(si['sd'])
    tt = '-' if si['tt'] is None else b01(si['tt'][0]) + b01(si['tt'][1])
    return f"{sd};{tt};{hx(si['code'])};{hx(si['data'])};{hx(si['lib'])}"


def canon_parts(info, init, body_bits, body_refs, root_is_cell=False):
    return f"{canon_info(info, root_is_cell)}/{canon_init(init)}/{body_bits or '-'};{S.show_refs(body_refs)}"


def canon_msg(msg):
    return canon_parts(msg['info'], msg['init'], bits_of(msg['body']), list(msg['body'].refs))


# ----------------------------------------------------------------------------- library objects

def lib_currency(grams, extra):
    from pytoniq_core.tlb.block import CurrencyCollection, ExtraCurrencyCollection
    return CurrencyCollection(grams, ExtraCurrencyCollection(dict(extra)))


def lib_info(info):
    from pytoniq_core.tlb.transaction import InternalMsgInfo, ExternalMsgInfo, ExternalOutMsgInfo
    A = lambda p: S.mk_addr([str(x) for x in p])
    if info[0] == 'I':
        _, a, b, c, src, dest, grams, extra, ihr, fwd, lt, at = info
        return InternalMsgInfo(a, b, c, A(src), A(dest), lib_currency(grams, extra), ihr, fwd, lt, at)
    if info[0] == 'X':
        return ExternalMsgInfo(A(info[1]), A(info[2]), info[3])
    return ExternalOutMsgInfo(A(info[1]), A(info[2]), info[3], info[4])


def lib_state_init(si):
    from pytoniq_core.tlb.account import StateInit, TickTock
    if si is None:
        return None
    tt = None if si['tt'] is None else TickTock(si['tt'][0], si['tt'][1])
    return StateInit(split_depth=si['sd'], special=tt, code=si['code'], data=si['data'], library=si['lib'])


def lib_msg(msg):
    from pytoniq_core.tlb.transaction import MessageAny
    return MessageAny(lib_info(msg['info']), lib_state_init(msg['init']), msg['body'])


def addr_parts(a):
    s = S.show_addr(a)
    return s.split(':')


def canon_lib_currency(cc):
    d = cc.other.dict if cc.other is not None else None
    return f'{cc.grams};{hx(dict_root(d or {}))}'


def canon_lib_info(i):
    from pytoniq_core.tlb.transaction import InternalMsgInfo, ExternalMsgInfo
    if isinstance(i, InternalMsgInfo):
        return (f'I;{b01(i.ihr_disabled)};{b01(i.bounce)};{b01(i.bounced)};{S.show_addr(i.src)};{S.show_addr(i.dest)};'
                f'{canon_lib_currency(i.value)};{i.ihr_fee};{i.fwd_fee};{i.created_lt};{i.created_at}')
    if isinstance(i, ExternalMsgInfo):
        return f'X;{S.show_addr(i.src)};{S.show_addr(i.dest)};{i.import_fee}'
    return f'O;{S.show_addr(i.src)};{S.show_addr(i.dest)};{i.created_lt};{i.created_at}'


def canon_lib_init(s):
    if s is None:
        return '-'
    sd = '-' if s.split_depth is None else str(s.split_depth)
    tt = '-' if s.special is None else b01(s.special.tick) + b01(s.special.tock)
    return f'{sd};{tt};{hx(s.code)};{hx(s.data)};{hx(s.library)}'


def canon_lib_msg(m):
    return f"{canon_lib_info(m.info)}/{canon_lib_init(m.init)}/{S.show_bits(m.body.bits)};{S.show_refs(m.body.refs)}"


# ----------------------------------------------------------------------------- driver tokens

def tok_info(info, dag):
    def n(c):
        return '-' if c is None else str(dag.add(c))
    if info[0] == 'I':
        _, a, b, c, src, dest, grams, extra, ihr, fwd, lt, at = info
        return f'I;{b01(a)};{b01(b)};{b01(c)};{canon_addr(src)};{canon_addr(dest)};{grams};{n(dict_root(extra))};{ihr};{fwd};{lt};{at}'
    return canon_info(info)


def tok_init(si, dag):
    if si is None:
        return '-'
    def n(c):
        return '-' if c is None else str(dag.add(c))
    sd = '-' if si['sd'] is None else str(si['sd'])
    tt = '-' if si['tt'] is None else b01(si['tt'][0]) + b01(si['tt'][1])
    return f"{sd};{tt};{n(si['code'])};{n(si['data'])};{n(si['lib'])}"


def tok_msg(msg, dag):
    return f"{tok_info(msg['info'], dag)}/{tok_init(msg['init'], dag)}/{dag.add(msg['body'])}"


def show_cell(c):
    return f'ok {c.hash.hex()} {S.show_bits(c.bits)} {S.show_refs(c.refs)}'


# ----------------------------------------------------------------------------- generators

def rand_addr(rng, kind=None):
    """kind: 'int' (addr_std), 'ext' (none/extern), None (any)"""
    while True:
        p = S.rand_addr_tok(rng).split(':')[1:]
        if kind == 'int' and p[0] != 's':
            continue
        if kind == 'ext' and p[0] == 's':
            continue
        if p[0] == 's':
            return ['s', int(p[1]), p[2]] + [int(x) for x in p[3:]]
        return [p[0]] + [int(x) for x in p[1:]]


def rand_grams(rng):
    r = rng.random()
    if r < 0.2:
        return 0
    nb = rng.choice([1, 1, 2, 4, 8, 15, rng.randrange(1, 16)])
    return rng.choice([1 << (8 * nb - 8), (1 << (8 * nb)) - 1, rng.getrandbits(8 * nb) | (1 << (8 * nb - 8))])


def rand_extra(rng, size=None):
    n = size if size is not None else rng.choice([0, 0, 1, 1, 2, 5, 20])
    d = {}
    while len(d) < n:
        # amounts: VarUInteger 32 - zero is a legal amount (len 0) and such an entry is still an entry of the dictionary
        d[rng.choice([0, 1, (1 << 32) - 1, rng.getrandbits(32)])] = rng.choice([0, 0, 1, 255, 256, rng.getrandbits(rng.randrange(1, 248)) + 1])
    return d


def rand_leaf(rng, pool):
    return rng.choice(pool)


def rand_info(rng, kind=None, strict=None, extra_size=None):
    kind = kind or rng.choice('IXO')
    strict = rng.random() < 0.6 if strict is None else strict
    ak = (lambda k: k) if strict else (lambda k: None)
    if kind == 'I':
        return ('I', rng.random() < .5, rng.random() < .5, rng.random() < .5, rand_addr(rng, ak('int')), rand_addr(rng, ak('int')),
                rand_grams(rng), rand_extra(rng, extra_size), rand_grams(rng), rand_grams(rng),
                rng.choice([0, (1 << 64) - 1, rng.getrandbits(64)]), rng.choice([0, (1 << 32) - 1, rng.getrandbits(32)]))
    if kind == 'X':
        return ('X', rand_addr(rng, ak('ext')), rand_addr(rng, ak('int')), rand_grams(rng))
    return ('O', rand_addr(rng, ak('int')), rand_addr(rng, ak('ext')), rng.choice([0, (1 << 64) - 1, rng.getrandbits(64)]),
            rng.choice([0, (1 << 32) - 1, rng.getrandbits(32)]))


def rand_state_init(rng, pool, nrefs=None, sd=None, tt=None):
    ks = ['code', 'data', 'lib']
    if nrefs is None:
        have = [k for k in ks if rng.random() < 0.6]
    else:
        have = rng.sample(ks, nrefs)
    si = dict(sd=(rng.choice([0, 1, 31, rng.randrange(32)]) if (rng.random() < .4 if sd is None else sd) else None),
              tt=((rng.random() < .5, rng.random() < .5) if (rng.random() < .4 if tt is None else tt) else None))
    for k in ks:
        si[k] = rand_leaf(rng, pool) if k in have else None
    return si


def leaf_pool(rng):
    a = mk_cell('')
    b = mk_cell('1011')
    c = mk_cell(G.rand_bits(rng, 256), (a, b))
    d = mk_cell('1' * 1023, (c, c, b, a))
    e = mk_cell(G.rand_bits(rng, 77), (d,))
    return [a, b, c, d, e]


def body_cell(rng, nbits, nrefs, pool):
    return mk_cell(G.rand_bits(rng, nbits), [rand_leaf(rng, pool) for _ in range(nrefs)])


# ----------------------------------------------------------------------------- exact-fill headers (solve for the free field sizes)

FILL_FAMILIES = ('I-strict', 'I-relaxed', 'X-relaxed', 'O-relaxed')


def _addr_options(relaxed):
    """[(group, bits, spec)] of the address forms: std, std + anycast depth d; relaxed address classes also none / extern of every length"""
    out = [('std', 267, ('std', 0))] + [('any', 272 + d, ('std', d)) for d in range(1, 31)]
    if relaxed:
        out += [('none', 2, ('none', 0))] + [('ext', 11 + ln, ('ext', ln)) for ln in range(0, 512)]
    return out


def _grams_options():
    return [('g', 4 + 8 * n, n) for n in range(16)]


def _mk_addr(rng, spec):
    kind, n = spec
    if kind == 'none':
        return ['n']
    if kind == 'ext':
        return ['e', n, (rng.getrandbits(n) | (1 << (n - 1))) if n else 0]
    a = ['s', rng.choice([0, -1, rng.randrange(-128, 128)]), rng.randbytes(32).hex()]
    return a + [n, rng.getrandbits(n)] if n else a


def _mk_grams(rng, n):
    return (rng.getrandbits(8 * n) | (1 << (8 * n - 8))) if n else 0


_REACH = {}


def solve_sizes(rng, knobs, target, key=None):
    """knobs: [[(group, bits, value)]]; -> one value per knob whose bits add up to EXACTLY `target`, or None.  Exact (the reachable sums
    of every suffix of the knob list are computed, cached under `key`), and varied: at every knob the groups, and the options inside
    a group, are tried in an order drawn from rng."""
    reach = _REACH.get(key) if key is not None else None
    if reach is None:
        cap = 1023
        reach = [None] * (len(knobs) + 1)
        reach[len(knobs)] = {0}
        for i in range(len(knobs) - 1, -1, -1):
            sizes = {o[1] for o in knobs[i]}
            reach[i] = {s + t for s in sizes for t in reach[i + 1] if s + t <= cap}
        if key is not None:
            _REACH[key] = reach
    if target < 0 or target not in reach[0]:
        return None
    out, need = [], target
    for i, opts in enumerate(knobs):
        groups = sorted({o[0] for o in opts})
        rng.shuffle(groups)
        pick = None
        for g in groups:
            cand = [o for o in opts if o[0] == g and (need - o[1]) in reach[i + 1]]
            if cand:
                pick = rng.choice(cand)
                break
        out.append(pick[2])
        need -= pick[1]
    return out


def fill_info(rng, family, extra_size, bits):
    """a header of the family whose block.tlb encoding has EXACTLY `bits` bits (anycast depths, extern lengths, the byte lengths of the
    amounts are solved for), or None when the family has no such header"""
    relaxed = family.endswith('relaxed')
    ao = _addr_options(relaxed)
    lt, at = rng.choice([0, (1 << 64) - 1, rng.getrandbits(64)]), rng.choice([0, (1 << 32) - 1, rng.getrandbits(32)])
    if family[0] == 'I':
        sol = solve_sizes(rng, [ao, ao, _grams_options(), _grams_options(), _grams_options()], bits - (4 + 1 + 96), key=family)
        if sol is None:
            return None
        info = ('I', rng.random() < .5, rng.random() < .5, rng.random() < .5, _mk_addr(rng, sol[0]), _mk_addr(rng, sol[1]), _mk_grams(rng, sol[2]),
                rand_extra(rng, extra_size), _mk_grams(rng, sol[3]), _mk_grams(rng, sol[4]), lt, at)
    elif family[0] == 'X':
        sol = solve_sizes(rng, [ao, ao, _grams_options()], bits - 2, key=family)
        if sol is None:
            return None
        info = ('X', _mk_addr(rng, sol[0]), _mk_addr(rng, sol[1]), _mk_grams(rng, sol[2]))
    else:
        sol = solve_sizes(rng, [ao, ao], bits - (2 + 96), key=family)
        if sol is None:
            return None
        info = ('O', _mk_addr(rng, sol[0]), _mk_addr(rng, sol[1]), lt, at)
    assert len(enc_info(info)[0]) == bits, (family, bits, len(enc_info(info)[0]))
    return info
