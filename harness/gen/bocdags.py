"""Seeded generators of cell DAGs for the bag-of-cells properties (C03/C04).

A case is (tag, nodes, root) with `nodes` in the child-before-parent syntax of gen/cells.py and `root` an index.
Generators here make the root REACH every node (so the bag really has the intended number of cells) and can make
every node distinct (unique tag in the data) so that cell counts / payload lengths hit exact boundaries.
"""
from . import cells as G

OPTS = [(0, 0, 0), (0, 1, 0), (1, 0, 0), (1, 1, 0), (1, 0, 1), (1, 1, 1)]     # (has_idx, hash_crc32, has_cache_bits)


def uniq_bits(i, extra=''):
    return format(i, '024b') + extra


def connected_dag(rng, n, max_extra_bits=40, unique=True):
    """n nodes, last one is the root and reaches all others; refs 0..4; sharing; logarithmic-ish depth."""
    nodes = []
    orphans = []
    for i in range(n):
        rem_after = n - i - 1
        o = len(orphans)
        min_take = max(0, o - 3 * rem_after)
        k = 0 if i == 0 else rng.choice([0, 0, 1, 2, 2, 3, 4])
        if rem_after == 0:
            k = max(k, min_take)
        refs = []
        take = 0
        for _ in range(max(k, min_take)):
            if len(refs) == 4:
                break
            if orphans and (take < min_take or rng.random() < 0.7):
                refs.append(orphans.pop(rng.randrange(len(orphans))))
                take += 1
            elif i > 0:
                refs.append(rng.randrange(i))
        rng.shuffle(refs)
        extra = G.rand_bits(rng, rng.randrange(0, max_extra_bits + 1)) if max_extra_bits else ''
        bits = uniq_bits(i, extra) if unique else G.rand_bits(rng, rng.choice([0, 1, 2, 3, 8, 9]))
        nodes.append((G.ORD, bits, tuple(refs)))
        orphans.append(i)
    assert len(orphans) == 1 and orphans[0] == n - 1, (orphans[:5], n)
    return nodes


def heap_dag(rng, n, max_extra_bits=16):
    """exactly n distinct cells, root reaches all, depth <= log2(n)+1: binary-heap skeleton (h -> 2h+1, 2h+2) plus up to two
    shared references to arbitrary nodes of heap index >= 2h+1, in shuffled order."""
    nodes = []
    for j in range(n):
        h = n - 1 - j
        kids = [c for c in (2 * h + 1, 2 * h + 2) if c < n]
        if 2 * h + 1 < n:
            for _ in range(rng.choice([0, 0, 1, 2])):
                kids.append(rng.randrange(2 * h + 1, n))
        rng.shuffle(kids)
        extra = G.rand_bits(rng, rng.randrange(0, max_extra_bits + 1)) if max_extra_bits else ''
        nodes.append((G.ORD, uniq_bits(h, extra), tuple(n - 1 - c for c in kids)))
    return nodes


def wide_tree(n, fat=False):
    """exactly n distinct cells, depth ~log4(n): node i refs nodes 4i+1..4i+4 (heap layout, then reversed).
    fat: the root, two inner nodes (4 references each) and the last leaf carry 1023 / 1017 data bits - the LARGEST records a bag can
    hold, inside a bag whose cell count decides the width of the reference indices (a per-record size bound must hold there too)."""
    # heap index h -> list index n-1-h so that children come first
    big = {0: 1023, 1: 1017, 5: 1023, n - 1: 1023} if fat else {}
    nodes = []
    for j in range(n):
        h = n - 1 - j
        kids = [n - 1 - c for c in range(4 * h + 1, 4 * h + 5) if c < n]
        bits = uniq_bits(h)
        if h in big:
            bits = bits + '1' + '0' * (big[h] - len(bits) - 1) if len(bits) < big[h] else bits
        nodes.append((G.ORD, bits, tuple(kids)))
    return nodes


def lattice(levels, width, bits_fn=None):
    """maximal sharing: every node of a level references (up to 4 of) the nodes of the level below"""
    nodes = []
    prev = []
    for lv in range(levels):
        cur = []
        for w in range(width):
            refs = tuple(prev[(w + d) % len(prev)] for d in range(min(4, len(prev)))) if prev else ()
            nodes.append((G.ORD, bits_fn(lv, w) if bits_fn else uniq_bits(lv * width + w), refs))
            cur.append(len(nodes) - 1)
        prev = cur
    nodes.append((G.ORD, '1', tuple(prev[:4])))
    return nodes


def twin_subdags(rng, n):
    """two structurally identical copies of a sub-DAG (different node indices, equal hashes) under one root"""
    sub = G.gen_ordinary_dag(rng, n)
    m = len(sub)
    nodes = list(sub) + [(k, b, tuple(r + m for r in refs)) for k, b, refs in sub]
    nodes.append((G.ORD, '101', (m - 1, 2 * m - 1, m - 1)))
    return nodes


def pruned_beside_original(rng):
    """one bag holding a tree AND a partially pruned copy of it (as a block's state update or a proof next to its subject
    does): the two roots differ as cells (different top-level hash, different content) but share their level-0 hash -
    a serialiser that identifies cells by the level-0 hash would merge them"""
    for _ in range(20):
        sub = G.gen_ordinary_dag(rng, rng.randrange(2, 9), deep=True)
        infos = G.spec_dag(sub)
        root = len(sub) - 1
        pdb, proot, pruned = G.prune_random(rng, sub, infos, root, level=1)
        if not pruned or not pdb.ok(proot):
            continue
        db = G.DagBuilder()
        for n_ in sub:
            db.add(*n_)
        off = len(db.nodes)
        for k, b, r in pdb.nodes:
            db.add(k, b, tuple(x + off for x in r))
        pr = off + proot
        shape = rng.randrange(3)
        if shape == 0:      # Merkle update original -> pruned copy (same level-0 hash on both sides)
            top = db.add(G.MUPDATE, G.mupdate_bits(db.infos[root], db.infos[pr]), (root, pr))
        elif shape == 1:    # the tree next to a Merkle proof of it
            mp = db.add(G.MPROOF, G.mproof_bits(db.infos[pr]), (pr,))
            top = db.add(G.ORD, '1', (root, mp))
        else:               # proof first
            mp = db.add(G.MPROOF, G.mproof_bits(db.infos[pr]), (pr,))
            top = db.add(G.ORD, '0', (mp, root))
        if db.ok(top):
            return db.nodes, top
    return None


def payload_chain(rng, total, size_bytes):
    """A chain whose serialised cell data is exactly `total` bytes when ref indices take `size_bytes` bytes:
    leaf = 2 + d bytes, inner = 2 + d + size_bytes.  Returns nodes or None."""
    nodes = []
    left = total
    i = 0
    while left > 0:
        over = 2 if i == 0 else 2 + size_bytes
        if left < over + 4:
            return None
        d = min(127, left - over)                 # data bytes of this cell (>= 4: room for the unique tag)
        rest = left - over - d
        if 0 < rest < 2 + size_bytes + 4:         # leave room for one more well-formed cell
            d -= (2 + size_bytes + 4 - rest)
            if d < 4:
                return None
        nbits = d * 8 if rng.random() < 0.5 else d * 8 - rng.randrange(1, 8)
        bits = uniq_bits(i) + G.rand_bits(rng, nbits - 24)
        nodes.append((G.ORD, bits, (i - 1,) if i else ()))
        left -= over + d
        i += 1
    return nodes


def payload_case(rng, total):
    for s in (1, 2, 3):
        nodes = payload_chain(rng, total, s)
        if nodes is None or len(nodes) > 1023:
            continue
        if (len(nodes).bit_length() + 7) // 8 == s:
            return nodes
    return None


def expected_payload_len(nodes, reach):
    """payload length in bytes of the bag holding the distinct cells `reach` (indices), all widths from the format"""
    s = (len(reach).bit_length() + 7) // 8
    return sum(2 + (len(nodes[i][1]) + 7) // 8 + s * len(nodes[i][2]) for i in reach)


def exotic_case(rng, size):
    db = G.DagBuilder()
    r = G.gen_exotic_tree(rng, db, 0, size)
    if not db.ok(r):
        return None
    return db.nodes, r


def reachable(nodes, root):
    seen = set()
    stack = [root]
    while stack:
        i = stack.pop()
        if i in seen:
            continue
        seen.add(i)
        stack.extend(nodes[i][2])
    return seen



def sibling_masks(rng):
    """ordinary cells whose children carry INCOMPARABLE level masks (the parent's mask is their OR, not their maximum): pruned branches
    of masks a and b with (a | b) not in (a, b) as siblings in every order, optionally with a level-0 sibling, wrapped in as many Merkle
    proofs as the level needs so that the bag's root is an ordinary level-0 DAG a block proof could contain. yields (tag, nodes, root)"""
    import hashlib
    pairs = [(1, 2), (2, 1), (1, 4), (4, 1), (2, 4), (4, 2), (3, 4), (4, 3), (5, 2), (2, 5), (1, 6), (6, 1)]
    for a, b in pairs:
        for extra in (False, True):
            db = G.DagBuilder()
            kids = []
            for j, m in enumerate((a, b)):
                pc = G.popcount(m)
                hs = [hashlib.sha256(b'%d-%d-%d-%d' % (a, b, j, l)).digest() for l in range(pc)]
                ds = [rng.randrange(0, 40) for _ in range(pc)]
                kids.append(db.add(G.PRUNED, G.pruned_bits(m, hs, ds)))
            if extra:
                kids.insert(rng.randrange(3), db.add(G.ORD, G.rand_bits(rng, rng.randrange(1, 30))))
            top = db.add(G.ORD, G.rand_bits(rng, rng.randrange(0, 20)), tuple(kids))
            ok = db.ok(top)
            while ok and db.infos[top].mask != 0:
                top = db.add(G.MPROOF, G.mproof_bits(db.infos[top]), (top,))
                ok = db.ok(top)
            if ok:
                root = db.add(G.ORD, '1', (top,))
                if db.ok(root):
                    yield f'sibling-masks-{a}-{b}{"-x" if extra else ""}', db.nodes, root

def cases(ctx, scale=1.0):
    """yields (tag, nodes, root, big) ; `big` cases should be checked with the economical protocol."""
    rng = ctx.rng
    # tiny hand cases
    yield 'single-empty', [(G.ORD, '', ())], 0, False
    yield 'single-1023', [(G.ORD, G.rand_bits(rng, 1023), ())], 0, False
    yield 'same-child-x4', [(G.ORD, '1', ()), (G.ORD, '0', (0, 0, 0, 0))], 1, False
    yield 'diamond', [(G.ORD, '1', ()), (G.ORD, '01', (0,)), (G.ORD, '10', (0,)), (G.ORD, '', (1, 2, 0))], 3, False
    yield 'late-shared', [(G.ORD, '1', ()), (G.ORD, '01', (0,)), (G.ORD, '11', (1,)), (G.ORD, '', (0, 2))], 3, False
    yield 'early-shared', [(G.ORD, '1', ()), (G.ORD, '01', (0,)), (G.ORD, '11', (1,)), (G.ORD, '', (2, 0))], 3, False
    # random small DAGs (content duplicates likely) rooted at the last node, and at inner nodes
    for t in range(int(ctx.n(160, 720) * scale)):
        nodes = G.gen_ordinary_dag(rng, rng.randrange(1, 25), deep=rng.random() < 0.3)
        yield f'rand{t}', nodes, len(nodes) - 1, False
    for t in range(int(ctx.n(100, 400) * scale)):
        nodes = connected_dag(rng, rng.randrange(2, 60), unique=rng.random() < 0.6)
        yield f'conn{t}', nodes, len(nodes) - 1, False
    for t in range(int(ctx.n(12, 48) * scale)):
        yield f'twin{t}', twin_subdags(rng, rng.randrange(1, 12)), None, False
    # exotic cells
    for t in range(int(ctx.n(80, 320) * scale)):
        e = exotic_case(rng, rng.randrange(1, 14))
        if e:
            yield f'exotic{t}', e[0], e[1], False
    for t in range(int(ctx.n(40, 200) * scale)):
        e = pruned_beside_original(rng)
        if e:
            yield f'pruned-beside{t}', e[0], e[1], False
    for tag_, nodes_, root_ in sibling_masks(rng):
        yield tag_, nodes_, root_, False
    # sharing
    yield 'lattice-8x4', lattice(8, 4), None, False
    yield 'lattice-40x3', lattice(40, 3), None, False
    yield 'lattice-dup', lattice(6, 4, bits_fn=lambda lv, w: format(lv, '08b')), None, False
    for w in (1, 2, 4):
        yield f'chain200x{w}', G.chain(200, '', w), None, False
    # cell-count boundaries of the 1-byte size field
    for n in (127, 128, 254, 255, 256, 257):
        yield f'cells{n}-tree', wide_tree(n, fat=(n in (255, 256))), None, False
        yield f'cells{n}-heap', heap_dag(rng, n, max_extra_bits=8), None, False
    # payload-length boundaries of the offset width (doubled with cache bits)
    for total in (126, 127, 128, 129, 254, 255, 256, 257, 32767, 32768, 65535, 65536):
        nodes = payload_case(rng, total)
        if nodes is not None:
            yield f'payload{total}', nodes, None, False
    # depth-1023 chain (the deepest constructible cell), 1 and 2 refs to the same child
    yield 'chain1023', G.chain(1023, '', 1), None, False
    yield 'chain1023x2', G.chain(1023, '', 2), None, False
    # medium / large
    for t in range(int(ctx.n(6, 16) * scale)):
        n = rng.randrange(100, 700)
        yield f'medium{t}', heap_dag(rng, n, max_extra_bits=64), None, False
    yield 'large3000', heap_dag(rng, 3000), None, True
    # the 2-byte / 3-byte boundary of the size field (cells = 65536 needs 3 bytes)
    yield 'cells65536-tree', wide_tree(65536, fat=True), None, 'flat'
    if ctx.thorough:
        for n in (65535, 65537):
            yield f'cells{n}-tree', wide_tree(n), None, 'flat'       # Lean: byte-level layer only (semantic layer by the Python twin)
        yield 'cells70000-heap', heap_dag(rng, 70000, max_extra_bits=0), None, True       # full Lean strict reader on one option set
