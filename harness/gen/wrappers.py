"""C15, stand-alone wrappers (wallet data, wallet message, hash update, NFT item / sale data): logical values, an
independent Python transcription of their layouts (encoder + decoder = harness-side oracle), conversion to library
objects and to the Lean driver's tokens, boundary values and seeded generators.

The layouts are transcribed from the contracts' storage readers (cited in lean/TonVerif/Spec/Tlb/Wrappers.lean), not
from pytoniq-core:
  v3   seqno:uint32 wallet_id:uint32 public_key:bits256
  v4   seqno:uint32 wallet_id:uint32 public_key:bits256 plugins:(Maybe ^Cell)
  hl   wallet_id:uint32 last_cleaned:uint64 public_key:bits256 old_queries:(HashmapE 64 WalletMessage)
  wm   send_mode:uint8 message:^(Message Any)
  hu   #72 old_hash:bits256 new_hash:bits256
  nft  index:uint64 collection:MsgAddress owner:MsgAddress content:^Cell
  fees marketplace_fee_address:MsgAddress marketplace_fee:Grams royalty_address:MsgAddress royalty_amount:Grams
  sale is_complete:Bool created_at:uint32 marketplace nft nft_owner:MsgAddress full_price:Grams fees:^fees can_deploy:Bool

Logical values are dicts (field names below); addresses are part lists as in msgs.py; cells are library cells.
"""
from . import cells as G
from . import scripts as S
from . import msgs as M

KINDS = ('v3', 'v4', 'hl', 'wm', 'hu', 'nft', 'fees', 'sale')
NAMES = dict(v3='WalletV3Data', v4='WalletV4Data', hl='HighloadWalletData', wm='WalletMessage', hu='HashUpdate',
             nft='NftItemData', fees='NftItemSaleFees', sale='NftItemSaleData')


# ----------------------------------------------------------------------------- helpers

def _uint(v, n):
    if not (isinstance(v, int) and 0 <= v < (1 << n)):
        raise OverflowError
    return format(v, f'0{n}b') if n else ''


def _bytes(b, n):
    if len(b) != n:
        raise OverflowError
    return ''.join(format(x, '08b') for x in b)


def _addr(p):
    if p[0] == 'e' and not (0 <= p[1] < 512 and 0 <= p[2] < (1 << p[1])):
        raise OverflowError
    if p[0] == 's' and len(p) == 5 and not (1 <= p[3] <= 30 and 0 <= p[4] < (1 << p[3])):
        raise OverflowError
    if p[0] == 's' and not -128 <= p[1] < 128:
        raise OverflowError
    return S.enc_addr(p)


def _grams(v):
    if not (isinstance(v, int) and 0 <= v < (1 << 120)):
        raise OverflowError
    return M.enc_grams(v)


def _rd_bytes(rd, n):
    return G.bits_to_bytes(rd.bits(8 * n))


def queries_root(q):
    """root of HashmapE 64 WalletMessage: dictionary structure by the library's HashMap (C09/C10), values by enc('wm'); None when empty"""
    if not q:
        return None
    _, _, HashMap = M._lib()
    def put(src, dest):            # the value by the spec encoder of this file, not by WalletMessage.serialize
        b, r = next(e for e in (enc('wm', src, ch) for ch in ((False, False), (False, True), (True, True), (True, False))) if e is not None)
        dest.store_bits(b)
        for c in r:
            dest.store_ref(c)
    return HashMap(64, map_=dict(q), value_serializer=put).serialize()


def queries_root_lib(q):
    """the dictionary root as the model's abstraction boundary defines it: HashMap(64).serialize() (C09/C10) over the values'
    own WalletMessage.serialize() -- computed apart from HighloadWalletData.serialize; None when empty; raises if a value does"""
    if not q:
        return None
    _, _, HashMap = M._lib()
    return HashMap(64, map_={k: lib_obj('wm', x) for k, x in q.items()},
                   value_serializer=lambda src, dest: dest.store_cell(src.serialize())).serialize()


def parse_queries(root):
    """spec reading of a HashmapE 64 WalletMessage root -> {key: canonical wallet message}; dictionary structure by HashMap.parse"""
    if root is None:
        return {}
    _, _, HashMap = M._lib()
    return HashMap.parse(root.begin_parse(), 64, None, lambda src: dec('wm', src.to_cell()))


# ----------------------------------------------------------------------------- spec encoder

def enc(kind, v, choices=(False, False)):
    """-> (bits, refs) of the cell, or None when a field is out of range / the cell would not fit"""
    try:
        if kind == 'v3':
            r = _uint(v['seqno'], 32) + _uint(v['wid'], 32) + _bytes(v['pk'], 32), []
        elif kind == 'v4':
            b, rf = M.enc_maybe_ref(v['plugins'])
            r = _uint(v['seqno'], 32) + _uint(v['wid'], 32) + _bytes(v['pk'], 32) + b, rf
        elif kind == 'hl':
            b, rf = M.enc_maybe_ref(v['root'])
            r = _uint(v['wid'], 32) + _uint(v['lc'], 64) + _bytes(v['pk'], 32) + b, rf
        elif kind == 'wm':
            e = M.enc_message(v['msg'], choices[0], choices[1])
            if e is None:
                return None
            r = _uint(v['mode'], 8), [M.mk_cell(e[0], e[1])]
        elif kind == 'hu':
            r = '01110010' + _bytes(v['old'], 32) + _bytes(v['new'], 32), []
        elif kind == 'nft':
            r = _uint(v['index'], 64) + _addr(v['coll']) + _addr(v['owner']), [v['content']]
        elif kind == 'fees':
            r = _addr(v['a']) + _grams(v['f']) + _addr(v['b']) + _grams(v['r']), []
        elif kind == 'sale':
            fb = enc('fees', v['fees'])
            if fb is None:
                return None
            r = (('1' if v['c'] else '0') + _uint(v['t'], 32) + _addr(v['m']) + _addr(v['n']) + _addr(v['o']) + _grams(v['p'])
                 + ('1' if v['e'] else '0')), [M.mk_cell(fb[0], fb[1])]
        else:
            raise KeyError(kind)
    except OverflowError:
        return None
    if len(r[0]) > 1023 or len(r[1]) > 4:
        return None
    return r


# ----------------------------------------------------------------------------- spec decoder -> canonical string

def dec(kind, cell):
    """spec reading of a cell -> canonical string; ValueError when the cell is not (exactly) such a value"""
    rd = M.Rd(M.bits_of(cell), cell.refs)
    if kind == 'v3':
        s = f'{rd.uint(32)};{rd.uint(32)};{_rd_bytes(rd, 32).hex()}'
    elif kind == 'v4':
        s = f'{rd.uint(32)};{rd.uint(32)};{_rd_bytes(rd, 32).hex()};{M.hx(M.dec_maybe_ref(rd))}'
    elif kind == 'hl':
        s = f'{rd.uint(32)};{rd.uint(64)};{_rd_bytes(rd, 32).hex()};{M.hx(M.dec_maybe_ref(rd))}'
    elif kind == 'wm':
        mode = rd.uint(8)
        s = f'{mode}~{M.dec_message(rd.ref())}'
    elif kind == 'hu':
        if rd.bits(8) != '01110010':
            raise ValueError('tag')
        s = f'{_rd_bytes(rd, 32).hex()};{_rd_bytes(rd, 32).hex()}'
    elif kind == 'nft':
        s = f'{rd.uint(64)};{M.canon_addr(M.dec_addr(rd))};{M.canon_addr(M.dec_addr(rd))};{M.hx(rd.ref())}'
    elif kind == 'fees':
        s = _dec_fees(rd)
    elif kind == 'sale':
        c, t = rd.bit(), rd.uint(32)
        m, n, o = M.dec_addr(rd), M.dec_addr(rd), M.dec_addr(rd)
        p = M.dec_grams(rd)
        fc = rd.ref()
        r2 = M.Rd(M.bits_of(fc), fc.refs)
        fees = _dec_fees(r2)
        if not r2.done():
            raise ValueError('fees cell has extra data')
        e = rd.bit()
        s = f'{M.b01(c)};{t};{M.canon_addr(m)};{M.canon_addr(n)};{M.canon_addr(o)};{p};{fees};{M.b01(e)}'
    else:
        raise KeyError(kind)
    if not rd.done():
        raise ValueError('extra data')
    return s


def _dec_fees(rd):
    a = M.dec_addr(rd)
    f = M.dec_grams(rd)
    b = M.dec_addr(rd)
    r = M.dec_grams(rd)
    return f'{M.canon_addr(a)};{f};{M.canon_addr(b)};{r}'


# ----------------------------------------------------------------------------- canonical strings of logical values (= Drv show*)

def canon(kind, v):
    if kind == 'v3':
        return f"{v['seqno']};{v['wid']};{v['pk'].hex()}"
    if kind == 'v4':
        return f"{v['seqno']};{v['wid']};{v['pk'].hex()};{M.hx(v['plugins'])}"
    if kind == 'hl':
        return f"{v['wid']};{v['lc']};{v['pk'].hex()};{M.hx(v['root'])}"
    if kind == 'wm':
        return f"{v['mode']}~{M.canon_msg(v['msg'])}"
    if kind == 'hu':
        return f"{v['old'].hex()};{v['new'].hex()}"
    if kind == 'nft':
        return f"{v['index']};{M.canon_addr(v['coll'])};{M.canon_addr(v['owner'])};{M.hx(v['content'])}"
    if kind == 'fees':
        return f"{M.canon_addr(v['a'])};{v['f']};{M.canon_addr(v['b'])};{v['r']}"
    if kind == 'sale':
        return (f"{M.b01(v['c'])};{v['t']};{M.canon_addr(v['m'])};{M.canon_addr(v['n'])};{M.canon_addr(v['o'])};{v['p']};"
                f"{canon('fees', v['fees'])};{M.b01(v['e'])}")
    raise KeyError(kind)


def tok(kind, v, dag):
    """driver token (cells become DAG node numbers); `wm` -> (mode, message token)"""
    def n(c):
        return '-' if c is None else str(dag.add(c))
    if kind == 'v3':
        return f"v3;{v['seqno']};{v['wid']};{v['pk'].hex() or '-'}"
    if kind == 'v4':
        return f"v4;{v['seqno']};{v['wid']};{v['pk'].hex() or '-'};{n(v['plugins'])}"
    if kind == 'hl':
        return f"hl;{v['wid']};{v['lc']};{v['pk'].hex() or '-'};{n(v['root'])}"
    if kind == 'wm':
        return f"{v['mode']} {M.tok_msg(v['msg'], dag)}"
    if kind == 'hu':
        return f"hu;{v['old'].hex() or '-'};{v['new'].hex() or '-'}"
    if kind == 'nft':
        return f"nft;{v['index']};{M.canon_addr(v['coll'])};{M.canon_addr(v['owner'])};{n(v['content'])}"
    if kind == 'fees':
        return 'fees;' + canon('fees', v)
    if kind == 'sale':
        return 'sale;' + canon('sale', v)
    raise KeyError(kind)


# ----------------------------------------------------------------------------- library objects

def _A(p):
    return S.mk_addr([str(x) for x in p])


def lib_obj(kind, v):
    from pytoniq_core.tlb.custom.wallet import WalletV3Data, WalletV4Data, HighloadWalletData, WalletMessage
    from pytoniq_core.tlb.custom.nft import NftItemData, NftItemSaleFees, NftItemSaleData
    from pytoniq_core.tlb.utils import HashUpdate
    if kind == 'v3':
        return WalletV3Data(seqno=v['seqno'], wallet_id=v['wid'], public_key=v['pk'])
    if kind == 'v4':
        return WalletV4Data(seqno=v['seqno'], wallet_id=v['wid'], public_key=v['pk'], plugins=v['plugins'])
    if kind == 'hl':
        q = None if v['q'] is None else {k: lib_obj('wm', x) for k, x in v['q'].items()}
        return HighloadWalletData(wallet_id=v['wid'], last_cleaned=v['lc'], public_key=v['pk'], old_queries=q)
    if kind == 'wm':
        return WalletMessage(v['mode'], M.lib_msg(v['msg']))
    if kind == 'hu':
        return HashUpdate(v['old'], v['new'])
    if kind == 'nft':
        return NftItemData(index=v['index'], collection_address=_A(v['coll']), owner_address=_A(v['owner']), content=v['content'])
    if kind == 'fees':
        return NftItemSaleFees(_A(v['a']), v['f'], _A(v['b']), v['r'])
    if kind == 'sale':
        return NftItemSaleData(v['c'], v['t'], _A(v['m']), _A(v['n']), _A(v['o']), v['p'], lib_obj('fees', v['fees']), v['e'])
    raise KeyError(kind)


def canon_lib(kind, o, root=None):
    """canonical string of a parsed library object (same format as canon); `root` = the dictionary root the cell held (hl)"""
    if o is None:
        return 'None'
    if kind == 'v3':
        return f'{o.seqno};{o.wallet_id};{o.public_key.hex()}'
    if kind == 'v4':
        return f'{o.seqno};{o.wallet_id};{o.public_key.hex()};{M.hx(o.plugins)}'
    if kind == 'hl':
        return f"{o.wallet_id};{o.last_cleaned};{o.public_key.hex()};{'-' if o.old_queries is None else M.hx(root)}"
    if kind == 'wm':
        return f'{o.send_mode}~{M.canon_lib_msg(o.message)}'
    if kind == 'hu':
        return f'{o.old_hash.hex()};{o.new_hash.hex()}'
    if kind == 'nft':
        return f'{o.index};{S.show_addr(o.collection_address)};{S.show_addr(o.owner_address)};{M.hx(o.content)}'
    if kind == 'fees':
        return f'{S.show_addr(o.marketplace_fee_address)};{o.marketplace_fee};{S.show_addr(o.royalty_address)};{o.royalty_amount}'
    if kind == 'sale':
        return (f'{M.b01(o.is_complete)};{o.created_at};{S.show_addr(o.marketplace_address)};{S.show_addr(o.nft_address)};'
                f"{S.show_addr(o.nft_owner_address)};{o.full_price};{canon_lib('fees', o.fees_cell)};{M.b01(o.can_deploy_by_external)}")
    raise KeyError(kind)


def lib_class(kind):
    from pytoniq_core.tlb.custom import wallet, nft
    from pytoniq_core.tlb.utils import HashUpdate
    return dict(v3=wallet.WalletV3Data, v4=wallet.WalletV4Data, hl=wallet.HighloadWalletData, wm=wallet.WalletMessage,
                hu=HashUpdate, nft=nft.NftItemData, fees=nft.NftItemSaleFees, sale=nft.NftItemSaleData)[kind]


# ----------------------------------------------------------------------------- values: replay form

def to_replay(kind, v):
    """self-contained JSON description of a value"""
    d = M.Dag()
    if kind == 'hl':
        t = tok(kind, v, d)
        q = None if v['q'] is None else {str(k): to_replay('wm', x) for k, x in v['q'].items()}
        return {'wrapper': kind, 'value': t, 'dag': d.line(), 'queries': q, 'canon': canon(kind, v)[:300]}
    t = tok(kind, v, d)
    return {'wrapper': kind, 'value': t, 'dag': d.line(), 'canon': canon(kind, v)[:300]}


def _cells_of(line):
    nodes = []
    if line != '-':
        for part in line.split('|'):
            k, b, r = part.split(',')
            nodes.append((int(k), '' if b == '-' else b, tuple(int(x) for x in r.split('.')) if r != '-' else ()))
    return G.lib_build(nodes, 'builder')


def _paddr(s):
    p = s.split(':')
    if p[0] == 's':
        return ['s', int(p[1]), p[2]] + [int(x) for x in p[3:]]
    return [p[0]] + [int(x) for x in p[1:]]


def from_replay(inp):
    kind = inp['wrapper']
    cells = _cells_of(inp['dag'])

    def cell(s):
        return None if s == '-' else cells[int(s)]

    def hexb(s):
        return b'' if s == '-' else bytes.fromhex(s)
    if kind == 'wm':
        mode, mtok = inp['value'].split(' ', 1)
        from ..props import C15
        return kind, dict(mode=int(mode), msg=C15.msg_from_replay({'msg': mtok, 'dag': inp['dag']}))
    f = inp['value'].split(';')[1:]
    if kind == 'v3':
        return kind, dict(seqno=int(f[0]), wid=int(f[1]), pk=hexb(f[2]))
    if kind == 'v4':
        return kind, dict(seqno=int(f[0]), wid=int(f[1]), pk=hexb(f[2]), plugins=cell(f[3]))
    if kind == 'hl':
        q = None if inp.get('queries') is None else {int(k): from_replay(x)[1] for k, x in inp['queries'].items()}
        return kind, dict(wid=int(f[0]), lc=int(f[1]), pk=hexb(f[2]), q=q, root=cell(f[3]))
    if kind == 'hu':
        return kind, dict(old=hexb(f[0]), new=hexb(f[1]))
    if kind == 'nft':
        return kind, dict(index=int(f[0]), coll=_paddr(f[1]), owner=_paddr(f[2]), content=cell(f[3]))
    if kind == 'fees':
        return kind, dict(a=_paddr(f[0]), f=int(f[1]), b=_paddr(f[2]), r=int(f[3]))
    if kind == 'sale':
        return kind, dict(c=f[0] == '1', t=int(f[1]), m=_paddr(f[2]), n=_paddr(f[3]), o=_paddr(f[4]), p=int(f[5]),
                          fees=dict(a=_paddr(f[6]), f=int(f[7]), b=_paddr(f[8]), r=int(f[9])), e=f[10] == '1')
    raise KeyError(kind)


# ----------------------------------------------------------------------------- generators

U32 = [0, 1, 698983191, (1 << 32) - 1]
U64 = [0, 1, (1 << 63), (1 << 64) - 1]
STD = ['s', 0, '11' * 32]
STD_ANY = ['s', -1, 'ff' * 32, 30, (1 << 30) - 1]
ADDRS = [['n'], STD, STD_ANY, ['s', -128, '00' * 32, 1, 1], ['e', 0, 0], ['e', 9, 257], ['e', 511, (1 << 511) - 1]]
COINS = [0, 1, 255, 256, 10 ** 9, (1 << 120) - 1]


def simple_msg(rng, pool):
    return dict(info=('X', ['n'], ['s', 0, '11' * 32], 0), init=None, body=pool[1])


def hl_value(wid, lc, pk, q):
    return dict(wid=wid, lc=lc, pk=pk, q=q, root=queries_root(q))


def boundary_values(rng, pool):
    """(kind, value) pairs: every boundary of every field at least once"""
    pk = rng.randbytes(32)
    out = []
    for s in U32:
        for w in (698983191, 0, (1 << 32) - 1):
            out.append(('v3', dict(seqno=s, wid=w, pk=pk)))
    out.append(('v3', dict(seqno=5, wid=6, pk=b'\x00' * 32)))
    out.append(('v3', dict(seqno=5, wid=6, pk=b'\xff' * 32)))
    for s in U32:
        for pl in (None, pool[0], pool[3]):
            out.append(('v4', dict(seqno=s, wid=U32[(s + 1) % 4], pk=pk, plugins=pl)))
    wm1 = dict(mode=3, msg=simple_msg(rng, pool))
    wm2 = dict(mode=255, msg=dict(info=('I', True, False, False, STD, STD_ANY, 10 ** 9, {}, 0, 0, 0, 0),
                                  init=dict(sd=None, tt=None, code=pool[1], data=pool[2], lib=None), body=pool[4]))
    for lc in U64:
        for q in (None, {}, {1: wm1}, {0: wm1, (1 << 64) - 1: wm2, 77: wm1}):
            out.append(('hl', hl_value(U32[lc % 4], lc, pk, q)))
    for mode in (0, 1, 3, 128, 255):
        out.append(('wm', dict(mode=mode, msg=wm1['msg'])))
    out.append(('wm', wm2))
    for o, n in ((b'\x00' * 32, b'\xff' * 32), (pk, pk), (rng.randbytes(32), rng.randbytes(32))):
        out.append(('hu', dict(old=o, new=n)))
    for idx in U64:
        for ca in ADDRS[:4]:
            for oa in ADDRS:
                if rng.random() < 0.5 or oa == ['n'] or idx == U64[-1]:
                    out.append(('nft', dict(index=idx, coll=ca, owner=oa, content=rng.choice(pool))))
    out.append(('nft', dict(index=1, coll=ADDRS[6], owner=ADDRS[6], content=pool[0])))          # does not fit: must raise
    out.append(('nft', dict(index=1, coll=ADDRS[6], owner=['e', 426, 1], content=pool[0])))     # 64+522+437 = 1023: exactly full
    out.append(('nft', dict(index=1, coll=ADDRS[6], owner=['e', 427, 1], content=pool[0])))     # 1024: must raise
    for a in ADDRS:
        for f in COINS:
            out.append(('fees', dict(a=a, f=f, b=ADDRS[(COINS.index(f) + 1) % len(ADDRS)], r=COINS[(ADDRS.index(a)) % len(COINS)])))
    for c in (False, True):
        for e in (False, True):
            for t in U32:
                out.append(('sale', dict(c=c, t=t, m=rng.choice(ADDRS[:6]), n=rng.choice(ADDRS[:6]), o=rng.choice(ADDRS[:6]),
                                         p=rng.choice(COINS), fees=dict(a=rng.choice(ADDRS), f=rng.choice(COINS), b=rng.choice(ADDRS),
                                                                        r=rng.choice(COINS)), e=e)))
    out.append(('sale', dict(c=True, t=1, m=STD_ANY, n=STD_ANY, o=STD_ANY, p=(1 << 120) - 1, fees=dict(a=['n'], f=0, b=['n'], r=0), e=True)))  # 1064 bits
    return out


def rand_value(rng, pool, kind=None):
    kind = kind or rng.choice(KINDS)
    u32 = lambda: rng.choice(U32 + [rng.getrandbits(32)])
    u64 = lambda: rng.choice(U64 + [rng.getrandbits(64)])
    pk = rng.randbytes(32)
    if kind == 'v3':
        return kind, dict(seqno=u32(), wid=u32(), pk=pk)
    if kind == 'v4':
        return kind, dict(seqno=u32(), wid=u32(), pk=pk, plugins=rng.choice([None] + pool))
    if kind == 'wm':
        si = M.rand_state_init(rng, pool) if rng.random() < 0.5 else None
        msg = dict(info=M.rand_info(rng), init=si, body=M.body_cell(rng, rng.choice([0, 8, 300, 1023]), rng.randrange(5), pool))
        return kind, dict(mode=rng.choice([0, 1, 2, 3, 64, 128, 255, rng.randrange(256)]), msg=msg)
    if kind == 'hl':
        q = None
        if rng.random() < 0.4:
            q = {rng.getrandbits(64): x for x in (rand_value(rng, pool, 'wm')[1] for _ in range(rng.choice([1, 2, 5])))
                 if M.enc_message(x['msg'], True, True) is not None}
        return kind, hl_value(u32(), u64(), pk, q)
    if kind == 'hu':
        return kind, dict(old=rng.randbytes(32), new=rng.randbytes(32))
    if kind == 'nft':
        return kind, dict(index=u64(), coll=M.rand_addr(rng), owner=M.rand_addr(rng), content=rng.choice(pool))
    fees = dict(a=M.rand_addr(rng), f=M.rand_grams(rng), b=M.rand_addr(rng), r=M.rand_grams(rng))
    if kind == 'fees':
        return kind, fees
    return kind, dict(c=rng.random() < .5, t=u32(), m=M.rand_addr(rng), n=M.rand_addr(rng), o=M.rand_addr(rng), p=M.rand_grams(rng),
                      fees=fees, e=rng.random() < .5)
