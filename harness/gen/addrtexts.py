"""Addresses SOLVED FOR from their text: friendly texts that contain a given string, or consist of a sub-alphabet only.

The 48 characters of a user-friendly address are base64 of  tag(1) || workchain(1) || hash(32) || CRC16(2):  character k shows bits
6k..6k+5.  Characters 3..44 are determined by the hash alone, 0..2 also by tag / workchain, 45..47 by the checksum.  Random account ids
reach a GIVEN 9-character substring with probability 40 * 64^-9, so any text-level special case in a parser (a marker substring, a prefix,
a suffix, "looks like the other form") is invisible to them.  Here the text is the input and the address is solved for:

* fixed characters become fixed bits of the 36 bytes; the tag must be one of the four legal values; free bits are drawn from the rng;
* characters 45..47 are reached through the linearity of CRC-16 (init 0):  crc(m xor e_i) = crc(m) xor crc(e_i) - a xor-basis over the
  syndromes of the free bits gives the flips that set the constrained checksum bits;
* sub-alphabet texts (only hex digits, only letters ...) draw characters 0..44 from the sub-alphabet and rejection-sample the last three.

Pure functions of their arguments and the rng; nothing from the library is used."""

STD = 'ABCDEFGHIJKLMNOPQRSTUVWXYZabcdefghijklmnopqrstuvwxyz0123456789+/'
URL = STD[:62] + '-_'
TAGS = (0x11, 0x51, 0x91, 0xD1)


def _crc16(data):
    c = 0
    for b in data:
        c ^= b << 8
        for _ in range(8):
            c = ((c << 1) ^ 0x1021) & 0xFFFF if c & 0x8000 else (c << 1) & 0xFFFF
    return c


_SYN = []


def _syndromes():
    """crc16 of the 34-byte message that has only bit p set (bit 0 = top bit of byte 0)"""
    if not _SYN:
        s = 0x1021                          # the last bit of the message
        out = [0] * 272
        for p in range(271, -1, -1):
            out[p] = s
            s = ((s << 1) ^ 0x1021) & 0xFFFF if s & 0x8000 else (s << 1) & 0xFFFF      # one zero bit later in the message
        m = bytearray(34)
        m[5] = 0x10
        assert _crc16(bytes(m)) == out[43] and _crc16(bytes(33) + b'\x01') == out[271]
        _SYN.extend(out)
    return _SYN


def render(tag, wc, hp, url):
    """the friendly text (own base64, own CRC) - used to check every construction"""
    body = bytes([tag, wc & 0xFF]) + hp
    c = _crc16(body)
    raw = body + bytes([c >> 8, c & 0xFF])
    n = int.from_bytes(raw, 'big')
    alpha = URL if url else STD
    return ''.join(alpha[(n >> (6 * (47 - k))) & 63] for k in range(48))


def solve_friendly(chars, url, rng, tries=8):
    """chars: {character index 0..47: character of the alphabet}.  Returns (tag, wc, hash) whose friendly text in the given alphabet has
    these characters at these places, or None when no legal tag fits / the checksum bits cannot be reached."""
    alpha = URL if url else STD
    fixed = {}
    for k, c in chars.items():
        v = alpha.find(c)
        if v < 0 or not 0 <= k < 48:
            return None
        for j in range(6):
            fixed[6 * k + j] = (v >> (5 - j)) & 1
    tags = [t for t in TAGS if all(fixed.get(i, (t >> (7 - i)) & 1) == (t >> (7 - i)) & 1 for i in range(8))]
    if not tags:
        return None
    syn = _syndromes()
    for _ in range(tries):
        tag = rng.choice(tags)
        bits = [(tag >> (7 - i)) & 1 for i in range(8)] + [fixed[i] if i in fixed else rng.getrandbits(1) for i in range(8, 272)]
        free = [i for i in range(8, 272) if i not in fixed]
        body = int(''.join(map(str, bits)), 2).to_bytes(34, 'big')
        c = _crc16(body)
        mask, want = 0, 0
        for i in range(272, 288):
            if i in fixed:
                mask |= 1 << (287 - i)
                want |= fixed[i] << (287 - i)
        delta = (c ^ want) & mask
        if delta:
            rng.shuffle(free)
            basis = {}                                   # top set bit -> (masked syndrome, set of free bits whose xor it is)
            for i in free:
                v, comb = syn[i] & mask, {i}
                while v:
                    h = v.bit_length()
                    if h not in basis:
                        basis[h] = (v, comb)
                        break
                    v ^= basis[h][0]
                    comb = comb ^ basis[h][1]
                if len(basis) == bin(mask).count('1'):
                    break
            flips, v = set(), delta
            while v:
                h = v.bit_length()
                if h not in basis:
                    break
                v ^= basis[h][0]
                flips ^= basis[h][1]
            if v:
                continue
            for i in flips:
                bits[i] ^= 1
            body = int(''.join(map(str, bits)), 2).to_bytes(34, 'big')
        wc = body[1] - 256 if body[1] >= 128 else body[1]
        text = render(tag, wc, body[2:], url)
        if all(text[k] == ch for k, ch in chars.items()):
            return tag, wc, body[2:]
    return None


def tag_flags(tag):
    """(bounceable, test_only) of a legal tag byte"""
    return (tag & 0x7F) == 0x11, bool(tag & 0x80)


def plant_offsets(n, rng, extra=3):
    """where a string of n characters is planted: the very start, the first and last place inside the hash-only characters 3..44, the very
    end (through the checksum), one place for each offset mod 4 (base64 quantum) and a few arbitrary ones"""
    if n > 48:
        return []
    out = [0, 3, 45 - n, 48 - n]
    lo, hi = 3, 45 - n
    if hi >= lo:
        for r in range(4):
            c = [o for o in range(lo, hi + 1) if o % 4 == r]
            if c:
                out.append(rng.choice(c))
        out += [rng.randint(lo, hi) for _ in range(extra)]
    seen = []
    for o in out:
        if 0 <= o <= 48 - n and o not in seen:
            seen.append(o)
    return seen


def planted(lit, url, rng, twice=True):
    """yields (tag, wc, hash, offsets) for the literal planted once at each offset of plant_offsets and (if there is room) twice"""
    n = len(lit)
    for o in plant_offsets(n, rng):
        r = solve_friendly({o + i: ch for i, ch in enumerate(lit)}, url, rng)
        if r:
            yield r + ((o,),)
    if twice and 2 * n <= 42:
        o1 = rng.randint(3, 45 - 2 * n)
        o2 = rng.randint(o1 + n, 45 - n)
        chars = {o1 + i: ch for i, ch in enumerate(lit)}
        chars.update({o2 + i: ch for i, ch in enumerate(lit)})
        r = solve_friendly(chars, url, rng)
        if r:
            yield r + ((o1, o2),)


SUBALPHABETS = [
    ('hex', '0123456789abcdefABCDEF'),
    ('hex-lower', '0123456789abcdef'),
    ('hex-upper', '0123456789ABCDEF'),
    ('digits', '0123456789'),
    ('letters', 'ABCDEFGHIJKLMNOPQRSTUVWXYZabcdefghijklmnopqrstuvwxyz'),
    ('lower', 'abcdefghijklmnopqrstuvwxyz'),
    ('upper', 'ABCDEFGHIJKLMNOPQRSTUVWXYZ'),
    ('lower+digits', 'abcdefghijklmnopqrstuvwxyz0123456789'),
    ('upper+digits', 'ABCDEFGHIJKLMNOPQRSTUVWXYZ0123456789'),
    ('alnum', STD[:62]),
    ('hex+_', '0123456789abcdefABCDEF_'),
    ('hex+-', '0123456789abcdefABCDEF-'),
    ('hex++', '0123456789abcdefABCDEF+'),
    ('symbols-url', '-_'),
    ('symbols-std', '+/'),
]


def subalphabet_text(sub, url, rng, max_tries=4000):
    """(tag, wc, hash) whose friendly text in the given base64 alphabet uses characters of `sub` only; None if the first two characters
    (tag / workchain nibble) cannot be in `sub` or no checksum fits within max_tries"""
    alpha = URL if url else STD
    sub = [c for c in sub if c in alpha]
    if not sub:
        return None
    c0 = [c for c in sub if (alpha.index(c) << 2) | 1 in TAGS]                 # tag = 6 bits of char 0 + '01'
    c1 = [c for c in sub if alpha.index(c) >> 4 == 1]                          # the low tag bits '01' lead char 1
    if not c0 or not c1:
        return None
    for _ in range(max_tries):
        chars = [rng.choice(c0), rng.choice(c1)] + [rng.choice(sub) for _ in range(43)]
        n = 0
        for c in chars:
            n = (n << 6) | alpha.index(c)
        for last2 in rng.sample(range(4), 4):                                  # the two hash bits shown by character 45
            body = ((n << 2) | last2).to_bytes(34, 'big')
            wc = body[1] - 256 if body[1] >= 128 else body[1]
            text = render(body[0], wc, body[2:], url)
            if all(c in sub for c in text[45:]):
                return body[0], wc, body[2:]
    return None


# ----------------------------------------------------------------------------- round 11: raw texts that ALSO read as friendly ones

HEX_AFFINE = ['0123', '4567', '89', 'ab', 'cdef']        # sub-alphabets of the hex digits whose base64 values form affine sets


def friendly_reading_workchains(rng, extra=10):
    """workchains whose raw text `wc:` + 64 hex digits keeps, with the colon dropped (the lenient base64 decoders drop it), a number of base64
    characters that is a multiple of 4 - i.e. that base64-decodes at all: 4- and 8-character decimal texts.  All of -128..-100 (the 1-byte
    workchains among them), and a sample of the others (-999..-129, 1000..9999, 8-character ones)."""
    out = list(range(-128, -99))
    for _ in range(extra):
        out.append(rng.choice([rng.randrange(-999, -128), rng.randrange(1000, 10000), rng.randrange(-9999999, -999999), rng.randrange(10 ** 7, 10 ** 8)]))
    return out


def raw_also_friendly(rng, wc, count=2):
    """raw address texts `wc:hex64` (the text Address.to_str(False) produces for (wc, account id)) whose colon-stripped characters, READ AS BASE64,
    carry a correct CRC-16 at the friendly position: decoded bytes 34..35 = CRC-16 of decoded bytes 0..33.  The first 48 base64 characters are the
    workchain text and the first 48 - len(wc text) hex digits: each hex position gets a random affine sub-alphabet of the hex digits and the 16
    linear CRC conditions are solved by GF(2) elimination (twoform.b64_crc_strings); the remaining hex digits are random.
    -> [(wc, account id bytes, text)]; [] if str(wc) + 64 hex digits is not a multiple of 4 characters (then no base64 reading exists)."""
    from . import twoform
    w = str(wc)
    if (len(w) + 64) % 4 or len(w) >= 48:
        return []
    nfix = 48 - len(w)
    out = []
    for _ in range(count):
        tpl = [c for c in w] + [':'] + [rng.choice(HEX_AFFINE) for _ in range(nfix)]
        for head in twoform.b64_crc_strings(rng, tpl, 1):
            text = head + ''.join(rng.choice('0123456789abcdef') for _ in range(64 - nfix))
            hp = bytes.fromhex(text.split(':')[1])
            dec = __import__('base64').urlsafe_b64decode(text)
            if int.from_bytes(dec[34:36], 'big') != _crc16(dec[:34]) or len(dec) != 3 * (len(w) + 64) // 4 or text != f'{wc}:{hp.hex()}':
                raise AssertionError(f'addrtexts.raw_also_friendly: construction failed for {text!r}')
            out.append((wc, hp, text))
    return out
