"""Every legal NON-CANONICAL encoding of the same TL-B value (C16, C06).

block.tlb: `var_uint$_ {n:#} len:(#< n) value:(uint (len * 8)) = VarUInteger n` - `len` is a field of its own; every
`len < n` with `value < 2^(8*len)` encodes `value`.  An encoder that derives `len` from the value (the library's builder,
the Lean spec encoder, a value-driven generator) only ever writes the minimal one.  This module rewrites a spec-encoded
cell DAG: every VarUInteger the spec read trace locates (kind `v`, also inside dictionary leaves / fork extras and in
referenced cells) gets a `len` between the minimal one and n-1, the value left-padded with zero bytes; everything
behind it (following fields, trailer) shifts.  The value the rewritten cells denote is decided by the SPEC DECODER
(driver op tlbtrace), never assumed.
"""

# length-prefix width -> n of the `VarUInteger n` used in block.tlb with that prefix width (#< n is stored in bitlen(n-1) bits)
VAR_K = {2: 3, 3: 7, 4: 16, 5: 32}

CELL_BITS = 1023


def var_sites(strace):
    """SNode tree (tracetlb.parse_spec_trace) -> [(ref path from the top cell, bit offset, lenbits, width, schema path)]"""
    out = []

    def go(sn, refpath):
        off = 0
        for kind, w, path, lb in sn.bits:
            if kind == 'v':
                out.append((refpath, off, lb, w, path))
            off += w
        for i, ch in enumerate(sn.refs):
            if ch is not None:
                go(ch, refpath + (i,))
    go(strace, ())
    return out


def rewrite(nodes, strace, choose):
    """`choose(site_index, lenbits, len, max_len)` -> new len (clamped to [len, max_len] and to the room left in the cell).
    -> (new node list with the rewritten cells appended, the new root last; or None if nothing changed,
        [(site index, schema path, old len, new len)])"""
    new = list(nodes)
    changes = []
    counter = [0]

    def go(sn, idx, refpath):
        kind, bits, refs = nodes[idx]
        room = CELL_BITS - len(bits)
        out, pos, off, changed = [], 0, 0, False
        for k_, w, path, lb in sn.bits:
            if k_ == 'v':
                si = counter[0]
                counter[0] += 1
                ln = int(bits[off:off + lb], 2) if lb else 0
                if w == lb + 8 * ln and off + w <= len(bits):
                    mx = min(VAR_K.get(lb, 1 << lb) - 1, ln + room // 8)
                    nl = max(ln, min(mx, choose(si, lb, ln, mx)))
                    if nl != ln:
                        out.append(bits[pos:off])
                        out.append(format(nl, f'0{lb}b') + '0' * (8 * (nl - ln)) + bits[off + lb:off + w])
                        pos = off + w
                        room -= 8 * (nl - ln)
                        changed = True
                        changes.append((si, path, ln, nl))
            off += w
        out.append(bits[pos:])
        newrefs = list(refs)
        for i, ch in enumerate(sn.refs):
            if ch is not None and i < len(refs):
                r = go(ch, refs[i], refpath + (i,))
                if r != refs[i]:
                    newrefs[i] = r
                    changed = True
        if not changed:
            return idx
        new.append((kind, ''.join(out), tuple(newrefs)))
        return len(new) - 1

    root = go(strace, len(nodes) - 1, ())
    if root == len(nodes) - 1:
        return None, changes
    if root != len(new) - 1:          # cannot happen (the root is rebuilt last); keep the invariant "root = last node" explicit
        new.append(new[root])
    return new, changes


def variants(rng, nodes, strace, how_many=3):
    """-> [(description, new nodes, changes)]: all sites + 1 byte, all sites maximal, one random site random len,
    random slack per site"""
    n = len(var_sites(strace))
    if n == 0:
        return []
    plans = ['plus1', 'max', 'one', 'rand', 'one', 'rand']
    rng.shuffle(plans)
    out = []
    seen = set()
    for plan in plans:
        if len(out) >= how_many:
            break
        if plan == 'plus1':
            ch = lambda si, lb, ln, mx: ln + 1
        elif plan == 'max':
            ch = lambda si, lb, ln, mx: mx
        elif plan == 'one':
            target = rng.randrange(n)
            extra = rng.choice([1, 1, 2, 3, 99])
            ch = lambda si, lb, ln, mx, target=target, extra=extra: ln + extra if si == target else ln
        else:
            slack = [rng.choice([0, 0, 1, 2, 99]) for _ in range(n)]
            if not any(slack):
                slack[rng.randrange(n)] = 1
            ch = lambda si, lb, ln, mx, slack=slack: ln + slack[si] if si < len(slack) else ln
        new, changes = rewrite(nodes, strace, ch)
        if new is None:
            continue
        key = tuple(new[len(nodes):])
        if key in seen:
            continue
        seen.add(key)
        out.append((plan, new, changes))
    return out


def enc_var_uint(lenbits, ln, value):
    """bit string of VarUInteger with an explicit len (value < 2^(8*len))"""
    assert 0 <= value < (1 << (8 * ln)) or (ln == 0 and value == 0)
    return format(ln, f'0{lenbits}b') + (format(value, f'0{8 * ln}b') if ln else '')


def enc_var_int(lenbits, ln, value):
    """VarInteger: len bytes of two's complement"""
    assert ln == 0 and value == 0 or -(1 << (8 * ln - 1)) <= value < (1 << (8 * ln - 1))
    return format(ln, f'0{lenbits}b') + (format(value % (1 << (8 * ln)), f'0{8 * ln}b') if ln else '')
