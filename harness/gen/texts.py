"""Texts built from a table of "special" code points, for every operation that takes or returns a `str`.

A str <-> bytes boundary (codec, error handler, normalisation, strip / split / case mapping, NUL termination, BOM handling ...) treats
almost every code point alike; the ones it may treat differently are few and known.  Drawing characters at random meets a given one
with probability ~1e-6, so the table is enumerated: every special code point is placed FIRST, LAST, in the MIDDLE, ALONE, DOUBLED at
the front and right behind a NUL, in fillers of several lengths.  Texts are compared as exact code-point sequences (equivalently:
their UTF-8 bytes, UTF-8 being injective on surrogate-free text).
"""

# code point -> why it is special
SPECIAL = [
    (0xFEFF, 'BOM / zero width no-break space (dropped at the front by utf-8-sig, utf-16)'),
    (0xFFFE, 'the byte-swapped BOM, a non-character'),
    (0x0000, 'NUL (C strings, snake prefix byte)'),
    (0x0001, 'lowest control character'),
    (0x0009, 'tab (strip / split)'),
    (0x000A, 'line feed (strip / splitlines / universal newlines)'),
    (0x000D, 'carriage return (newline translation)'),
    (0x0020, 'space (strip)'),
    (0x007F, 'last 1-byte code point'),
    (0x0080, 'first 2-byte code point (latin-1 / cp1252 differ from here)'),
    (0x0085, 'NEL: whitespace for str.strip, a newline for splitlines'),
    (0x00A0, 'no-break space: whitespace for str.strip'),
    (0x00DF, 'sharp s (case mapping changes the length)'),
    (0x00E9, 'e acute, precomposed (NFD splits it)'),
    (0x00FF, 'last latin-1 code point'),
    (0x0100, 'first code point beyond latin-1'),
    (0x0130, 'I with dot above (lower() gives two code points)'),
    (0x0301, 'combining acute accent (NFC joins it with the letter before)'),
    (0x0338, 'combining long solidus overlay'),
    (0x07FF, 'last 2-byte code point'),
    (0x0800, 'first 3-byte code point'),
    (0x200B, 'zero width space'),
    (0x200D, 'zero width joiner'),
    (0x2028, 'line separator (splitlines, JSON)'),
    (0x202E, 'right-to-left override'),
    (0x3000, 'ideographic space: whitespace for str.strip'),
    (0xD7FF, 'last code point before the surrogates'),
    (0xE000, 'first code point after the surrogates (private use)'),
    (0xFDD0, 'a non-character'),
    (0xFFFD, 'the replacement character (what errors=replace produces)'),
    (0xFFFF, 'last 3-byte code point, a non-character'),
    (0x10000, 'first 4-byte code point (a surrogate pair in UTF-16 / CESU-8)'),
    (0x1F600, 'an emoji (4 bytes)'),
    (0x10FFFF, 'the last code point'),
]

FILLER = 'abcXYZ 09é日𝄞'

POSITIONS = ('alone', 'first', 'last', 'middle', 'doubled-first', 'after-nul', 'first-and-last')


def place(ch, pos, fill):
    """the text with `ch` at position `pos` of the filler text `fill` (a non-empty str)"""
    if pos == 'alone':
        return ch
    if pos == 'first':
        return ch + fill
    if pos == 'last':
        return fill + ch
    if pos == 'middle':
        k = len(fill) // 2
        return fill[:k] + ch + fill[k:]
    if pos == 'doubled-first':
        return ch + ch + fill
    if pos == 'after-nul':
        return '\x00' + ch + fill
    if pos == 'first-and-last':
        return ch + fill + ch
    raise ValueError(pos)


def filler(rng, nbytes):
    """a filler text of exactly `nbytes` UTF-8 bytes (>= 1) that neither starts nor ends with a special code point"""
    out, n = [], 0
    while n < nbytes:
        c = rng.choice(FILLER if nbytes - n >= 4 else 'abcXYZ09')
        if (not out or nbytes - n - len(c.encode()) == 0) and c == ' ':
            c = 'a'
        out.append(c)
        n += len(c.encode())
    return ''.join(out)


def edge_texts(rng, max_bytes=None, fill_bytes=(5,)):
    """[(label, text)]: every special code point x every position x the filler lengths (UTF-8 bytes), texts longer than `max_bytes`
    UTF-8 bytes left out; the alone / doubled forms once per code point"""
    out, seen = [], set()
    for cp, _why in SPECIAL:
        ch = chr(cp)
        for pos in POSITIONS:
            for fb in fill_bytes:
                t = place(ch, pos, filler(rng, fb))
                if t in seen or (max_bytes is not None and len(t.encode()) > max_bytes):
                    continue
                seen.add(t)
                out.append((f'U+{cp:04X}:{pos}', t))
    return out


def straddle_texts(rng, first_room, chunk=127, chunks=2):
    """texts whose special code point lies exactly AT, BEFORE and ACROSS a cell border of a chunked byte string: the first chunk holds
    `first_room` bytes, the following ones `chunk` bytes.  [(label, text)]"""
    out = []
    for cp, _why in SPECIAL:
        ch = chr(cp)
        w = len(ch.encode())
        for border in [first_room] + [first_room + chunk * i for i in range(1, chunks)]:
            for back in sorted({0, 1, w - 1, w} & set(range(0, w + 1))):
                # the character starts `back` bytes before the border: back = 0 first of the next cell, back = w last of this cell,
                # 0 < back < w its bytes are split between the two cells
                pre = border - back
                if pre < 1:
                    continue
                out.append((f'U+{cp:04X}:border{border}-{back}', filler(rng, pre) + ch + filler(rng, 3)))
    return out
