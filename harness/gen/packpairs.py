"""Pairs of composite values that collide under a WRONG PACKING WIDTH (seeded round 11).

A composite value (hi, lo) with lo < 2^lo_bits is often compared / ordered / hashed through one integer hi * 2^s + lo.  With the right
width s = lo_bits that packing is injective; with any other width (bytes taken for bits, an off-by-one, a machine word, no shift at all)
it identifies exactly the pairs

        (hi, lo)  ~  (hi + k, lo - k * 2^s)            k != 0

which no single-field mutation and no pair of independent values ever hits.  `packing_collisions` yields, for one base value, those
partners for every width in WIDTHS and small k of both signs: once with the difference taken in the integers (only when lo - k*2^s
stays inside 0 .. 2^lo_bits - 1: a true collision of the packing) and once reduced mod 2^lo_bits (what a packing into a fixed-width
word identifies).  `field_neighbours` yields the one-field differences (only hi, only one byte of lo, only one bit of lo).

Everything is derived from the rng passed in; nothing here knows about addresses.
"""

WIDTHS = (0, 1, 8, 16, 31, 32, 33, 64, 128, 255, 256)


def small_ks(rng, extra=2, bound=6):
    ks = [1, -1, 2, -2]
    for _ in range(extra):
        k = rng.randrange(3, bound + 1) * rng.choice([1, -1])
        if k not in ks:
            ks.append(k)
    return ks


def packing_collisions(rng, hi, lo, lo_bits, widths=WIDTHS, ks=None):
    """yield (label, hi2, lo2) with (hi2, lo2) != (hi, lo) colliding with (hi, lo) under hi * 2^s + lo for some width s in `widths`."""
    ks = ks if ks is not None else small_ks(rng)
    top = 1 << lo_bits
    seen = set()
    for s in widths:
        for k in ks:
            exact = lo - (k << s)
            for label, lo2 in ((f'w{s}k{k:+d}', exact if 0 <= exact < top else None), (f'w{s}k{k:+d}mod', exact % top)):
                if lo2 is None or (hi + k, lo2) in seen:
                    continue
                seen.add((hi + k, lo2))
                yield label, hi + k, lo2


def collision_base(rng, lo_bits, widths=WIDTHS, kmax=6):
    """a low part from which lo - k * 2^s stays in range for every width < lo_bits and |k| <= kmax in BOTH directions where possible:
    uniformly random with the two top bits forced to 01 (so adding / subtracting kmax * 2^(lo_bits - 3) never wraps)."""
    lo = rng.getrandbits(lo_bits)
    if lo_bits >= 2:
        lo = (lo & ~(3 << (lo_bits - 2))) | (1 << (lo_bits - 2))
    return lo


def field_neighbours(rng, hi, lo, lo_bits):
    """yield (label, hi2, lo2): the values that differ from (hi, lo) in exactly one field / one byte / one bit."""
    for d in (1, -1, 256, -256):
        yield f'hi{d:+d}', hi + d, lo
    nb = (lo_bits + 7) // 8
    for j in sorted({0, nb - 1, rng.randrange(nb), rng.randrange(nb)}):
        byte = (lo >> (8 * j)) & 0xFF
        new = (byte + rng.randrange(1, 256)) & 0xFF
        lo2 = (lo & ~(0xFF << (8 * j))) | (new << (8 * j))
        if lo2 < (1 << lo_bits):
            yield f'byte{j}', hi, lo2
    for _ in range(2):
        yield 'bit', hi, lo ^ (1 << rng.randrange(lo_bits))
