"""TVM stack values for C17: descriptions, library objects, driver tokens, canonical form, an independent
Python transcription of the VmStack TL-B schema (the oracle), and seeded generators.

A *description* is plain JSON-able data (lists), from which everything else is derived:
  ['n'] | ['i', int] | ['c', node] | ['s', node, bits_consumed, refs_consumed] | ['b', node] | ['t', [desc...]]
  ['kstd', ctl, ['s', …]] | ['kenv', ctl, cont] | ['kquit', code] | ['kqexc'] | ['krep', count, body, after]
  ['kuntil', body, after] | ['kagain', body] | ['kwc', c, b, a] | ['kwb', c, b, a] | ['kpush', value, next]
  ctl = ['d', nargs|None, stack|None (list of desc, bottom first), save|None ([[key, desc], …]), cp|None]
`node` indexes the cell context (a DAG in child-before-parent order, see gen/cells.py).
"""
import sys

from . import cells as G

I64_MIN, I64_MAX = -2 ** 63, 2 ** 63 - 1
INT_BOUNDARY = [0, 1, -1, 2 ** 31, -2 ** 31, 2 ** 62, -2 ** 62,
                2 ** 63 - 2, 2 ** 63 - 1, 2 ** 63, 2 ** 63 + 1, -2 ** 63 + 1, -2 ** 63, -2 ** 63 - 1, -2 ** 63 - 2,
                2 ** 64, -2 ** 64, 2 ** 255, -2 ** 255, 2 ** 256 - 1, -2 ** 256, -2 ** 256 + 1, 2 ** 256 - 2]
INT_OUT_OF_RANGE = [2 ** 256, -2 ** 256 - 1, 2 ** 300]
CONT_KINDS = ['kstd', 'kenv', 'kquit', 'kqexc', 'krep', 'kuntil', 'kagain', 'kwc', 'kwb', 'kpush']

BASE_DAG = [(G.ORD, '1011', ()), (G.ORD, '', ()), (G.ORD, '11110000', (0, 1)), (G.ORD, '1' * 100, (2, 2, 0)),
            (G.ORD, '01' * 500 + '101', (0, 1, 2, 3)), (G.ORD, '0', (3,))]


def _lib():
    from pytoniq_core.tlb import vm_stack as V
    from pytoniq_core.boc.cell import Cell
    from pytoniq_core.boc.slice import Slice
    from pytoniq_core.boc.builder import Builder
    return V, Cell, Slice, Builder


class Ctx:
    """cell context: DAG nodes + library cells + spec infos, extendable with library cells (save dictionaries)"""

    def __init__(self, nodes=None):
        self.nodes = list(nodes if nodes is not None else BASE_DAG)
        self.cells = G.lib_build(self.nodes)
        self.infos = G.spec_dag(self.nodes)
        self.by_hash = {c.hash: i for i, c in enumerate(self.cells)}
        self.nbase = len(self.nodes)

    def fresh(self):
        """a copy without the cells added so far beyond the base (keeps request lines short)"""
        c = Ctx.__new__(Ctx)
        n = getattr(self, 'nbase', len(self.nodes))
        c.nbase = n
        c.nodes, c.cells, c.infos = self.nodes[:n], self.cells[:n], self.infos[:n]
        c.by_hash = {x.hash: i for i, x in enumerate(c.cells)}
        return c

    def add_cell(self, cell):
        """flatten a library cell into the context; returns its node index"""
        if cell.hash in self.by_hash:
            return self.by_hash[cell.hash]
        kids = tuple(self.add_cell(r) for r in cell.refs)
        self.nodes.append((cell.type_, cell.bits.to01(), kids))
        self.cells.append(cell)
        self.infos.append(G.spec_node(cell.type_, cell.bits.to01(), [self.infos[k] for k in kids]))
        self.by_hash[cell.hash] = len(self.nodes) - 1
        return len(self.nodes) - 1

    def dag_arg(self):
        return G.dag_line(self.nodes)[8:] if self.nodes else '-'


def flatten(cell):
    """library cell -> (dag nodes, root index), iterative (deep stacks)"""
    nodes, index = [], {}
    stack = [(cell, False)]
    while stack:
        c, done = stack.pop()
        if c.hash in index:
            continue
        if done:
            nodes.append((c.type_, c.bits.to01(), tuple(index[r.hash] for r in c.refs)))
            index[c.hash] = len(nodes) - 1
        else:
            stack.append((c, True))
            for r in c.refs:
                if r.hash not in index:
                    stack.append((r, False))
    return nodes, index[cell.hash]


# ----------------------------------------------------------------------------- library objects

def lib_of(info, memo=None):
    """library cell for a spec cell (ordinary cells only)"""
    from pytoniq_core.boc.cell import Cell
    from pytoniq_core.boc.tvm_bitarray import TvmBitarray
    from bitarray import bitarray
    return Cell(TvmBitarray(1023, bitarray(info.bits)), [lib_of(k) for k in info.refs], -1)


def save_dict_cell(cx, save):
    """the HashmapE 4 root cell of a save list: the library's HashMap (C09's subject) over values encoded by the
    schema transcription below (not by vm_stack.py) -> node index | None; Unencodable when a value has no encoding"""
    if not save:
        return None
    from pytoniq_core.boc.hashmap import HashMap

    def ser(d, dest):
        bits, refs = s_value(cx, d)
        dest.store_bits(bits)
        for r in refs:
            dest.store_ref(lib_of(r))
    hm = HashMap(4, value_serializer=ser)
    for k, d in save:
        hm.set_int_key(k, d)
    try:
        return cx.add_cell(hm.serialize())
    except Unencodable:
        raise
    except Exception as e:          # builder overflow inside the dictionary leaf
        raise Unencodable(f'save list: {e!r}')


def mk_lib(cx, d):
    """fresh library value for a description"""
    V, Cell, Slice, Builder = _lib()
    t = d[0]
    if t == 'n':
        return None
    if t == 'i':
        return d[1]
    if t == 'c':
        return cx.cells[d[1]]
    if t == 's':
        s = cx.cells[d[1]].begin_parse()
        if d[2]:
            s.skip_bits(d[2])
        for _ in range(d[3]):
            s.load_ref()
        return s
    if t == 'b':
        return Builder().store_cell(cx.cells[d[1]])
    if t == 't':
        return V.VmTuple([mk_lib(cx, x) for x in d[1]])
    return mk_cont(cx, d)


def mk_ctl(cx, d):
    V = _lib()[0]
    _, nargs, stack, save, cp = d
    return V.VmControlData('vm_ctl_data', nargs=nargs, stack=None if stack is None else [mk_lib(cx, x) for x in stack],
                           save=None if not save else {k: mk_lib(cx, x) for k, x in save}, cp=cp)


def mk_cont(cx, d):
    V = _lib()[0]
    t = d[0]
    C = V.VmCont
    if t == 'kstd':
        return C('vmc_std', cdata=mk_ctl(cx, d[1]), code=mk_lib(cx, d[2]))
    if t == 'kenv':
        return C('vmc_envelope', cdata=mk_ctl(cx, d[1]), next=mk_cont(cx, d[2]))
    if t == 'kquit':
        return C('vmc_quit', exit_code=d[1])
    if t == 'kqexc':
        return C('vmc_quit_exc')
    if t == 'krep':
        return C('vmc_repeat', count=d[1], body=mk_cont(cx, d[2]), after=mk_cont(cx, d[3]))
    if t == 'kuntil':
        return C('vmc_until', body=mk_cont(cx, d[1]), after=mk_cont(cx, d[2]))
    if t == 'kagain':
        return C('vmc_again', body=mk_cont(cx, d[1]))
    if t == 'kwc':
        return C('vmc_while_cond', cond=mk_cont(cx, d[1]), body=mk_cont(cx, d[2]), after=mk_cont(cx, d[3]))
    if t == 'kwb':
        return C('vmc_while_body', cond=mk_cont(cx, d[1]), body=mk_cont(cx, d[2]), after=mk_cont(cx, d[3]))
    if t == 'kpush':
        return C('vmc_pushint', value=d[1], next=mk_cont(cx, d[2]))
    raise ValueError(d)


# ----------------------------------------------------------------------------- driver tokens (input syntax)

def tokens(cx, d, out):
    t = d[0]
    if t == 'n':
        out.append('n')
    elif t == 'i':
        out.append(f'i:{d[1]}')
    elif t == 'c':
        out.append(f'c:{d[1]}')
    elif t == 's':
        out.append(f's:{d[1]}:{d[2]}:{d[3]}')
    elif t == 'b':
        out.append(f'b:{d[1]}')
    elif t == 't':
        out.append(f't:{len(d[1])}')
        for x in d[1]:
            tokens(cx, x, out)
    elif t == 'd':
        _, nargs, stack, save, cp = d
        sv = save_dict_cell(cx, save)
        f = lambda x: '-' if x is None else str(x)
        out.append(f'd:{f(nargs)}:{f(None if stack is None else len(stack))}:{f(sv)}:{f(cp)}')
        for x in stack or []:
            tokens(cx, x, out)
    elif t in ('kquit', 'kpush', 'krep'):
        out.append(f'{t}:{d[1]}')
        for x in d[2:]:
            tokens(cx, x, out)
    else:
        out.append(t)
        for x in d[1:]:
            tokens(cx, x, out)
    return out


def stack_tokens(cx, stack):
    out = []
    for d in stack:
        tokens(cx, d, out)
    return ','.join(out) or '-'


# ----------------------------------------------------------------------------- canonical form of library values (by content)

class NotCanonical(Exception):
    pass


def _refs(rs):
    return '.'.join(r.hash.hex() for r in rs) or '-'


def canon_val(v, out):
    V, Cell, Slice, Builder = _lib()
    if v is None:
        out.append('n')
    elif isinstance(v, bool):
        raise NotCanonical('bool')
    elif isinstance(v, int):
        out.append(f'i:{v}')
    elif isinstance(v, Cell):
        out.append(f'c:{v.hash.hex()}')
    elif isinstance(v, Slice):
        out.append(f's:{v.bits.to01() or "-"}:{_refs(v.refs[v.ref_offset:])}')
    elif isinstance(v, Builder):
        out.append(f'b:{v.bits.to01() or "-"}:{_refs(v.refs)}')
    elif isinstance(v, V.VmTuple):
        out.append(f't:{len(v.list)}')
        for x in v.list:
            canon_val(x, out)
    elif isinstance(v, V.VmCont):
        canon_cont(v, out)
    else:
        raise NotCanonical(type(v).__name__)
    return out


def canon_ctl(cd, out):
    V = _lib()[0]
    if not isinstance(cd, V.VmControlData):
        raise NotCanonical('cdata')
    try:
        nargs, stack, save, cp = (getattr(cd, a) for a in ('nargs', 'stack', 'save', 'cp'))
    except AttributeError as e:          # an absent Maybe field must be None, not a missing attribute
        raise NotCanonical(str(e))
    f = lambda x: '-' if x is None else str(x)
    if save:
        from pytoniq_core.boc.hashmap import HashMap
        if not isinstance(save, dict):
            raise NotCanonical('save')
        hm = HashMap(4, value_serializer=lambda src, dest: dest.store_cell(V.VmStackValue.serialize(src)), map_=dict(save))
        try:
            sv = hm.serialize().hash.hex()
        except Exception as e:
            raise NotCanonical(f'save list does not serialise: {e!r}')
    else:
        sv = '-'
    if stack is not None and not isinstance(stack, list):
        raise NotCanonical('stack')
    out.append(f'd:{f(nargs)}:{f(None if stack is None else len(stack))}:{sv}:{f(cp)}')
    for x in stack or []:
        canon_val(x, out)


FIELDS = {'vmc_std': ('kstd', ()), 'vmc_envelope': ('kenv', ()), 'vmc_quit': ('kquit', ('exit_code',)), 'vmc_quit_exc': ('kqexc', ()),
          'vmc_repeat': ('krep', ('count',)), 'vmc_until': ('kuntil', ()), 'vmc_again': ('kagain', ()), 'vmc_while_cond': ('kwc', ()),
          'vmc_while_body': ('kwb', ()), 'vmc_pushint': ('kpush', ('value',))}
SUBS = {'vmc_envelope': ('next',), 'vmc_repeat': ('body', 'after'), 'vmc_until': ('body', 'after'), 'vmc_again': ('body',),
        'vmc_while_cond': ('cond', 'body', 'after'), 'vmc_while_body': ('cond', 'body', 'after'), 'vmc_pushint': ('next',)}


def canon_cont(k, out):
    V = _lib()[0]
    if not isinstance(k, V.VmCont) or k.type_ not in FIELDS:
        raise NotCanonical('cont')
    name, scal = FIELDS[k.type_]
    out.append(':'.join([name] + [str(getattr(k, a)) for a in scal]))
    if k.type_ in ('vmc_std', 'vmc_envelope'):
        canon_ctl(k.cdata, out)
    if k.type_ == 'vmc_std':
        Slice = _lib()[2]
        if not isinstance(k.code, Slice):
            raise NotCanonical('code')
        canon_val(k.code, out)
    for a in SUBS.get(k.type_, ()):
        canon_cont(getattr(k, a), out)


def canon_stack(vs):
    if not isinstance(vs, list):
        raise NotCanonical('stack')
    out = []
    for v in vs:
        canon_val(v, out)
    return ','.join(out) or '-'


# ----------------------------------------------------------------------------- the schema, transcribed independently (oracle)
# An encoding is (bits: str, refs: [SpecInfo]); `^X` = spec cell of X.  Unencodable (does not fit a cell,
# value outside its field) -> Unencodable.

class Unencodable(Exception):
    pass


def s_cell(bits, refs):
    if len(bits) > 1023 or len(refs) > 4:
        raise Unencodable('cell capacity')
    info = G.spec_node(G.ORD, bits, refs)
    if not info.valid:
        raise Unencodable(info.why)
    return info


def s_uint(v, n):
    if not 0 <= v < (1 << n):
        raise Unencodable(f'uint{n} {v}')
    return format(v, f'0{n}b')


def s_int(v, n):
    if not -(1 << (n - 1)) <= v < (1 << (n - 1)):
        raise Unencodable(f'int{n} {v}')
    return format(v % (1 << n), f'0{n}b')


def s_cat(*parts):
    return ''.join(p[0] for p in parts), [r for p in parts for r in p[1]]


def s_cellslice(cx, d):
    """_ cell:^Cell st_bits:(## 10) end_bits:(## 10) st_ref:(#<= 4) end_ref:(#<= 4); the cell holds the slice's remaining data"""
    _, node, sb, sr = d
    info = cx.infos[node]
    bits, refs = info.bits[sb:], info.refs[sr:]
    return s_uint(0, 10) + s_uint(len(bits), 10) + s_uint(0, 3) + s_uint(len(refs), 3), [s_cell(bits, refs)]


def s_value(cx, d):
    t = d[0]
    if t == 'n':
        return '00000000', []                                             # vm_stk_null#00
    if t == 'i':
        if I64_MIN <= d[1] <= I64_MAX:
            return '00000001' + s_int(d[1], 64), []                       # vm_stk_tinyint#01 value:int64
        return '000000100000000' + s_int(d[1], 257), []                   # vm_stk_int#0201_ value:int257
    if t == 'c':
        return '00000011', [cx.infos[d[1]]]                               # vm_stk_cell#03 cell:^Cell
    if t == 's':
        return s_cat(('00000100', []), s_cellslice(cx, d))                # vm_stk_slice#04 _:VmCellSlice
    if t == 'b':
        return '00000101', [cx.infos[d[1]]]                               # vm_stk_builder#05 cell:^Cell
    if t == 't':
        return s_cat(('00000111' + s_uint(len(d[1]), 16), []), s_tuple(cx, d[1]))   # vm_stk_tuple#07 len:(## 16) data:(VmTuple len)
    return s_cat(('00000110', []), s_cont(cx, d))                         # vm_stk_cont#06 cont:VmCont


def s_value_cell(cx, d):
    return s_cell(*s_value(cx, d))


def s_tuple(cx, vs):
    if not vs:
        return '', []                                                     # vm_tuple_nil$_ = VmTuple 0
    return s_cat(s_tupref(cx, vs[:-1]), ('', [s_value_cell(cx, vs[-1])]))  # vm_tuple_tcons head:(VmTupleRef n) tail:^VmStackValue


def s_tupref(cx, vs):
    if not vs:
        return '', []                                                     # vm_tupref_nil
    if len(vs) == 1:
        return '', [s_value_cell(cx, vs[0])]                              # vm_tupref_single entry:^VmStackValue
    return '', [s_cell(*s_tuple(cx, vs))]                                 # vm_tupref_any ref:^(VmTuple (n + 2))


def s_stack(cx, vs):
    """vm_stack#_ depth:(## 24) stack:(VmStackList depth); vm_stk_cons rest:^(VmStackList n) tos:VmStackValue"""
    rest = s_cell('', [])
    enc = ('', [])
    for i, d in enumerate(vs):
        if i:
            rest = s_cell(*enc)
        enc = s_cat(('', [rest]), s_value(cx, d))
    return s_cat((s_uint(len(vs), 24), []), enc)


def s_maybe(x, f):
    return ('0', []) if x is None else s_cat(('1', []), f(x))


def s_ctl(cx, d):
    """vm_ctl_data$_ nargs:(Maybe uint13) stack:(Maybe VmStack) save:VmSaveList cp:(Maybe int16)"""
    _, nargs, stack, save, cp = d
    sv = save_dict_cell(cx, save)
    return s_cat(s_maybe(nargs, lambda x: (s_uint(x, 13), [])), s_maybe(stack, lambda x: s_stack(cx, x)),
                 s_maybe(sv, lambda x: ('', [cx.infos[x]])), s_maybe(cp, lambda x: (s_int(x, 16), [])))


def s_cont(cx, d):
    t = d[0]
    ref = lambda x: ('', [s_cell(*s_cont(cx, x))])
    if t == 'kstd':
        return s_cat(('00', []), s_ctl(cx, d[1]), s_cellslice(cx, d[2]))
    if t == 'kenv':
        return s_cat(('01', []), s_ctl(cx, d[1]), ref(d[2]))
    if t == 'kquit':
        return '1000' + s_int(d[1], 32), []
    if t == 'kqexc':
        return '1001', []
    if t == 'krep':
        return s_cat(('10100' + s_uint(d[1], 63), []), ref(d[2]), ref(d[3]))
    if t == 'kuntil':
        return s_cat(('110000', []), ref(d[1]), ref(d[2]))
    if t == 'kagain':
        return s_cat(('110001', []), ref(d[1]))
    if t == 'kwc':
        return s_cat(('110010', []), ref(d[1]), ref(d[2]), ref(d[3]))
    if t == 'kwb':
        return s_cat(('110011', []), ref(d[1]), ref(d[2]), ref(d[3]))
    if t == 'kpush':
        return s_cat(('1111' + s_int(d[1], 32), []), ref(d[2]))
    raise ValueError(d)


def spec_stack_cell(cx, vs):
    """SpecInfo of the VmStack cell, or None when the stack has no encoding"""
    try:
        return s_cell(*s_stack(cx, vs))
    except Unencodable:
        return None


def canon_desc(cx, d, out):
    """canonical form (output grammar) computed from the description alone"""
    t = d[0]
    hx = lambda i: cx.infos[i].hash().hex()
    if t in ('n',):
        out.append('n')
    elif t == 'i':
        out.append(f'i:{d[1]}')
    elif t == 'c':
        out.append(f'c:{hx(d[1])}')
    elif t in ('s', 'b'):
        info = cx.infos[d[1]]
        sb, sr = (d[2], d[3]) if t == 's' else (0, 0)
        out.append(f'{t}:{info.bits[sb:] or "-"}:{".".join(r.hash().hex() for r in info.refs[sr:]) or "-"}')
    elif t == 't':
        out.append(f't:{len(d[1])}')
        for x in d[1]:
            canon_desc(cx, x, out)
    elif t == 'd':
        _, nargs, stack, save, cp = d
        sv = save_dict_cell(cx, save)
        f = lambda x: '-' if x is None else str(x)
        out.append(f'd:{f(nargs)}:{f(None if stack is None else len(stack))}:{"-" if sv is None else hx(sv)}:{f(cp)}')
        for x in stack or []:
            canon_desc(cx, x, out)
    elif t in ('kquit', 'kpush', 'krep'):
        out.append(f'{t}:{d[1]}')
        for x in d[2:]:
            canon_desc(cx, x, out)
    else:
        out.append(t)
        for x in d[1:]:
            canon_desc(cx, x, out)
    return out


def canon_desc_stack(cx, vs):
    out = []
    for d in vs:
        canon_desc(cx, d, out)
    return ','.join(out) or '-'


# ----------------------------------------------------------------------------- generators

def gen_int(rng):
    r = rng.random()
    if r < 0.45:
        return rng.choice(INT_BOUNDARY)
    if r < 0.6:
        return rng.randrange(-100, 100)
    if r < 0.8:
        return rng.getrandbits(rng.randrange(1, 257)) * rng.choice((1, -1))
    return rng.randrange(-2 ** 64, 2 ** 64)


def gen_slice(rng, cx, nbase):
    node = rng.randrange(nbase)
    info = cx.infos[node]
    return ['s', node, rng.choice([0, 0, len(info.bits), rng.randrange(len(info.bits) + 1)]),
            rng.choice([0, 0, len(info.refs), rng.randrange(len(info.refs) + 1)])]


def gen_ctl(rng, cx, nbase, depth):
    nargs = rng.choice([None, None, 0, 1, 5, 8191])
    cp = rng.choice([None, None, 0, -1, 1, -32768, 32767])
    stack = None
    if rng.random() < 0.5:
        # the top of the inlined stack shares the cell with the continuation: keep it ref-free most of the time
        n = rng.choice([0, 0, 1, 2, 3])
        stack = [gen_val(rng, cx, nbase, depth - 1) for _ in range(n)]
        if stack and rng.random() < 0.8:
            stack[-1] = ['i', gen_int(rng)] if rng.random() < 0.7 else ['n']
    save = None
    if rng.random() < 0.4:
        keys = rng.sample(range(16), rng.choice([1, 1, 2, 3, 16]))
        save = [[k, gen_val(rng, cx, nbase, min(depth - 1, 1), small=True)] for k in sorted(keys)]
    return ['d', nargs, stack, save, cp]


def gen_cont(rng, cx, nbase, depth, kind=None):
    if kind is None:
        kind = rng.choice(CONT_KINDS if depth > 0 else ['kquit', 'kqexc'])
    if depth <= 0 and kind not in ('kquit', 'kqexc'):
        sub = lambda: rng.choice([['kquit', rng.choice([0, 5, -1, 2 ** 31 - 1, -2 ** 31])], ['kqexc']])
    else:
        sub = lambda: gen_cont(rng, cx, nbase, depth - 1)
    i32 = lambda: rng.choice([0, 1, -1, 5, 2 ** 31 - 1, -2 ** 31, rng.randrange(-2 ** 31, 2 ** 31)])
    if kind == 'kstd':
        return ['kstd', gen_ctl(rng, cx, nbase, depth), gen_slice(rng, cx, nbase)]
    if kind == 'kenv':
        return ['kenv', gen_ctl(rng, cx, nbase, depth), sub()]
    if kind == 'kquit':
        return ['kquit', i32()]
    if kind == 'kqexc':
        return ['kqexc']
    if kind == 'krep':
        return ['krep', rng.choice([0, 1, 2 ** 63 - 1, rng.getrandbits(63)]), sub(), sub()]
    if kind == 'kuntil':
        return ['kuntil', sub(), sub()]
    if kind == 'kagain':
        return ['kagain', sub()]
    if kind in ('kwc', 'kwb'):
        return [kind, sub(), sub(), sub()]
    if kind == 'kpush':
        return ['kpush', i32(), sub()]
    raise ValueError(kind)


def gen_val(rng, cx, nbase, depth, small=False):
    r = rng.random()
    if r < 0.1:
        return ['n']
    if r < 0.4 or (small and r < 0.6):
        return ['i', gen_int(rng)]
    if r < 0.48:
        return ['c', rng.randrange(nbase)]
    if r < 0.56:
        return gen_slice(rng, cx, nbase)
    if r < 0.62:
        return ['b', rng.randrange(nbase)]
    if r < 0.8 and depth > 0:
        return gen_cont(rng, cx, nbase, min(depth, 2))
    if depth <= 0:
        return ['t', []] if rng.random() < 0.3 else ['i', gen_int(rng)]
    n = rng.choice([0, 1, 2, 3, 3, 4, 5]) if not small else rng.choice([0, 1, 2, 3])
    return ['t', [gen_val(rng, cx, nbase, depth - 1, small) for _ in range(n)]]


def nested_tuple(depth, width, leaf):
    d = leaf
    for _ in range(depth):
        d = ['t', [d] + [['i', k] for k in range(width - 1)]] if width else ['t', []]
    return d


def kinds_in(d, acc=None):
    acc = set() if acc is None else acc
    if isinstance(d, list) and d and isinstance(d[0], str):
        if d[0] == 'i':
            v = d[1]
            acc.add('int64' if I64_MIN <= v <= I64_MAX else 'int257')
        elif d[0] == 't':
            acc.add('tuple%d' % min(len(d[1]), 3))
            for x in d[1]:
                kinds_in(x, acc)
        elif d[0] == 'd':
            acc.add('ctl:' + ''.join('01'[bool(x)] for x in (d[1] is not None, d[2] is not None, d[3], d[4] is not None)))
            for x in d[2] or []:
                kinds_in(x, acc)
            for _, x in d[3] or []:
                kinds_in(x, acc)
        else:
            acc.add(d[0])
            for x in d[1:]:
                if isinstance(x, list):
                    kinds_in(x, acc)
    return acc


sys.setrecursionlimit(max(sys.getrecursionlimit(), 40000))


# ----------------------------------------------------------------------------- aliasing: the same OBJECT several times
# Descriptions are trees; `mk_lib` builds one new library object per node, so no two positions of a stack ever hold the same object.
# A real caller does (DUP, a shared `nil`, one Slice / Builder / continuation pushed twice).  Inside `sharing(mode, salt)` structurally
# equal sub-descriptions that the mode selects become ONE library object (hash-consing by the description's repr): a stack description
# with repeated parts then yields every aliasing pattern - siblings, cousins at different depths, two stack entries.  The schema
# encoding, the canonical form and the driver tokens are functions of the description alone, so the oracle is unchanged: serialising
# the aliased objects must give exactly what the structurally equal copies give.

SHARE_MODES = ('all', 'tuples', 'leaves', 'some')
_SHARING = []
_mk_lib_fresh = mk_lib
_mk_cont_fresh = mk_cont


def _share_pick(mode, salt, d):
    import hashlib
    if d[0] in ('n', 'i', 'c', 'd'):
        return False
    if mode == 'all':
        return True
    if mode == 'tuples':
        return d[0] == 't'
    if mode == 'leaves':
        return d[0] != 't'
    return hashlib.blake2b(f'{salt}:{d!r}'.encode(), digest_size=1).digest()[0] & 1 == 1


class sharing:
    def __init__(self, mode, salt=0):
        self.mode, self.salt, self.memo = mode, salt, {}

    def __enter__(self):
        _SHARING.append(self)
        return self

    def __exit__(self, *a):
        _SHARING.pop()

    def aliased(self):
        """how many descriptions were handed out more than once"""
        return sum(1 for _, n in self.memo.values() if n > 1)


def _shared(fresh, cx, d):
    if not _SHARING or not (isinstance(d, list) and d and isinstance(d[0], str)):
        return fresh(cx, d)
    sh = _SHARING[-1]
    if not _share_pick(sh.mode, sh.salt, d):
        return fresh(cx, d)
    key = repr(d)
    if key in sh.memo:
        v, n = sh.memo[key]
        sh.memo[key] = (v, n + 1)
        return v
    v = fresh(cx, d)
    sh.memo[key] = (v, 1)
    return v


def mk_lib(cx, d):           # noqa: F811 - re-bound on purpose: mk_ctl / mk_cont / the tuple branch call it by its global name
    """library value for a description; inside `with sharing(..)`: ONE object per selected distinct sub-description"""
    return _shared(_mk_lib_fresh, cx, d)


def mk_cont(cx, d):          # noqa: F811
    return _shared(_mk_cont_fresh, cx, d)


def gen_aliased_stack(rng, cx, nbase):
    """a stack description built from a small pool of values used again and again: the same tuple twice in one tuple, at different
    nesting levels, as several stack entries; the same slice / builder / continuation several times; the shared empty tuple"""
    pool = [['t', []], ['t', [['i', gen_int(rng)] for _ in range(rng.choice([1, 2, 3, 4]))]]]
    for _ in range(rng.randrange(0, 4)):
        r = rng.random()
        pool.append(gen_slice(rng, cx, nbase) if r < 0.25 else ['b', rng.randrange(nbase)] if r < 0.45
                    else gen_cont(rng, cx, nbase, 1, rng.choice(['kquit', 'kqexc', 'kpush', 'kagain', 'kuntil'])) if r < 0.6
                    else ['t', [rng.choice(pool) for _ in range(rng.choice([1, 2, 3]))]])

    def build(depth):
        n = rng.choice([1, 2, 2, 3, 4, 5])
        items = []
        for _ in range(n):
            r = rng.random()
            if r < 0.5:
                items.append(rng.choice(pool))
            elif r < 0.8 and depth > 0:
                items.append(build(depth - 1))
            else:
                items.append(['i', gen_int(rng)] if rng.random() < 0.7 else ['n'])
        t = ['t', items]
        if rng.random() < 0.3:
            pool.append(t)
        return t
    stack = []
    for _ in range(rng.choice([1, 1, 2, 3, 5])):
        r = rng.random()
        stack.append(build(rng.choice([1, 2, 3])) if r < 0.6 else rng.choice(pool) if r < 0.9 else gen_val(rng, cx, nbase, 2))
    return stack


def aliased_directed():
    """the aliasing patterns spelled out (stack descriptions; every repeated part becomes one object under sharing('all'))"""
    t = ['t', [['i', 1], ['i', 2]]]
    u = ['t', [['i', 2 ** 63], ['n'], ['i', -5]]]
    nil = ['t', []]
    one = ['t', [['i', 7]]]
    s, b, q = ['s', 3, 5, 1], ['b', 2], ['kpush', 3, ['kquit', 0]]
    lisp = nil
    for k in range(4):
        lisp = ['t', [['i', k], lisp]]
    return [
        [['t', [t, t]]],                                        # DUP then pair: siblings
        [['t', [t, t, t]]], [['t', [t, t, t, t]]],              # 3+ : the chained prefix tuples
        [['t', [nil, nil]]], [['t', [one, one]]],               # shared nil / singleton
        [['t', [t, ['t', [t]]]]],                               # cousins: depth 1 and depth 2
        [['t', [['t', [t]], t]]],
        [['t', [['t', [['t', [t, ['i', 0]]], ['i', 1]]], t]]],   # depth 3 and depth 1
        [['t', [['t', [t, u]], ['t', [u, t]]]]],                # two shared tuples crossing
        [t, t], [t, ['i', 5], t], [['t', [t]], t],              # two stack entries / entry and nested
        [['t', [t, t]], ['t', [t, t]]],                         # the pair itself shared
        [lisp], [['t', [lisp, ['t', [['i', 9], nil]]]]],         # lisp-style lists ending in the one nil
        [['t', [['t', [nil, nil]], nil]]],
        [s, s], [['t', [s, s]]], [['t', [s, ['t', [s]]]]],      # the same Slice object
        [b, b], [['t', [b, b]]], [b, ['t', [b]]],               # the same Builder object
        [q, q], [['t', [q, q]]], [['krep', 2, q, q]],           # the same continuation object
        [['kenv', ['d', None, [t, t], None, None], q], t],      # inside control data and on the stack
        [['t', [['c', 2], ['c', 2]]], ['c', 2]],
    ]
