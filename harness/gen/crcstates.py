"""Messages that drive a CRC register through special states at every alignment.

A table / word-at-a-time / sliced implementation of a CRC keeps the running register in a variable and often guards a fast path with
a test on it (`crc or INIT`, `if acc:`, `if not crc: skip`).  Random data puts the register into a GIVEN state at a GIVEN position with
probability 2^-width, so such guards are never exercised.  Here the position and the state are chosen and the message is SOLVED
for: after any prefix with register R, the `width/8` bytes  R xor Zinv^width(T)  (register byte order) take the register to T, because
feeding `width` message bits M into register R equals `width` zero-bit steps on (R xor M), and a zero-bit step is invertible (the
polynomial has its x^0 term).  T = 0 gives  message || its own un-inverted CRC ; zero bytes after it keep a zero register at zero
(`record || crc(record) || zero padding || tail`).

Everything is computed with the bit-at-a-time definition (the SPEC of the CRC), never with the library."""


class BitCrc:
    def __init__(self, name, width, poly, init, reflected, xorout):
        self.name, self.width, self.poly, self.init, self.reflected, self.xorout = name, width, poly, init, reflected, xorout
        self.mask = (1 << width) - 1
        self.top = 1 << (width - 1)
        self.nbytes = width // 8

    # one message byte, bit at a time
    def step(self, reg, byte):
        if self.reflected:
            reg ^= byte
            for _ in range(8):
                reg = (reg >> 1) ^ self.poly if reg & 1 else reg >> 1
        else:
            reg ^= byte << (self.width - 8)
            for _ in range(8):
                reg = ((reg << 1) ^ self.poly) & self.mask if reg & self.top else (reg << 1) & self.mask
        return reg

    def run(self, reg, data):
        for b in data:
            reg = self.step(reg, b)
        return reg

    def unzero(self, reg, nbits):
        """the register `nbits` zero message bits EARLIER"""
        for _ in range(nbits):
            if self.reflected:
                reg = (((reg ^ self.poly) << 1) | 1) & self.mask if reg & self.top else (reg << 1) & self.mask
            else:
                reg = ((reg ^ self.poly) >> 1) | self.top if reg & 1 else reg >> 1
        return reg

    def drive(self, reg, target):
        """the width/8 bytes that take the register from `reg` to `target`"""
        x = reg ^ self.unzero(target, self.width)
        out = x.to_bytes(self.nbytes, 'little' if self.reflected else 'big')
        if self.run(reg, out) != target:                      # the construction is checked by the forward definition
            raise AssertionError('crcstates.drive: forward definition disagrees')
        return out

    def value(self, reg):
        return reg ^ self.xorout

    def crc(self, data):
        return self.value(self.run(self.init, data))


CRC16_XMODEM = BitCrc('crc16', 16, 0x1021, 0, False, 0)
CRC32C = BitCrc('crc32c', 32, 0x82F63B78, 0xFFFFFFFF, True, 0xFFFFFFFF)       # reflected polynomial of 0x1EDC6F41


def special_states(alg, rng):
    """register values a guard may confuse with 'unset' / 'nothing to do': 0, all ones, 1, top bit, the initial value, the value whose
    OUTPUT is 0, single bytes - plus one arbitrary value as control"""
    st = [0, alg.mask, 1, alg.top, alg.init, alg.xorout, 0xFF, alg.mask ^ 0xFF, rng.randrange(1, alg.mask)]
    out = []
    for s in st:
        if s not in out:
            out.append(s)
    return out


ZEROS = (0, 1, 2, 3, 4, 5, 6, 7, 8, 16)
RESTS = (0, 1, 2, 3, 4, 5, 7, 8, 64)
TAILS = [(z, r) for z in ZEROS for r in RESTS]


def positions(extra=(), small=200, around=(256, 512, 1024, 4096, 65536), spread=4):
    """positions (in bytes from the start) at which the special state is reached: every one up to `small`, and the neighbourhood of
    typical block sizes and of every threshold the source mentions"""
    ps = set(range(0, small + 1))
    for c in list(around) + list(extra):
        ps |= {c + d for d in range(-spread, spread + 1)}
    return sorted(p for p in ps if p >= 0)


def register_state_messages(alg, rng, extra_positions=(), per_position=6, max_len=70000):
    """yields (message, final register, label).  message = prefix || bytes driving the register to the state || z zero bytes || r
    arbitrary bytes.  The prefixes are prefixes of ONE random stream (so its registers are computed once, bit by bit); for each
    position every special state is used, with `per_position` tails taken round-robin from TAILS so that every (position mod 8, tail)
    pair occurs several times below and above the usual fast-path thresholds."""
    ps = [p for p in positions(extra_positions) if alg.nbytes <= p <= max_len]
    stream = rng.randbytes(max(ps) if ps else 0)
    want = {p - alg.nbytes for p in ps}
    regs = {}
    reg = alg.init
    if 0 in want:
        regs[0] = reg
    for i, b in enumerate(stream):
        reg = alg.step(reg, b)
        if i + 1 in want:
            regs[i + 1] = reg
    states = special_states(alg, rng)
    ks = [rng.randrange(len(TAILS)) for _ in states]      # one round-robin counter per state
    for p in ps:
        n = p - alg.nbytes
        big = p > 5000
        for si, t in enumerate(states if not big else states[:3]):
            head = stream[:n] + alg.drive(regs[n], t)
            for _ in range(per_position if not big else 2):
                z, r = TAILS[ks[si] % len(TAILS)]
                ks[si] += 7                              # 7 is coprime to len(TAILS) = 90; 6 draws per position: all 90 tails within 15
                                                         # consecutive positions, every (position mod 8, tail) pair within 120
                rest = rng.randbytes(r)
                tail = bytes(z) + rest
                yield head + tail, alg.run(t, tail), f'{alg.name}:state={t:#x}@{p},zeros={z},rest={r}'
