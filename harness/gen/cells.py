"""Seeded generators of cell DAGs + an independent Python transcription of the TON cell spec (the oracle).

A DAG is a list of nodes in child-before-parent order; node = (kind, bits, refs) with kind in
{-1,1,2,3,4}, bits a '0'/'1' string and refs a tuple of indices of earlier nodes.
"""
import hashlib

ORD, PRUNED, LIB, MPROOF, MUPDATE = -1, 1, 2, 3, 4

BOUNDARY_LENS = [0, 1, 2, 7, 8, 9, 15, 16, 17, 31, 32, 33, 63, 64, 65, 255, 256, 257, 511, 512,
                 1015, 1016, 1017, 1018, 1019, 1020, 1021, 1022, 1023]


def rand_bits(rng, n):
    if n == 0:
        return ''
    mode = rng.randrange(8)
    if mode == 0:
        return '0' * n
    if mode == 1:
        return '1' * n
    if mode == 2:
        return '0' * (n - 1) + '1'
    if mode == 3:
        return '1' + '0' * (n - 1)
    return format(rng.getrandbits(n), f'0{n}b')


def rand_len(rng):
    r = rng.random()
    if r < 0.45:
        return rng.choice(BOUNDARY_LENS)
    if r < 0.75:
        return rng.randrange(0, 64)
    return rng.randrange(0, 1024)


def bytes_to_bits(b: bytes) -> str:
    return ''.join(format(x, '08b') for x in b)


def bits_to_bytes(bits: str) -> bytes:
    if len(bits) % 8:
        bits = bits + '0' * (8 - len(bits) % 8)
    return bytes(int(bits[i:i + 8], 2) for i in range(0, len(bits), 8))


def data_bytes(bits: str) -> bytes:
    """completion tag padding (tvm.pdf 3.1.4)"""
    if len(bits) % 8:
        bits = bits + '1'
    return bits_to_bytes(bits)


# ----------------------------------------------------------------------------- spec (oracle)

def popcount(m):
    return bin(m).count('1')


class SpecInfo:
    """Spec values of one cell: mask, hash/depth at every level 0..4, validity."""
    __slots__ = ('kind', 'bits', 'refs', 'mask', 'H', 'D', 'valid', 'why')

    def hash(self):
        return self.H[4]


def spec_node(kind, bits, kids):
    """kids: list of SpecInfo (all valid). Returns SpecInfo; .valid False if the cell is not spec-valid."""
    s = SpecInfo()
    s.kind, s.bits, s.refs = kind, bits, kids
    s.valid, s.why = True, ''
    s.H, s.D = [None] * 5, [None] * 5
    b = len(bits)

    def bad(why):
        s.valid, s.why = False, why
        return s

    if b > 1023:
        return bad('bits>1023')
    if len(kids) > 4:
        return bad('refs>4')
    data = data_bytes(bits)
    d2 = b // 8 + (b + 7) // 8
    mu = 1 if kind in (MPROOF, MUPDATE) else 0
    if kind == ORD:
        mask = 0
        for k in kids:
            mask |= k.mask
    elif kind == PRUNED:
        if kids:
            return bad('pruned with refs')
        if b < 16 or bits[:8] != '00000001':
            return bad('pruned tag')
        mask = int(bits[8:16], 2)
        if not 1 <= mask <= 7:
            return bad('pruned mask')
        if b != 16 + 272 * popcount(mask):
            return bad('pruned size')
    elif kind == LIB:
        if kids or b != 264 or bits[:8] != '00000010':
            return bad('library shape')
        mask = 0
    elif kind == MPROOF:
        if len(kids) != 1 or b != 280 or bits[:8] != '00000011':
            return bad('merkle proof shape')
        mask = kids[0].mask >> 1
        if data[1:33] != kids[0].H[0] or int.from_bytes(data[33:35], 'big') != kids[0].D[0]:
            return bad('merkle proof stored hash/depth')
    elif kind == MUPDATE:
        if len(kids) != 2 or b != 552 or bits[:8] != '00000100':
            return bad('merkle update shape')
        mask = (kids[0].mask | kids[1].mask) >> 1
        if (data[1:33] != kids[0].H[0] or data[33:65] != kids[1].H[0]
                or int.from_bytes(data[65:67], 'big') != kids[0].D[0] or int.from_bytes(data[67:69], 'big') != kids[1].D[0]):
            return bad('merkle update stored hash/depth')
    else:
        return bad('unknown kind')
    if mask > 7:
        return bad('mask>7')
    s.mask = mask
    exotic = 8 if kind != ORD else 0

    def d1(m):
        return len(kids) + exotic + 32 * m

    if kind == PRUNED:
        own = hashlib.sha256(bytes([d1(mask), d2]) + data).digest()
        n = popcount(mask)
        for l in range(5):
            idx = popcount(mask % (1 << l))
            if idx == n:
                s.H[l] = own
                s.D[l] = 0
            else:
                s.H[l] = data[2 + 32 * idx: 2 + 32 * (idx + 1)]
                s.D[l] = int.from_bytes(data[2 + 32 * n + 2 * idx: 2 + 32 * n + 2 * idx + 2], 'big')
        return s
    for l in range(5):
        if l > 0 and not (mask >> (l - 1)) & 1:
            s.H[l], s.D[l] = s.H[l - 1], s.D[l - 1]
            continue
        cl = min(l + mu, 4)
        depth = 0
        if kids:
            depth = 1 + max(k.D[cl] for k in kids)
            if depth > 1023:
                return bad('depth>1023')
        body = data if l == 0 else s.H[l - 1]
        rep = bytes([d1(mask % (1 << l)), d2]) + body
        for k in kids:
            rep += k.D[cl].to_bytes(2, 'big')
        for k in kids:
            rep += k.H[cl]
        s.H[l] = hashlib.sha256(rep).digest()
        s.D[l] = depth
    return s


def spec_dag(nodes):
    """Returns list of SpecInfo or None (None = some descendant is not spec-valid)."""
    out = []
    for kind, bits, refs in nodes:
        kids = [out[i] for i in refs]
        if any(k is None or not k.valid for k in kids):
            out.append(None)
        else:
            out.append(spec_node(kind, bits, kids))
    return out


# ----------------------------------------------------------------------------- generators

def gen_ordinary_dag(rng, n, max_refs=4, deep=False):
    nodes = []
    for i in range(n):
        if i == 0:
            k = 0
        else:
            k = rng.choice([0, 1, 1, 2, 2, 3, 4, 4])
            k = min(k, max_refs)
        refs = []
        for _ in range(k):
            if deep or rng.random() < 0.5:
                refs.append(max(0, i - 1 - rng.randrange(min(i, 3))))
            else:
                refs.append(rng.randrange(i))
        if refs and rng.random() < 0.15:
            refs[-1] = refs[0]  # same child twice
        nodes.append((ORD, rand_bits(rng, rand_len(rng)), tuple(refs)))
    return nodes


def near_twins(rng, exotic=False):
    """A DAG of cells that agree in everything except ONE aspect a (wrong) cache key or shortcut could forget: the exact
    bit length inside the last byte (same `tobytes()`), one data bit, the order / number / identity of the references,
    ordinary vs exotic with identical bits and refs.  All are built in one process, each next to its twin, in random
    order, followed by a cell that references them all (so a merged pair also shows in the parent and in to_boc)."""
    nodes = [(ORD, rand_bits(rng, rng.choice([0, 1, 5, 8])), ()), (ORD, rand_bits(rng, rng.choice([1, 3, 16])) + '1', ())]
    nodes.append((ORD, '0', (0, 1)))
    nkids = len(nodes)
    k = rng.choice([1, 2, 3, 4])
    refs = tuple(rng.randrange(nkids) for _ in range(k))
    n = rng.choice([1, 2, 3, 4, 5, 6, 9, 12, 1017, 1018])
    n -= (n % 8 == 0)
    s = rand_bits(rng, n)
    room = 7 - len(s) % 8                       # zero bits that can be appended without touching the byte count
    fam = [s] + [s + '0' * j for j in range(1, room + 1)][:3]
    if s.endswith('0'):
        fam.append(s[:-1])
    if s:
        fam.append(s[:-1] + ('1' if s[-1] == '0' else '0'))
    fam.append(s + '1')
    twins = [(ORD, b, refs) for b in dict.fromkeys(fam)]
    twins += [(ORD, s, refs[::-1]), (ORD, s, refs[:-1]), (ORD, s, refs + refs[:1] if k < 4 else refs[:2]),
              (ORD, s, tuple((r + 1) % nkids for r in refs))]
    if exotic:
        # an ORDINARY cell with exactly the bits and the reference of a Merkle proof / the bits of a library or pruned cell
        db = DagBuilder()
        for kk, bb, rr in nodes:
            db.add(kk, bb, rr)
        c = rng.randrange(nkids)
        mp = mproof_bits(db.infos[c])
        lib = bytes_to_bits(bytes([2]) + rng.randbytes(32))
        pr = make_pruned_of(db.infos[c], 1)[1]
        ex = [(ORD, mp, (c,)), (MPROOF, mp, (c,)), (ORD, lib, ()), (LIB, lib, ()), (ORD, pr, ()), (PRUNED, pr, ())]
        if rng.random() < 0.5:
            ex = [ex[1], ex[0], ex[3], ex[2], ex[5], ex[4]]
        twins += ex
    rng.shuffle(twins) if not exotic else None
    for t in twins:
        nodes.append(t)
    top = list(range(nkids, len(nodes)))
    for i in range(0, len(top), 4):
        grp = tuple(top[i:i + 4])
        if all(nodes[j][0] in (ORD,) for j in grp):
            nodes.append((ORD, '1', grp))
    return nodes


def chain(depth, bits='', width=1):
    nodes = [(ORD, '1', ())]
    for i in range(depth):
        nodes.append((ORD, bits, tuple([i] * width)))
    return nodes


def pruned_bits(mask, hashes, depths):
    assert len(hashes) == len(depths) == popcount(mask)
    return bytes_to_bits(bytes([1, mask]) + b''.join(hashes) + b''.join(d.to_bytes(2, 'big') for d in depths))


def make_pruned_of(info, new_level):
    """TON create_pruned_branch: prune the cell described by SpecInfo `info` for Merkle depth new_level (1..3)."""
    mask = (info.mask % (1 << (new_level - 1))) | (1 << (new_level - 1))
    levels = [l for l in range(new_level) if l == 0 or (mask >> (l - 1)) & 1]
    return (PRUNED, pruned_bits(mask, [info.H[l] for l in levels], [info.D[l] for l in levels]), ())


def mproof_bits(child):
    return bytes_to_bits(bytes([3]) + child.H[0] + child.D[0].to_bytes(2, 'big'))


def mupdate_bits(a, b):
    return bytes_to_bits(bytes([4]) + a.H[0] + b.H[0] + a.D[0].to_bytes(2, 'big') + b.D[0].to_bytes(2, 'big'))


class DagBuilder:
    """Incrementally builds a node list together with its spec infos."""

    def __init__(self):
        self.nodes = []
        self.infos = []

    def add(self, kind, bits, refs=()):
        self.nodes.append((kind, bits, tuple(refs)))
        kids = [self.infos[i] for i in refs]
        if any(k is None or not k.valid for k in kids):
            self.infos.append(None)
        else:
            self.infos.append(spec_node(kind, bits, kids))
        return len(self.nodes) - 1

    def ok(self, i):
        return self.infos[i] is not None and self.infos[i].valid


def gen_exotic_tree(rng, db: DagBuilder, mdepth, size):
    """Adds to `db` a random tree that lives under `mdepth` enclosing Merkle cells (so pruned cells of
    level <= mdepth may appear); returns the index of its root."""
    def leaf():
        r = rng.random()
        if mdepth > 0 and r < 0.35:
            # pruned branch of some original subtree: synthesize the original first
            orig = DagBuilder()
            oi = gen_exotic_tree(rng, orig, max(0, rng.randrange(mdepth)), rng.randrange(1, 4))
            lvl = rng.randrange(1, mdepth + 1)
            if orig.ok(oi):
                k, b, r_ = make_pruned_of(orig.infos[oi], lvl)
                return db.add(k, b, r_)
        if r < 0.45:
            return db.add(LIB, bytes_to_bits(bytes([2]) + rng.randbytes(32)))
        return db.add(ORD, rand_bits(rng, rand_len(rng)))

    if size <= 1:
        return leaf()
    r = rng.random()
    if r < 0.15 and mdepth < 3:
        c = gen_exotic_tree(rng, db, mdepth + 1, size - 1)
        if db.ok(c):
            return db.add(MPROOF, mproof_bits(db.infos[c]), (c,))
        return c
    if r < 0.25 and mdepth < 3:
        a = gen_exotic_tree(rng, db, mdepth + 1, (size - 1) // 2)
        b = gen_exotic_tree(rng, db, mdepth + 1, (size - 1) // 2)
        if db.ok(a) and db.ok(b):
            return db.add(MUPDATE, mupdate_bits(db.infos[a], db.infos[b]), (a, b))
        return a
    k = rng.randrange(1, 5)
    kids = [gen_exotic_tree(rng, db, mdepth, max(1, (size - 1) // k)) for _ in range(k)]
    if rng.random() < 0.2 and len(kids) > 1:
        kids[-1] = kids[0]
    return db.add(ORD, rand_bits(rng, rand_len(rng)), kids)


def prune_random(rng, nodes, infos, root, level=1):
    """Returns a new DagBuilder holding the tree `root` of (nodes, infos) -- which lives under `level` enclosing
    (virtual) Merkle cells -- with a random set of proper subtrees replaced by pruned branches. A subtree at a
    position with pd enclosing Merkle cells (counting those inside the tree) is pruned for Merkle depth pd, so
    hashes/depths of the root at every level < `level` must be unchanged. Also returns the pruned indices."""
    db = DagBuilder()
    memo = {}
    pruned = set()

    def go(i, pd, is_root):
        if (i, pd) in memo:
            return memo[(i, pd)]
        kind, bits, refs = nodes[i]
        inf = infos[i]
        can = (not is_root) and inf is not None and inf.valid and kind != PRUNED and pd >= 1
        if can and rng.random() < 0.3:
            k, b, r = make_pruned_of(inf, pd)
            j = db.add(k, b, r)
            pruned.add(i)
        else:
            cpd = pd + 1 if kind in (MPROOF, MUPDATE) else pd
            kids = [go(c, cpd, False) for c in refs]
            if kind == MPROOF and all(db.ok(k) for k in kids):
                bits = mproof_bits(db.infos[kids[0]])     # stored hash = level-0 hash of the (possibly pruned) child
            if kind == MUPDATE and all(db.ok(k) for k in kids):
                bits = mupdate_bits(db.infos[kids[0]], db.infos[kids[1]])
            j = db.add(kind, bits, kids)
        memo[(i, pd)] = j
        return j

    r = go(root, level, True)
    return db, r, pruned


# ----------------------------------------------------------------------------- protocol + library construction

def dag_line(nodes):
    return 'celldag ' + '|'.join(
        f"{k},{b or '-'},{'.'.join(map(str, r)) or '-'}" for k, b, r in nodes)


def parse_dag_answer(ans):
    """-> list of dict(mask, hashes[4], depths[4], hash, repr, pyhash) or None (err) per node"""
    assert ans.startswith('ok '), ans
    out = []
    for part in ans[3:].split('|'):
        if part == 'err':
            out.append(None)
            continue
        mask, hs, ds, h, rep, ph = part.split(':')
        out.append(dict(mask=int(mask), hashes=[None if x == 'x' else bytes.fromhex(x.replace('-', '')) for x in hs.split('.')],
                        depths=[None if x == 'x' else int(x) for x in ds.split('.')], hash=bytes.fromhex(h),
                        repr=None if rep == 'x' else bytes.fromhex(rep), pyhash=int(ph)))
    return out


_AFTER_END = [0]


def lib_build(nodes, route='ctor'):
    """Builds real library cells for every node; returns list of Cell or None (constructor raised)."""
    from pytoniq_core.boc.cell import Cell
    from pytoniq_core.boc.builder import Builder
    from pytoniq_core.boc.tvm_bitarray import TvmBitarray
    from bitarray import bitarray
    out = []
    for kind, bits, refs in nodes:
        kids = [out[i] for i in refs]
        if any(k is None for k in kids):
            out.append(None)
            continue
        try:
            if route == 'ctor':
                c = Cell(TvmBitarray(1023, bitarray(bits)), list(kids), kind)
            elif route == 'plain':
                c = Cell(bitarray(bits), list(kids), kind)
            elif route == 'builder':
                b = Builder(1023, kind)
                b.store_bits(bits)
                for k in kids:
                    b.store_ref(k)
                c = b.end_cell()
                # the builder stays in use after end_cell: the cell taken earlier must not notice
                writes = [lambda: b.store_bit(1), lambda: b.store_ref(c), lambda: b.store_bytes(b'\xa5'), lambda: b.store_string('z'),
                          lambda: b.store_snake_bytes(b'yz'), lambda: b.store_uint(5, 3), lambda: b.store_bits('01'), lambda: b.store_cell(c),
                          lambda: b.store_slice(c.begin_parse()), lambda: b.store_coins(7), lambda: b.store_address(None)]
                _AFTER_END[0] += 1
                k0 = _AFTER_END[0] % len(writes)          # which kind of store comes FIRST after end_cell rotates
                for f in writes[k0:] + writes[:k0]:
                    try:
                        f()
                    except Exception:
                        pass
            else:
                raise ValueError(route)
        except Exception:
            c = None
        out.append(c)
    return out


def observe(c):
    """Everything C01/C02 observe on one library cell (exceptions -> None)."""
    def g(f):
        try:
            return f()
        except Exception:
            return None
    return dict(mask=g(lambda: c.level_mask.mask), hashes=[g(lambda l=l: c.get_hash(l)) for l in range(4)],
                depths=[g(lambda l=l: c.get_depth(l)) for l in range(4)], hash=g(lambda: c.hash),
                repr=g(lambda: c.calculate_representation_hash()), pyhash=g(lambda: c.__hash__()))


# ----------------------------------------------------------------------------- round 10: byte-wise interacting sibling fields,
# a tree next to its pruned twins

# child depths that exercise both bytes of the 2-byte depth field a parent hashes (low byte 0 / small / 0x7f-0x80 / 0xfe-0xff with
# every high byte 0..3 that a legal depth can have)
DEPTH_POINTS = (0, 1, 2, 50, 127, 128, 255, 256, 257, 300, 511, 512, 513, 767, 768, 1000, 1021, 1022)


def byte_relation(a, b, width=2):
    """how two fixed-width big-endian fields relate BYTE BY BYTE, e.g. '><' = a has the larger high byte, b the larger low byte"""
    out = ''
    for k in reversed(range(width)):
        x, y = (a >> (8 * k)) & 255, (b >> (8 * k)) & 255
        out += '<' if x < y else '>' if x > y else '='
    return out


def bytewise_depth(rng, top=1022):
    """a depth 0..top whose high and low byte are chosen INDEPENDENTLY (each from its own boundary / random mix)"""
    while True:
        hi = rng.randrange((top >> 8) + 1)
        lo = rng.choice([0, 1, rng.randrange(256), rng.randrange(256), 127, 128, 254, 255])
        if hi * 256 + lo <= top:
            return hi * 256 + lo


def spine(rng, depth):
    """a chain in which node i has depth i (0..depth), data bits varying along it; built ONCE and shared by everything that needs a
    sub-DAG of a given depth"""
    nodes = [(ORD, rand_bits(rng, rng.choice([0, 1, 8, 9])), ())]
    for i in range(depth):
        nodes.append((ORD, rand_bits(rng, rng.choice([0, 0, 0, 1, 5, 8])), (i,)))
    return nodes


def sibling_depth_dag(rng, n_random, top=1023):
    """One DAG: a spine (node i = a sub-DAG of depth i, i = 0..top) followed by cells with 2-4 references whose children's depths are
    chosen independently of each other: every ordered pair of DEPTH_POINTS, then `n_random` cells whose 2-4 children are spine nodes
    of byte-wise independent depths or EARLIER cells of this class (so a cell's own depth - the value its parent hashes - is itself
    the result of such a combination), in every order.  Returns (nodes, focus) with focus = indices of the cells after the spine."""
    nodes = spine(rng, top)
    focus = []

    def add(refs):
        nodes.append((ORD, rand_bits(rng, rng.choice([0, 1, 7, 8, 21, 1023])), tuple(refs)))
        focus.append(len(nodes) - 1)

    pts = [d for d in DEPTH_POINTS if d <= top]
    for a in pts:
        for b in pts:
            add((a, b))
    for t in range(n_random):
        k = rng.choice([2, 2, 3, 3, 4])
        refs = []
        for _ in range(k):
            r = rng.random()
            if r < 0.2 and len(focus) > 4:
                refs.append(rng.choice(focus))
            elif r < 0.25:
                refs.append(top)                    # a child at the depth limit: the parent is not a legal cell
            else:
                refs.append(bytewise_depth(rng, top - 1))
        if t % 3 == 0:
            refs.sort(reverse=t % 2 == 0)            # deepest first / deepest last as well as random positions
        add(refs)
    return nodes, focus


def sub_dag(nodes, roots):
    """the sub-DAG reachable from `roots` (indices), renumbered, child-before-parent; -> (nodes', {old index: new index})"""
    keep, stack = set(), list(roots)
    while stack:
        i = stack.pop()
        if i in keep:
            continue
        keep.add(i)
        stack.extend(nodes[i][2])
    new = {}
    out = []
    for i in sorted(keep):
        new[i] = len(out)
        k, b, r = nodes[i]
        out.append((k, b, tuple(new[j] for j in r)))
    return out, new


def prune_set(nodes, infos, root, chosen, level=1):
    """`prune_random` with the choice made by the caller: the tree `root` of (nodes, infos), living under `level` (virtual) enclosing
    Merkle cells, with every node of `chosen` (except the root, pruned branches and spec-invalid nodes) replaced by its pruned branch.
    -> (DagBuilder, index of the new root, set of the nodes actually pruned)"""
    db = DagBuilder()
    memo = {}
    pruned = set()

    def go(i, pd, is_root):
        if (i, pd) in memo:
            return memo[(i, pd)]
        kind, bits, refs = nodes[i]
        inf = infos[i]
        can = (not is_root) and inf is not None and inf.valid and kind != PRUNED and pd >= 1
        if can and i in chosen:
            k, b, r = make_pruned_of(inf, pd)
            j = db.add(k, b, r)
            pruned.add(i)
        else:
            cpd = pd + 1 if kind in (MPROOF, MUPDATE) else pd
            kids = [go(c, cpd, False) for c in refs]
            if kind == MPROOF and all(db.ok(k) for k in kids):
                bits = mproof_bits(db.infos[kids[0]])
            if kind == MUPDATE and all(db.ok(k) for k in kids):
                bits = mupdate_bits(db.infos[kids[0]], db.infos[kids[1]])
            j = db.add(kind, bits, kids)
        memo[(i, pd)] = j
        return j

    r = go(root, level, True)
    return db, r, pruned


def descendants(nodes, root):
    seen, stack = set(), list(nodes[root][2])
    while stack:
        i = stack.pop()
        if i not in seen:
            seen.add(i)
            stack.extend(nodes[i][2])
    return sorted(seen)


def pruned_twins(rng, size=None, exotic=False):
    """One DAG holding a tree (ordinary cells; with `exotic` also library / Merkle cells inside) NEXT TO its pruned twins: the same
    tree with each single proper sub-tree replaced by its pruned branch (the hash and depth it stores are the right ones), with random
    sets of sub-trees pruned, pruned for Merkle depth 1..3, and rebuilt unchanged.  Twins stand for the same level-0 tree (equal
    get_hash(0), equal bits in the root, equal kind) but are different cells: different representation hash, different bytes in a bag.
    Identical nodes are shared.  -> (nodes, roots, what) with roots = indices of the versions' roots (original first, twins adjacent)
    and what[i] = description of version i.  The last nodes are ordinary cells referencing up to 4 versions each."""
    size = size or rng.randrange(3, 9)
    while True:
        orig = DagBuilder()
        if exotic:
            r0 = gen_exotic_tree(rng, orig, 0, size)
            if not orig.ok(r0):
                continue
            if orig.nodes[r0][0] != ORD:
                r0 = orig.add(ORD, rand_bits(rng, rand_len(rng)), (r0,))
        else:
            for k, b, r in gen_ordinary_dag(rng, size, deep=rng.random() < 0.5):
                orig.add(k, b, r)
            r0 = len(orig.nodes) - 1
        desc = [i for i in descendants(orig.nodes, r0) if orig.nodes[i][0] != PRUNED]
        if desc and orig.ok(r0):
            break
    versions = [(set(), 1, 'original'), (set(), 1, 'rebuilt')]
    for i in desc:
        versions.append(({i}, 1, f'node {i} pruned'))
    for _ in range(3):
        ch = {i for i in desc if rng.random() < 0.4}
        lvl = rng.choice([1, 1, 2, 3])
        versions.append((ch, lvl, f'nodes {sorted(ch)} pruned for merkle depth {lvl}'))
    nodes, index, roots, what = [], {}, [], []

    def intern(node):
        if node not in index:
            index[node] = len(nodes)
            nodes.append(node)
        return index[node]

    for chosen, lvl, name in versions:
        db, r, pruned = prune_set(orig.nodes, orig.infos, r0, chosen, lvl)
        if not db.ok(r):
            continue
        sub, new = sub_dag(db.nodes, [r])
        m = {}
        for j, (k, b, rr) in enumerate(sub):
            m[j] = intern((k, b, tuple(m[x] for x in rr)))
        roots.append(m[new[r]])
        what.append(name)
    # the versions' roots next to each other (no version is a descendant of another one), everything below them first
    uniq = list(dict.fromkeys(roots))
    order = [i for i in range(len(nodes)) if i not in set(uniq)] + uniq
    pos = {old: k for k, old in enumerate(order)}
    nodes = [(nodes[i][0], nodes[i][1], tuple(pos[j] for j in nodes[i][2])) for i in order]
    roots = [pos[r] for r in roots]
    grp = list(dict.fromkeys(roots))
    rng.shuffle(grp)
    for i in range(0, len(grp), 4):
        nodes.append((ORD, rand_bits(rng, rng.choice([0, 1, 8, 13])), tuple(grp[i:i + 4])))
    return nodes, roots, what


def stored_depth_siblings(rng, n_parents, points=DEPTH_POINTS, nest=3):
    """The cheap way to put ANY 2-byte depth next to any other: pruned branches STORE the depth they answer with.  One DAG: pruned
    branches (masks 1, 3, 7, random hashes) whose stored depths are DEPTH_POINTS / byte-wise independent values, then ordinary parents
    with 2-4 of them (and of earlier parents) in every order, and Merkle updates over two of them (children read one level higher).
    -> (nodes, focus) with focus = the parents."""
    db = DagBuilder()
    pr = []
    for d in points:
        pr.append(db.add(PRUNED, pruned_bits(1, [rng.randbytes(32)], [d])))
    for _ in range(12):
        mask = rng.choice([1, 3, 3, 7, 2, 5])
        n = popcount(mask)
        pr.append(db.add(PRUNED, pruned_bits(mask, [rng.randbytes(32) for _ in range(n)], [bytewise_depth(rng) for _ in range(n)])))
    focus = []
    m1 = pr[:len(points)]
    for a in m1:
        for b in m1:
            if byte_relation(db.infos[a].D[0], db.infos[b].D[0]) in ('><', '<>') or rng.random() < 0.1:
                focus.append(db.add(ORD, rand_bits(rng, rng.choice([0, 1, 8])), (a, b)))
    gen = {}                                     # parents of parents, at most `nest` generations (keeps every sub-DAG small)
    for t in range(n_parents):
        k = rng.choice([2, 2, 3, 4])
        pool = pr + [f for f in focus[-20:] if db.ok(f) and gen.get(f, 0) < nest]
        refs = [rng.choice(pool) for _ in range(k)]
        if t % 4 == 3 and all(db.ok(r) for r in refs[:2]):
            refs = refs[:2]
            focus.append(db.add(MUPDATE, mupdate_bits(db.infos[refs[0]], db.infos[refs[1]]), refs))
        else:
            focus.append(db.add(ORD, rand_bits(rng, rng.choice([0, 1, 8, 500])), refs))
        gen[focus[-1]] = 1 + max(gen.get(r, 0) for r in refs)
    return db.nodes, focus


def sibling_relation(depths):
    """byte relation of the deepest sibling to the others: '><' if some sibling has a larger low byte than the deepest one (the bytes
    cross), else the relation to the next deepest ('==' = the maximum occurs twice)"""
    ds = sorted(depths, reverse=True)
    rels = [byte_relation(ds[0], d) for d in ds[1:]]
    return '><' if '><' in rels else rels[0]
