"""Helpers for C16: values printed by the Lean TL-B spec codecs (driver ops tlbgen / tlbdec), cells built from the
driver's DAG lines, flattening of spec Hashmap / HashmapAug / BinTree values, canonical forms of library cells."""
import json

from . import cells as G


def parse_dag(dag):
    """'kind,bits,refs|...' -> [(kind, bits, refs)]"""
    nodes = []
    for part in dag.split('|'):
        k, b, r = part.split(',')
        nodes.append((int(k), '' if b == '-' else b, () if r == '-' else tuple(int(x) for x in r.split('.'))))
    return nodes


def dag_of_cell(cell):
    """library Cell -> (DAG string, root index); shared cells emitted once"""
    nodes, index = [], {}

    def go(c):
        key = id(c)
        if key in index:
            return index[key]
        kids = [go(r) for r in c.refs]
        nodes.append(f"{c.type_},{c.bits.to01() or '-'},{'.'.join(map(str, kids)) or '-'}")
        index[key] = len(nodes) - 1
        return index[key]

    root = go(cell)
    return '|'.join(nodes), root


def parse_gen_answer(ans):
    """-> None (unencodable) or dict(value, nodes, tbits, trefs, rt)"""
    if ans.startswith('unenc '):
        return None
    assert ans.startswith('ok '), ans[:200]
    body = ans[3:]
    v, dag, tb, tr, rt = body.rsplit(' ', 4)
    return dict(value=json.loads(v), nodes=parse_dag(dag), tbits='' if tb == '-' else tb, trefs=int(tr), rt=rt == '1')


def parse_gent_answer(ans):
    """tlbgent answer -> None (unencodable) or dict(value, nodes, tbits, trefs, rt, trace, rp)"""
    if ans.startswith('unenc '):
        return None
    assert ans.startswith('ok '), ans[:200]
    v, dag, tb, tr, rt, trace, rp = ans[3:].rsplit(' ', 6)
    return dict(value=json.loads(v), nodes=parse_dag(dag), tbits='' if tb == '-' else tb, trefs=int(tr), rt=rt == '1',
                trace=trace, rp=rp == '1')


def parse_paths_answer(ans):
    """tlbpaths answer -> (n, more, [gent dict | None])"""
    if not ans.startswith('ok '):
        return None
    head, _, body = ans.partition(';')
    _, n, more = head.split()
    vals = [parse_gent_answer(x) for x in body.split(';')] if body else []
    return int(n), more == '1', vals


def split_paths_answer(ans):
    """tlbpaths answer -> (n, more, [raw gent answers]) (values parsed on demand)"""
    if not ans.startswith('ok '):
        return None
    head, _, body = ans.partition(';')
    _, n, more = head.split()
    return int(n), more == '1', body.split(';') if body else []


def parse_trace_answer(ans):
    if not ans.startswith('ok '):
        return None
    v, rb, rr, trace = ans[3:].rsplit(' ', 3)
    return dict(value=json.loads(v), rbits='' if rb == '-' else rb, rrefs=int(rr), trace=trace)


def parse_dec_answer(ans):
    if not ans.startswith('ok '):
        return None
    v, rb, rr = ans[3:].rsplit(' ', 2)
    return dict(value=json.loads(v), rbits='' if rb == '-' else rb, rrefs=int(rr))


def build(nodes):
    return G.lib_build(nodes)


# ------------------------------------------------------------------ canonical cells

def cell_json_canon(j):
    """{'$cell': [e, bits, [children]]} -> ('cell', e, bits, (children...))"""
    e, bits, kids = j['$cell']
    return ('cell', int(e), bits, tuple(cell_json_canon(k) for k in kids))


def lib_cell_canon(c):
    return ('cell', 0 if c.type_ == -1 else 1, c.bits.to01(), tuple(lib_cell_canon(r) for r in c.refs))


def is_cell_json(j):
    return isinstance(j, dict) and '$cell' in j


# ------------------------------------------------------------------ spec trees -> flat

def label_bits(label):
    kind, v = label['$'], label['v']
    if kind == 'hml_same':
        return ('1' if v['v'] else '0') * v['n']
    return v['s']


def flatten_edge(edge, n, prefix='', aug=False, out=None, extras=None):
    """spec Hashmap / HashmapAug edge value -> {key int: leaf value}; extras in the library's order
    (leaf: its extra; fork: left subtree, right subtree, then the fork's extra)"""
    if out is None:
        out, extras = {}, []
    lb = label_bits(edge['label'])
    prefix += lb
    m = n - len(lb)
    node = edge['node']
    if m == 0:
        if aug:
            extras.append(node['extra'])
            out[int(prefix, 2) if prefix else 0] = node['value']
        else:
            out[int(prefix, 2) if prefix else 0] = node
    else:
        flatten_edge(node['left'], m - 1, prefix + '0', aug, out, extras)
        flatten_edge(node['right'], m - 1, prefix + '1', aug, out, extras)
        if aug:
            extras.append(node['extra'])
    return out, extras


def flatten_hashmap(v, n):
    """HashmapE value or bare Hashmap edge -> {key: value}"""
    if isinstance(v, dict) and v.get('$') == 'hme_empty':
        return {}
    if isinstance(v, dict) and v.get('$') == 'hme_root':
        v = v['v']
    return flatten_edge(v, n)[0]


def flatten_hashmap_aug(v, n):
    """HashmapAugE value or bare HashmapAug edge -> ({key: value}, [extras]) ; the root extra of HashmapAugE is dropped"""
    if isinstance(v, dict) and v.get('$') == 'ahme_empty':
        return {}, []
    if isinstance(v, dict) and v.get('$') == 'ahme_root':
        v = v['v']['root']
    return flatten_edge(v, n, aug=True)


def flatten_bintree(v):
    if v['$'] == 'bt_leaf':
        return [v['v']]
    return flatten_bintree(v['v']['left']) + flatten_bintree(v['v']['right'])


def ctor_names(v, acc=None):
    """all constructor names occurring in a spec value (coverage statistics)"""
    if acc is None:
        acc = set()
    if isinstance(v, dict):
        if '$cell' in v:
            return acc
        if '$' in v:
            acc.add(v['$'])
            ctor_names(v['v'], acc)
        else:
            for x in v.values():
                ctor_names(x, acc)
    return acc
