"""Dictionaries EMBEDDED in a larger constructor (C10 / C09): a container cell is a sequence of fields

    bits:<b>            a fixed-width data field
    ref:<base idx>      a `^Cell` field
    dict                one of   hm   `Hashmap n X`        (inline: the root edge lives in the container itself)
                                 hme  `HashmapE n X`       (presence bit + reference; empty = one 0 bit)
                                 aug  `HashmapAug n X Y`   (inline)
                                 auge `HashmapAugE n X Y`  (presence bit + reference + top-level extra:Y)

so a dictionary has k references and b bits BEFORE and AFTER it in the same cell.  X = `w` value bits followed by `vr`
references (fixed per dictionary, so that a value deserialiser consumes exactly X), Y = uint(ybits).  Trees are described by the
tokens of gen/maps.emit_tree (any admissible label constructor per edge, `P` = the following subtree is replaced by a pruned
branch - for the reference forms also the ROOT reference itself).

`build(fields, base)` -> (DagBuilder, container index, layout); `layout[i]` says for field i what a correct reader must get
and how many bits / references the field occupies, computed from the description alone (no library code).
"""
from . import cells as G
from . import maps as M


def tree_from_tokens(toks):
    """inverse of the token list of maps.emit_tree"""
    toks = list(toks)

    def parse(pos):
        t = toks[pos]
        if t == 'P':
            sub, pos = parse(pos + 1)
            sub['pruned'] = True
            return sub, pos
        p = [x.replace('-', '') for x in t.split(':')]
        if p[0] == 'L':
            return {'label': p[1], 'kind': p[2], 'v': p[3], 'extra': p[4], 'leaf': (p[5], [int(i) for i in p[6].split('.')] if p[6] else [])}, pos + 1
        l, pos2 = parse(pos + 1)
        r, pos3 = parse(pos2)
        return {'label': p[1], 'kind': p[2], 'v': p[3], 'extra': p[4], 'l': l, 'r': r}, pos3

    tree, end = parse(0)
    assert end == len(toks), 'trailing tokens'
    return tree


def tree_tokens(t):
    """token list of an annotated tree (the one maps.emit_tree reports), without building cells"""
    toks = []

    def go(t, live):
        if t.get('pruned') and live:
            toks.append('P')
            live = False
        s, ex = t['label'], t['extra']
        if 'leaf' in t:
            bits, refs = t['leaf']
            toks.append(f"L:{s or '-'}:{t['kind']}:{t['v']}:{ex or '-'}:{bits or '-'}:{'.'.join(map(str, refs)) or '-'}")
        else:
            toks.append(f"F:{s or '-'}:{t['kind']}:{t['v']}:{ex or '-'}")
            go(t['l'], live)
            go(t['r'], live)

    go(t, True)
    return toks


def edges(t, path=()):
    """all edges of an annotated tree as paths ('l'/'r' sequences), root first"""
    out = [path]
    if 'leaf' not in t:
        out += edges(t['l'], path + ('l',)) + edges(t['r'], path + ('r',))
    return out


def at(t, path):
    for s in path:
        t = t[s]
    return t


def field_refs(f):
    """references a field occupies in the container"""
    if f['t'] == 'ref':
        return 1
    if f['t'] == 'bits':
        return 0
    if f.get('empty'):
        return 0
    if f['form'] in ('hme', 'auge'):
        return 1
    t = tree_from_tokens(f['tokens'])
    return 2 if 'leaf' not in t else len(t['leaf'][1])


def build(fields, base):
    db = G.DagBuilder()
    for k, b, r in base:
        db.add(k, b, r)
    bits, refs, layout = '', [], []
    for f in fields:
        b0, r0 = len(bits), len(refs)
        lay = {'t': f['t']}
        if f['t'] == 'bits':
            bits += f['bits']
        elif f['t'] == 'ref':
            refs.append(f['cell'])
        else:
            form, n = f['form'], f['n']
            te = f.get('top_extra', '') if form == 'auge' else ''
            if f.get('empty'):
                assert form in ('hme', 'auge')
                bits += '0' + te
                lay.update(leaves=[], extras=[int(te, 2)] if te else [], empty=True, root_pruned=False)
            else:
                t = tree_from_tokens(f['tokens'])
                db2, root, toks, leaves, extras = M.emit_tree(t, n, db.nodes)
                db = db2
                lay.update(leaves=leaves, extras=extras, empty=False, root_pruned=bool(t.get('pruned')), root=root)
                if form in ('hm', 'aug'):
                    assert not t.get('pruned'), 'an inline dictionary has no root reference to prune'
                    k_, b_, r_ = db.nodes[root]
                    bits += b_
                    refs += list(r_)
                else:
                    bits += '1' + te
                    refs.append(root)
        lay['bits'], lay['refs'] = len(bits) - b0, len(refs) - r0
        lay['at'] = (b0, r0)
        layout.append(lay)
    cont = db.add(G.ORD, bits, tuple(refs))
    return db, cont, layout


# ----------------------------------------------------------------------------- random descriptions

def rand_tree(rng, n, w, vr, ybits, nbase, size=None, canonical=False):
    """an annotated tree of `size` keys (random admissible label constructors) with X = w bits + vr refs, or None (does not fit)"""
    keys = M.pattern_keys(rng, n) if n >= 5 else sorted({rng.randrange(1 << n) for _ in range(rng.randrange(1, (1 << n) + 1))})
    keys = sorted(set(keys))
    if size is not None:
        while len(keys) < min(size, 1 << n):
            keys = sorted(set(keys) | {rng.randrange(1 << n)})
        rng.shuffle(keys)
        keys = sorted(keys[:size])
    items = [(M.key_bits(k, n), (G.rand_bits(rng, w), [rng.randrange(nbase) for _ in range(vr)])) for k in keys]
    t = M.patricia(items)
    if not M.choose_kinds(rng, t, n, ybits, w, canonical):
        return None
    return t


def prune_at(t, path):
    at(t, path)['pruned'] = True


def clear_pruned(t):
    t.pop('pruned', None)
    if 'leaf' not in t:
        clear_pruned(t['l'])
        clear_pruned(t['r'])
