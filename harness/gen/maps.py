"""Generators and independent reference code for TON dictionaries (C09 / C10).

* `ref_*`: a Python transcription of the REFERENCE serialiser (ton/crypto/vm/dict.cpp: `append_dict_label`,
  `append_dict_label_same`, Patricia tree with maximal labels) producing DAG node lists (see gen/cells.py) whose
  hashes are computed by gen/cells.spec_dag — no library code involved.
* tree descriptions with an arbitrary VALID label constructor per edge, optional augmentation bits and pruned
  subtrees (real pruned-branch cells computed from the spec hash of the subtree), for the parsers.
"""
import itertools

from . import cells as G

# ----------------------------------------------------------------------------- reference serialiser


def key_bits(k, n):
    return format(k, 'b').zfill(n) if n else ''


def lcp(a, b):
    i = 0
    while i < len(a) and i < len(b) and a[i] == b[i]:
        i += 1
    return a[:i]


def ref_label_kind(length, max_len, same):
    """dict.cpp: mode '11' iff len>1 and k<2*len-1; else mode '10' iff k<len; else mode '0'  (k = bitlen(max_len))"""
    k = max_len.bit_length()
    if same and length > 1 and k < 2 * length - 1:
        return 'm'
    if k < length:
        return 'l'
    return 's'


def is_const(s):
    return len(set(s)) <= 1


def enc_label(s, m, kind, v='0'):
    k = m.bit_length()
    ln = format(len(s), 'b').zfill(k) if k else ''
    if kind == 's':
        return '0' + '1' * len(s) + '0' + s
    if kind == 'l':
        return '10' + ln + s
    if kind == 'm':
        assert is_const(s)
        return '11' + (s[0] if s else v) + ln
    raise ValueError(kind)


def patricia(items):
    """items: list of (key bits, value) sorted by key, keys distinct and of equal length -> tree dict"""
    label = lcp(items[0][0], items[-1][0])
    if len(items) == 1:
        return {'label': label, 'leaf': items[0][1]}
    cut = len(label)
    left = [(k[cut + 1:], v) for k, v in items if k[cut] == '0']
    right = [(k[cut + 1:], v) for k, v in items if k[cut] == '1']
    return {'label': label, 'l': patricia(left), 'r': patricia(right)}


def ref_nodes(kv, n, base=()):
    """kv: {int key: (value bits, [ref idx into base])}; returns (nodes, fits) — the canonical dictionary as a DAG."""
    nodes = list(base)
    fits = [True]
    tree = patricia(sorted((key_bits(k, n), v) for k, v in kv.items()))

    def emit(t, m):
        s = t['label']
        lb = enc_label(s, m, ref_label_kind(len(s), m, is_const(s)))
        if 'leaf' in t:
            bits, refs = t['leaf']
            if len(lb) + len(bits) > 1023 or len(refs) > 4:
                fits[0] = False
            nodes.append((G.ORD, lb + bits, tuple(refs)))
        else:
            a = emit(t['l'], m - len(s) - 1)
            b = emit(t['r'], m - len(s) - 1)
            if len(lb) > 1023:
                fits[0] = False
            nodes.append((G.ORD, lb, (a, b)))
        return len(nodes) - 1

    emit(tree, n)
    return nodes, fits[0]


def ref_hash(kv, n, base=()):
    """hash of the canonical dictionary cell, or None when some cell would not fit"""
    nodes, fits = ref_nodes(kv, n, base)
    if not fits:
        return None
    infos = G.spec_dag(nodes)
    if infos[-1] is None or not infos[-1].valid:
        return None
    return infos[-1].hash()


# ----------------------------------------------------------------------------- key sets

def two_key_map(n, length, same, v, rng=None):
    """keys of width n whose root label has `length` bits (constant bit v if same), or None if impossible"""
    if length > n:
        return None
    if same:
        p = v * length
    else:
        if length < 2:
            return None
        p = v + ('1' if v == '0' else '0') + ''.join(rng.choice('01') for _ in range(length - 2)) if rng else v + ('1' if v == '0' else '0') * (length - 1)
    if length == n:
        return [int(p, 2) if p else 0]
    rest = n - length - 1
    a = p + '0' + (''.join(rng.choice('01') for _ in range(rest)) if rng else '0' * rest)
    b = p + '1' + (''.join(rng.choice('01') for _ in range(rest)) if rng else '1' * rest)
    return [int(a, 2), int(b, 2)]


def pattern_keys(rng, n):
    """prefix-sharing key sets of width n >= 2"""
    kind = rng.randrange(9)
    full = (1 << n) - 1
    if kind == 0:
        return [rng.getrandbits(n)]
    if kind == 1:                                   # differ in the last bit
        k = rng.getrandbits(n) & ~1
        return [k, k | 1]
    if kind == 2:                                   # differ in the first bit
        k = rng.getrandbits(n - 1)
        return [k, k | (1 << (n - 1))]
    if kind == 3:                                   # dense block at the low end of a random prefix
        w = min(n, rng.randrange(1, 5))
        p = rng.getrandbits(n - w) << w
        return [p | i for i in range(1 << w) if rng.random() < 0.8] or [p]
    if kind == 4:                                   # all-same-bit keys and neighbours
        return sorted({0, full, 1, full - 1, 1 << (n - 1), full >> 1})[:rng.randrange(1, 7)]
    if kind == 5:                                   # one long shared prefix, branch at a random depth
        d = rng.randrange(n)
        p = rng.getrandbits(d) << (n - d) if d else 0
        tail = n - d - 1
        a = p | (rng.getrandbits(tail) if tail else 0)
        b = p | (1 << tail) | (rng.getrandbits(tail) if tail else 0)
        return [a, b]
    if kind == 6:                                   # comb: 0…01, 0…010, … (every depth forks)
        m = min(n, rng.randrange(2, 12))
        return [1 << i for i in range(m)] + ([0] if rng.random() < 0.5 else [])
    if kind == 7:                                   # constant prefixes 000… / 111… of varying length then a fork
        d = rng.randrange(0, n)
        bit = rng.random() < 0.5
        p = (((1 << d) - 1) << (n - d)) if bit and d else 0
        tail = n - d
        return list({p | (rng.getrandbits(tail) if tail else 0) for _ in range(rng.randrange(1, 6))})
    return list({rng.getrandbits(n) for _ in range(rng.randrange(1, 12))})


WIDTHS = [5, 6, 7, 8, 9, 15, 16, 17, 31, 32, 33, 63, 64, 65, 127, 128, 255, 256, 257, 267, 511, 512, 1000, 1021, 1022, 1023]


def rand_width(rng):
    r = rng.random()
    if r < 0.6:
        return rng.choice(WIDTHS)
    if r < 0.8:
        return rng.randrange(5, 40)
    return rng.randrange(5, 1024)


# ----------------------------------------------------------------------------- trees with chosen label kinds

def choose_kinds(rng, t, m, ybits, leaf_room, canonical=False):
    """annotate tree `t` (from patricia) in place with a random admissible constructor per edge (must fit in a cell)"""
    s = t['label']
    opts = ['s', 'l'] + (['m'] if is_const(s) else [])
    ref = ref_label_kind(len(s), m, is_const(s))
    rng.shuffle(opts)
    if canonical or rng.random() < 0.25:
        opts = [ref] + opts
    room = 1023 - ybits - (leaf_room if 'leaf' in t else 0)
    for k in opts:
        if len(enc_label(s, m, k)) <= room:
            t['kind'] = k
            break
    else:
        return False
    t['v'] = rng.choice('01')
    t['extra'] = format(rng.getrandbits(ybits), 'b').zfill(ybits) if ybits else ''
    if 'leaf' not in t:
        return (choose_kinds(rng, t['l'], m - len(s) - 1, ybits, leaf_room, canonical)
                and choose_kinds(rng, t['r'], m - len(s) - 1, ybits, leaf_room, canonical))
    return True


def mark_pruned(rng, t, p, root=True):
    if not root and rng.random() < p:
        t['pruned'] = True
        return
    if 'leaf' not in t:
        mark_pruned(rng, t['l'], p, False)
        mark_pruned(rng, t['r'], p, False)


def emit_tree(t, n, base):
    """-> (DagBuilder, root index, tokens, leaves [(key bits, value bits, ref idxs)], extras [int]) ; pruned subtrees
    are emitted (unreferenced) and replaced by level-1 pruned branches of their spec hash"""
    db = G.DagBuilder()
    for k, b, r in base:
        db.add(k, b, r)
    toks, leaves, extras = [], [], []
    db.xextras = []          # per live extra, in parser order: (extra bits, tuple of ref indices belonging to the extra)

    def go(t, m, prefix, live):
        if t.get('pruned') and live:
            toks.append('P')
            i = go(t, m, prefix, False)
            kk, bb, rr = G.make_pruned_of(db.infos[i], 1)
            return db.add(kk, bb, rr)
        s = t['label']
        lb = enc_label(s, m, t['kind'], t['v'])
        ex = t['extra']
        xr = tuple(t.get('xrefs', ()))       # references that belong to extra:Y (leaf: before the value's; fork: after left/right)
        if 'leaf' in t:
            bits, refs = t['leaf']
            toks.append(f"L:{s or '-'}:{t['kind']}:{t['v']}:{ex or '-'}:{bits or '-'}:{'.'.join(map(str, refs)) or '-'}")
            if live:
                if ex:
                    extras.append(int(ex, 2))
                    db.xextras.append((ex, xr))
                leaves.append((prefix + s, bits, tuple(refs)))
            return db.add(G.ORD, lb + ex + bits, xr + tuple(refs))
        toks.append(f"F:{s or '-'}:{t['kind']}:{t['v']}:{ex or '-'}")
        a = go(t['l'], m - len(s) - 1, prefix + s + '0', live)
        b = go(t['r'], m - len(s) - 1, prefix + s + '1', live)
        if live and ex:
            extras.append(int(ex, 2))
            db.xextras.append((ex, xr))
        return db.add(G.ORD, lb + ex, (a, b) + xr)

    root = go(t, n, '', True)
    return db, root, toks, leaves, extras


def all_orders(keys, limit=None, rng=None):
    if limit is None:
        yield from itertools.permutations(keys)
        return
    seen = set()
    for cand in (tuple(keys), tuple(reversed(keys))):
        if cand not in seen:
            seen.add(cand)
            yield cand
    tries = 0
    while len(seen) < limit and tries < 4 * limit:
        tries += 1
        p = list(keys)
        rng.shuffle(p)
        if tuple(p) not in seen:
            seen.add(tuple(p))
            yield tuple(p)
