"""Type-directed TL values over the bundled schema table, an independent TL encoder written from the TL
rules, and the token syntax of the Lean driver (see lean/TonVerif/Drv/Tl.lean).

Values are produced in the canonical form the parser returns (so value == expected parse result):
int128/int256 as lower-case hex strings, objects as dicts with '@type' (bare vector elements without),
absent conditional fields missing."""
import struct

from ..translate import tl_table as TT

LENS_QUICK = [0, 1, 2, 3, 4, 252, 253, 254, 255, 256, 257, 65535]
LEN_MAX = 2 ** 24 - 1
BOOL_TRUE = bytes.fromhex('b5757299')
BOOL_FALSE = bytes.fromhex('379779bc')
INF = 10 ** 9


class World:
    """The table (translator view), the library's schema objects and derived facts."""

    def __init__(self):
        import pytoniq_core.tl.generator as g
        self.g = g
        self.ctors, self.I, self.meta = TT.build(lenient=True)      # disagreements with the grammar: see meta['disagreements']
        self.lib = g.TlGenerator.with_default_schemas().generate()
        assert len(self.lib.list) == len(self.ctors)
        for i, c in enumerate(self.ctors):
            c['idx'] = i
        self.by_name = {}
        self.by_id = {}
        self.by_class = {}
        for c in self.ctors:                       # last wins, as the library's dicts
            self.by_name[c['name']] = c
            self.by_id[c['id']] = c
            self.by_class.setdefault(c['cls'], []).append(c)
        self.strings = self.I.list
        self.reg_prefixes = {c['id'].to_bytes(4, 'little') for c in self.ctors}
        self._rank()

    # ------------------------------------------------------------------ coverage
    def supported(self, c):
        return all(a['ety'][0] != 'unsup' for a in c['args'])

    def canonical(self, c):
        """the constructor the library resolves c's name and id to is c itself (up to duplicates)."""
        n, i = self.by_name[c['name']], self.by_id[c['id']]
        return n['id'] == c['id'] and i['name'] == c['name'] and [(a['field'], a['type']) for a in i['args']] == [(a['field'], a['type']) for a in c['args']]

    def _rank(self):
        """rank[c idx] = nesting depth of the smallest value; INF = uninhabited / unsupported."""
        rank = {c['idx']: INF for c in self.ctors}
        changed = True
        while changed:
            changed = False
            for c in self.ctors:
                if not self.supported(c):
                    continue
                r = 1
                for a in c['args']:
                    if a['cond'] is not None or a['vec']:
                        continue
                    r = max(r, 1 + self.ety_rank(a['ety'], rank))
                if r < rank[c['idx']]:
                    rank[c['idx']] = r
                    changed = True
        self.rank = rank

    def ety_rank(self, e, rank=None):
        rank = self.rank if rank is None else rank
        if e[0] == 'base':
            return 0
        if e[0] == 'bare':
            return rank[self.by_name[e[1]]['idx']]
        if e[0] == 'boxed':
            return min([rank[c['idx']] for c in self.choices(e[1])] or [INF])
        return INF

    def choices(self, cls):
        return [c for c in self.by_class.get(cls, []) if self.supported(c) and self.canonical(c)]

    def covered(self, c):
        """every field type is supported and a well-typed value exists."""
        return self.rank[c['idx']] < INF

    def fully_typed(self, c):
        """covered and, in addition, every *optional* / vector field can be given a value too."""
        return self.covered(c) and all(self.ety_rank(a['ety']) < INF for a in c['args'])


# ---------------------------------------------------------------------- generation

def rand_int(rng, lo, hi):
    """boundary-biased integer in [lo, hi)."""
    k = rng.randrange(10)
    if k == 0:
        return rng.choice([lo, hi - 1, 0, -1 if lo < 0 else 1, lo + 1, hi - 2])
    if k == 1:
        return rng.choice([127, 128, 255, 256, 65535, 65536, 2 ** 31 - 1, 2 ** 31 if hi > 2 ** 31 else 77, (hi - 1) >> 1])
    if k < 5:
        return rng.randrange(-100 if lo < 0 else 0, 100)
    return rng.randrange(lo, hi)


def rand_len(rng, opts):
    k = rng.randrange(20)
    if k == 0 and opts.get('big', True):
        return rng.choice(opts.get('lens', LENS_QUICK))
    if k < 3:
        return rng.choice([0, 1, 2, 3, 4, 5, 7, 8])
    if k < 5:
        return rng.choice([252, 253, 254, 255, 256, 257])
    return rng.randrange(0, 40)


def rand_bytes(W, rng, n):
    while True:
        b = rng.randbytes(n)
        if b[:4] not in W.reg_prefixes:
            return b


ALPHABET = ['a', 'Z', '0', ' ', '\n', '\x00', '\x7f', '\u00e9', '\u00df', '\u07ff', '\u0800', '\u20ac', '\ud7ff', '\ue000',
            '\uffff', '\U00010000', '\U0001f600', '\U0010ffff']


def rand_str(W, rng, n):
    """a str whose UTF-8 encoding has exactly n bytes (and does not start with a registered id)."""
    while True:
        out, left = [], n
        if n > 300:                                   # long: mostly ASCII filler
            filler = n - 200
            out.append(rng.choice('abcxyz') * filler)
            left -= filler
        while left > 0:
            ch = rng.choice(ALPHABET)
            k = len(ch.encode())
            if k <= left:
                out.append(ch)
                left -= k
        rng.shuffle(out)
        s = ''.join(out)
        if s.encode()[:4] not in W.reg_prefixes:
            return s


def gen_one(W, rng, e, in_vec, depth, opts):
    if e[0] == 'base':
        t = e[1]
        if t == 'int':
            return rand_int(rng, -2 ** 31, 2 ** 31)
        if t == 'long':
            return rand_int(rng, -2 ** 63, 2 ** 63)
        if t == 'nat':
            return rand_int(rng, 0, 2 ** 32)
        if t == 'int128':
            return rng.randbytes(16).hex()
        if t == 'int256':
            return rng.choice([rng.randbytes(32), bytes(32), b'\xff' * 32]).hex()
        if t == 'bool':
            return rng.random() < 0.5
        if t == 'bytes':
            return rand_bytes(W, rng, opts.get('len') if opts.get('len') is not None else rand_len(rng, opts))
        if t == 'string':
            return rand_str(W, rng, opts.get('len') if opts.get('len') is not None else rand_len(rng, opts))
    sub = dict(opts, len=None)
    if e[0] == 'bare':
        c = W.by_name[e[1]]
        v = gen_obj(W, rng, c, depth + 1, sub)
        if in_vec:
            v.pop('@type')
        return v
    if e[0] == 'boxed':
        cs = W.choices(e[1])
        lim = opts.get('depth', 3)
        if depth >= lim:
            m = min(W.rank[c['idx']] for c in cs)
            cs = [c for c in cs if W.rank[c['idx']] == m]
        else:
            cs = [c for c in cs if W.rank[c['idx']] < INF]
        return gen_obj(W, rng, rng.choice(cs), depth + 1, sub)
    raise ValueError(e)


def gen_field(W, rng, a, depth, opts):
    if a['vec']:
        lim = opts.get('depth', 3)
        n = 0 if depth >= lim else rng.choice([0, 1, 1, 2, 3, rng.randrange(2, 7)])
        if opts.get('veclen') is not None and depth == 0:
            n = opts['veclen']
        return [gen_one(W, rng, a['ety'], True, depth, opts) for _ in range(n)]
    return gen_one(W, rng, a['ety'], False, depth, opts)


def cond_bits(c):
    """the distinct (flags variable, bit) pairs of a constructor, in order of first use."""
    out = []
    for a in c['args']:
        if a['cond'] is not None and a['cond'] not in out:
            out.append(a['cond'])
    return out


def gen_obj(W, rng, c, depth=0, opts=None, combo=None):
    """combo: optional tuple of booleans, one per distinct flag bit (presence of the fields it guards)."""
    opts = opts or {}
    conds = [a for a in c['args'] if a['cond'] is not None]
    lim = opts.get('depth', 3)
    bits = cond_bits(c)
    on = {}
    for k, key in enumerate(bits):
        mine = [a for a in conds if a['cond'] == key]
        possible = all(W.ety_rank(a['ety']) < INF for a in mine)
        if combo is not None and depth == 0:
            p = combo[k] and possible
        elif depth >= lim and any(a['ety'][0] != 'base' or a['vec'] for a in mine):
            p = False
        else:
            p = possible and rng.random() < 0.5
        on[key] = p
    pres = {a['field']: on[a['cond']] for a in conds}
    flagvars = {}
    for a in conds:
        var, bit = a['cond']
        flagvars.setdefault(var, [0, 0])
        flagvars[var][1] |= 1 << bit
        if pres[a['field']]:
            flagvars[var][0] |= 1 << bit
    v = {'@type': c['name']}
    for a in c['args']:
        f = a['field']
        if a['cond'] is not None and not pres[f]:
            continue
        if f in flagvars and a['ety'] == ('base', 'nat') and a['cond'] is None and not a['vec']:
            val, used = flagvars[f]
            junk = rng.choice([0, 0, rng.randrange(2 ** 32), 2 ** 31, 2 ** 32 - 1]) & ~used
            v[f] = val | junk
            continue
        v[f] = gen_field(W, rng, a, depth, opts)
    return v


# ---------------------------------------------------------------------- independent encoder (TL rules)

def frame(b):
    n = len(b)
    out = bytes([n]) if n < 254 else b'\xfe' + n.to_bytes(3, 'little')
    out += b
    while len(out) % 4:
        out += b'\x00'
    return out


def enc_one(W, e, x, in_vec):
    if e[0] == 'base':
        t = e[1]
        if t == 'int':
            return struct.pack('<i', x)
        if t == 'long':
            return struct.pack('<q', x)
        if t == 'nat':
            return struct.pack('<I', x)
        if t in ('int128', 'int256'):
            b = bytes.fromhex(x)
            assert len(b) == (16 if t == 'int128' else 32)
            return b
        if t == 'bool':
            return BOOL_TRUE if x else BOOL_FALSE
        if t == 'bytes':
            return frame(x)
        if t == 'string':
            return frame(x.encode('utf-8'))
    if e[0] == 'bare':
        return enc_obj(W, W.by_name[e[1]], x, False)
    if e[0] == 'boxed':
        c = W.by_name[x['@type']]
        assert c['cls'] == e[1]
        return enc_obj(W, c, x, True)
    raise ValueError(e)


def enc_obj(W, c, v, boxed):
    out = struct.pack('<I', c['id']) if boxed else b''
    for a in c['args']:
        if a['cond'] is not None:
            var, bit = a['cond']
            if not (v[var] >> bit) & 1:
                assert a['field'] not in v
                continue
        x = v[a['field']]
        if a['vec']:
            out += struct.pack('<I', len(x))
            for y in x:
                out += enc_one(W, a['ety'], y, True)
        else:
            out += enc_one(W, a['ety'], x, False)
    return out


# ---------------------------------------------------------------------- driver tokens

def tok_one(W, e, x):
    if e[0] == 'base':
        t = e[1]
        if t in ('int', 'long', 'nat'):
            return f'i{x}'
        if t in ('int128', 'int256'):
            return 'h' + x
        if t == 'bool':
            return 'T' if x else 'F'
        if t == 'bytes':
            return 'b' + x.hex()
        if t == 'string':
            return 's' + x.encode().hex()
    if e[0] == 'bare':
        return tok_obj(W, W.by_name[e[1]], x)
    if e[0] == 'boxed':
        return tok_obj(W, W.by_name[x['@type']], x)
    raise ValueError(e)


def tok_obj(W, c, v):
    parts = []
    for a in c['args']:
        if a['field'] not in v:
            continue
        x = v[a['field']]
        if a['vec']:
            t = 'l(' + ','.join(tok_one(W, a['ety'], y) for y in x) + ')'
        else:
            t = tok_one(W, a['ety'], x)
        parts.append(f'{a["f"]}={t}')
    tag = W.I.ids[v['@type']] if '@type' in v else '-'
    return f'o{tag}(' + ','.join(parts) + ')'


def parse_tok(W, s):
    """driver value token -> Python value in the library's form."""
    v, rest = _pv(W, s, 0)
    if rest != len(s):
        raise ValueError('trailing: ' + s[rest:rest + 20])
    return v


def _hexrun(s, i):
    j = i
    while j < len(s) and s[j] in '0123456789abcdef':
        j += 1
    return s[i:j], j


def _pv(W, s, i):
    ch = s[i]
    if ch == 'i':
        j = i + 1
        if s[j] == '-':
            j += 1
        while j < len(s) and s[j].isdigit():
            j += 1
        return int(s[i + 1:j]), j
    if ch == 'T':
        return True, i + 1
    if ch == 'F':
        return False, i + 1
    if ch in 'bsh':
        h, j = _hexrun(s, i + 1)
        if ch == 'b':
            return bytes.fromhex(h), j
        if ch == 'h':
            return h, j
        return bytes.fromhex(h).decode('utf-8'), j
    if ch == 'l':
        assert s[i + 1] == '('
        i += 2
        out = []
        if s[i] == ')':
            return out, i + 1
        while True:
            v, i = _pv(W, s, i)
            out.append(v)
            if s[i] == ')':
                return out, i + 1
            assert s[i] == ','
            i += 1
    if ch == 'o':
        i += 1
        d = {}
        if s[i] == '-':
            i += 1
        else:
            j = i
            while s[j].isdigit():
                j += 1
            d['@type'] = W.strings[int(s[i:j])]
            i = j
        assert s[i] == '('
        i += 1
        if s[i] == ')':
            return d, i + 1
        while True:
            j = i
            while s[j].isdigit():
                j += 1
            k = W.strings[int(s[i:j])]
            assert s[j] == '='
            v, i = _pv(W, s, j + 1)
            d[k] = v
            if s[i] == ')':
                return d, i + 1
            assert s[i] == ','
            i += 1
    raise ValueError(f'bad token at {i}: {s[i:i + 20]}')


def same(a, b):
    """strict structural equality (True != 1, dict order irrelevant)."""
    if type(a) is not type(b):
        return False
    if isinstance(a, dict):
        return a.keys() == b.keys() and all(same(a[k], b[k]) for k in a)
    if isinstance(a, list):
        return len(a) == len(b) and all(same(x, y) for x, y in zip(a, b))
    return a == b
