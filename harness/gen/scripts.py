"""Builder / Slice operation scripts: execution on the real library (canonicalised exactly like the Lean driver),
an independent TL-B encoder for typed values (the C06 oracle), and seeded generators."""
from . import cells as G


def _lib():
    from pytoniq_core.boc.builder import Builder
    from pytoniq_core.boc.address import Address, ExternalAddress
    return Builder, Address, ExternalAddress


def show_bits(ba):
    s = ba.to01() if hasattr(ba, 'to01') else ''.join('1' if x else '0' for x in ba)
    return s or '-'


def show_refs(refs):
    return '.'.join(r.hash.hex() for r in refs) or '-'


def mk_addr(parts):
    Builder, Address, ExternalAddress = _lib()
    if parts[0] == 'n':
        return None
    if parts[0] == 'e':
        return ExternalAddress(int(parts[2]), int(parts[1]))
    a = Address((int(parts[1]), bytes.fromhex(parts[2].replace('-', ''))))
    if len(parts) == 5:
        a.set_anycast(int(parts[3]), int(parts[4]))
    return a


def show_addr(a):
    Builder, Address, ExternalAddress = _lib()
    if a is None:
        return 'n'
    if isinstance(a, ExternalAddress):
        return f'e:{a.len}:{a.external_address}'
    s = f's:{a.wc}:{a.hash_part.hex() or "-"}'
    if a.anycast is not None:
        s += f':{a.anycast.depth}:{a.anycast.rewrite_pfx}'
    return s


_BIT_FORM = [0]


def exec_builder(cells, ops, builder=None):
    """cells: library cells of the context DAG. Returns (flags, bits, refs, endcell-hash|'err', builder)."""
    Builder, Address, ExternalAddress = _lib()
    b = builder if builder is not None else Builder()
    flags = ''
    for tok in ops:
        p = tok.split(':')
        try:
            k = p[0]
            if k == 'u':
                b.store_uint(int(p[1]), int(p[2]))
            elif k == 'i':
                b.store_int(int(p[1]), int(p[2]))
            elif k == 'vu':
                b.store_var_uint(int(p[1]), int(p[2]))
            elif k == 'vi':
                b.store_var_int(int(p[1]), int(p[2]))
            elif k == 'c':
                b.store_coins(int(p[1]))
            elif k == 'b':
                b.store_bits('' if p[1] == '-' else p[1])
            elif k == 'by':
                b.store_bytes(bytes.fromhex(p[1].replace('-', '')))
            elif k == 'bit':
                # every argument form the signature admits (int, bool, '0'/'1', a one-bit array) and the two sibling entry points
                _BIT_FORM[0] += 1
                v, form = int(p[1]), _BIT_FORM[0] % 6
                if form == 0:
                    b.store_bit(v)
                elif form == 1:
                    b.store_bit(bool(v))
                elif form == 2:
                    b.store_bit(str(v))
                elif form == 3:
                    from pytoniq_core.boc.tvm_bitarray import TvmBitarray
                    from bitarray import bitarray
                    b.store_bit(TvmBitarray(1023, bitarray(str(v))))
                elif form == 4:
                    b.store_bool(bool(v))
                else:
                    b.store_bit_int(v)
            elif k == 'r':
                b.store_ref(cells[int(p[1])])
            elif k == 'mr':
                b.store_maybe_ref(None if p[1] == '-' else cells[int(p[1])])
            elif k == 'cell':
                b.store_cell(cells[int(p[1])])
            elif k == 'sl':
                s = cells[int(p[1])].begin_parse()
                s.skip_bits(int(p[2]))
                for _ in range(int(p[3])):
                    s.load_ref()
                b.store_slice(s)
            elif k == 'a':
                b.store_address(mk_addr(p[1:]))
            elif k == 'ec':
                b.end_cell()                      # interim end_cell(): result dropped, the builder goes on
            elif k == 'sn':
                b.store_snake_bytes(bytes.fromhex(p[1].replace('-', '')))
            elif k == 'd':
                b.store_dict(None if p[1] == '-' else cells[int(p[1])])
            elif k == 's':
                b.store_string(bytes.fromhex(p[1].replace('-', '')).decode())
            elif k == 'sns':
                b.store_snake_string(bytes.fromhex(p[1].replace('-', '')).decode(), p[2] == '1')
            else:
                raise ValueError('unknown op ' + tok)
            flags += '1'
        except ValueError as e:
            if 'unknown op' in str(e):
                raise
            flags += '0'
        except Exception:
            flags += '0'
    try:
        fin = b.end_cell().hash.hex()
    except Exception:
        fin = 'err'
    return flags or '-', show_bits(b.bits), show_refs(b.refs), fin, b


def exec_slice(cell, ops):
    try:
        s = cell.begin_parse()
    except Exception:      # begin_parse itself raised: every read counts as an error (reported by the callers' oracles)
        return ';'.join('x' for _ in ops) or '-', 'x', 'x'
    out = []
    for tok in ops:
        p = tok.split(':')
        k = p[0]
        try:
            if k == 'lu':
                r = str(s.load_uint(int(p[1])))
            elif k == 'li':
                r = str(s.load_int(int(p[1])))
            elif k == 'pu':
                r = str(s.preload_uint(int(p[1])))
            elif k == 'pi':
                r = str(s.preload_int(int(p[1])))
            elif k == 'lb':
                r = show_bits(s.load_bits(int(p[1])))
            elif k == 'pb':
                r = show_bits(s.preload_bits(int(p[1])))
            elif k == 'lby':
                r = s.load_bytes(int(p[1])).hex() or '-'
            elif k == 'pby':
                r = s.preload_bytes(int(p[1])).hex() or '-'
            elif k == 'bit':
                r = str(int(s.load_bit()))
            elif k == 'pbit':
                r = str(int(s.preload_bit()))
            elif k == 'sk':
                s.skip_bits(int(p[1]))
                r = 'ok'
            elif k == 'lr':
                r = s.load_ref().hash.hex()
            elif k == 'pr':
                r = s.preload_ref().hash.hex()
            elif k == 'lmr':
                x = s.load_maybe_ref()
                r = 'none' if x is None else x.hash.hex()
            elif k == 'pmr':
                x = s.preload_maybe_ref()
                r = 'none' if x is None else x.hash.hex()
            elif k == 'lvu':
                r = str(s.load_var_uint(int(p[1])))
            elif k == 'pvu':
                r = str(s.preload_var_uint(int(p[1])))
            elif k == 'lvi':
                r = str(s.load_var_int(int(p[1])))
            elif k == 'pvi':
                r = str(s.preload_var_int(int(p[1])))
            elif k == 'lc':
                r = str(s.load_coins())
            elif k == 'pc':
                r = str(s.preload_coins())
            elif k == 'la':
                r = show_addr(s.load_address())
            elif k == 'pa':
                r = show_addr(s.preload_address())
            elif k == 'lall':
                r = s.load_bytes(len(s.bits) // 8).hex() or '-'
            elif k == 'lsn':
                r = s.load_snake_bytes().hex() or '-'
            elif k == 'lss':
                r = s.load_snake_string().encode().hex() or '-'
            elif k in ('ld', 'pd'):
                ro = s.ref_offset
                x = s.load_dict(int(p[1])) if k == 'ld' else s.preload_dict(int(p[1]))
                r = 'none' if x is None else s.refs[ro].hash.hex()
                if x is not None and not isinstance(x, dict):
                    r = 'notadict'
            elif k == 'ls':
                r = s.load_string(int(p[1])).encode().hex() or '-'
            elif k == 'ps':
                r = s.preload_string(int(p[1])).encode().hex() or '-'
            else:
                raise ValueError('unknown op ' + tok)
        except ValueError as e:
            if 'unknown op' in str(e):
                raise
            r = 'x'
        except Exception:
            r = 'x'
        out.append(r)
    return ';'.join(out) or '-', show_bits(s.bits), show_refs(s.refs[s.ref_offset:])


# ----------------------------------------------------------------------------- independent TL-B encoder (oracle)

def enc_uint(v, n):
    assert 0 <= v < (1 << n) and n > 0
    return format(v, f'0{n}b')


def enc_int(v, n):
    assert -(1 << (n - 1)) <= v < (1 << (n - 1)) and n > 0
    return format(v & ((1 << n) - 1), f'0{n}b')


def len_bits(k):
    """VarUInteger k: len is (#< k) = ceil(log2 k) bits; the library takes the bit width directly"""
    return k


def enc_var_uint(v, k):
    n = (v.bit_length() + 7) // 8
    return enc_uint(n, k) + (enc_uint(v, 8 * n) if n else '')


def signed_bitsize(v):
    return (v if v >= 0 else ~v).bit_length() + 1


def enc_var_int(v, k):
    if v == 0:
        return enc_uint(0, k)
    n = (signed_bitsize(v) + 7) // 8
    return enc_uint(n, k) + enc_int(v, 8 * n)


def enc_addr(parts):
    if parts[0] == 'n':
        return '00'
    if parts[0] == 'e':
        ln, v = int(parts[1]), int(parts[2])
        assert ln or v == 0      # bits 0 holds only the empty string
        return '01' + enc_uint(ln, 9) + (enc_uint(v, ln) if ln else '')
    wc, h = int(parts[1]), bytes.fromhex(parts[2].replace('-', ''))
    s = '10'
    if len(parts) == 5:
        d, pfx = int(parts[3]), int(parts[4])
        s += '1' + enc_uint(d, 5) + enc_uint(pfx, d)
    else:
        s += '0'
    return s + enc_int(wc, 8) + G.bytes_to_bits(h)


def enc_tok(tok, cells):
    """-> (bits, [ref cells], load-op token, expected load result) for value-carrying store ops; None if not a typed value"""
    p = tok.split(':')
    k = p[0]
    if k == 'u':
        return enc_uint(int(p[1]), int(p[2])), [], f'lu:{p[2]}', p[1], f'pu:{p[2]}'
    if k == 'i':
        return enc_int(int(p[1]), int(p[2])), [], f'li:{p[2]}', p[1], f'pi:{p[2]}'
    if k == 'vu':
        return enc_var_uint(int(p[1]), int(p[2])), [], f'lvu:{p[2]}', p[1], f'pvu:{p[2]}'
    if k == 'vi':
        return enc_var_int(int(p[1]), int(p[2])), [], f'lvi:{p[2]}', p[1], f'pvi:{p[2]}'
    if k == 'c':
        return enc_var_uint(int(p[1]), 4), [], 'lc', p[1], 'pc'
    if k == 'b':
        bits = '' if p[1] == '-' else p[1]
        return bits, [], f'lb:{len(bits)}', p[1], f'pb:{len(bits)}'
    if k == 'by':
        by = bytes.fromhex(p[1].replace('-', ''))
        return G.bytes_to_bits(by), [], f'lby:{len(by)}', p[1], f'pby:{len(by)}'
    if k == 'bit':
        return p[1], [], 'bit', p[1], 'pbit'
    if k == 'r':
        return '', [cells[int(p[1])]], 'lr', cells[int(p[1])].hash.hex(), 'pr'
    if k == 'mr':
        if p[1] == '-':
            return '0', [], 'lmr', 'none', 'pmr'
        return '1', [cells[int(p[1])]], 'lmr', cells[int(p[1])].hash.hex(), 'pmr'
    if k == 'a':
        return enc_addr(p[1:]), [], 'la', ':'.join(p[1:]), 'pa'
    if k == 'd':   # HashmapE = Maybe ^Cell
        if p[1] == '-':
            return '0', [], f'ld:{DICT_KEY_LEN}', 'none', f'pd:{DICT_KEY_LEN}'
        return '1', [cells[int(p[1])]], f'ld:{DICT_KEY_LEN}', cells[int(p[1])].hash.hex(), f'pd:{DICT_KEY_LEN}'
    if k == 's':   # store_string: the UTF-8 bytes, at most 127
        by = bytes.fromhex(p[1].replace('-', ''))
        assert len(by) <= 127
        return G.bytes_to_bits(by), [], f'ls:{len(by)}', p[1], f'ps:{len(by)}'
    return None


DICT_KEY_LEN = 8


def cell_dag(cell):
    """DAG nodes (child before parent, shared cells once) of a library cell tree; the root is the last node."""
    nodes, index = [], {}

    def walk(c):
        if c.hash in index:
            return index[c.hash]
        kids = tuple(walk(r) for r in c.refs)
        nodes.append((G.ORD, c.bits.to01(), kids))
        index[c.hash] = len(nodes) - 1
        return index[c.hash]
    walk(cell)
    return nodes


def dict_dag(entries=((1, 5), (200, 7), (77, 1))):
    """DAG nodes of a serialised HashMap(8) with the given int entries; the root is the last node."""
    from pytoniq_core import begin_cell
    from pytoniq_core.boc.hashmap.hashmap import HashMap
    h = HashMap(DICT_KEY_LEN)
    for k, v in entries:
        h.set_int_key(k, begin_cell().store_uint(v, 8).end_cell())
    return cell_dag(h.serialize())


def shift_dag(nodes, off):
    return [(k, b, tuple(r + off for r in refs)) for k, b, refs in nodes]


# ----------------------------------------------------------------------------- generators

def rand_uint_tok(rng, n=None):
    n = n or rng.choice([1, 2, 3, 7, 8, 9, 16, 31, 32, 33, 63, 64, 65, 127, 128, 255, 256, 257, rng.randrange(1, 258)])
    v = rng.choice([0, 1, (1 << n) - 1, 1 << (n - 1), rng.getrandbits(n)])
    return f'u:{v}:{n}'


def rand_int_tok(rng, n=None):
    n = n or rng.choice([1, 2, 3, 7, 8, 9, 16, 32, 33, 64, 65, 128, 256, 257, rng.randrange(1, 258)])
    lo, hi = -(1 << (n - 1)), (1 << (n - 1)) - 1
    v = rng.choice([0, -1, lo, hi, min(hi, 1), rng.randrange(lo, hi + 1)])
    return f'i:{v}:{n}'


def varint_values(nbytes):
    """boundary values of one byte-length class, unsigned and signed"""
    if nbytes == 0:
        return [0], [0]
    lo_u, hi_u = 1 << (8 * (nbytes - 1)), (1 << (8 * nbytes)) - 1
    us = [lo_u, hi_u, (lo_u + hi_u) // 2, 1 << (8 * nbytes - 1)]
    hi_s = (1 << (8 * nbytes - 1)) - 1
    lo_s = -(1 << (8 * nbytes - 1))
    prev_hi = (1 << (8 * (nbytes - 1) - 1)) - 1 if nbytes > 1 else 0
    prev_lo = -(1 << (8 * (nbytes - 1) - 1)) if nbytes > 1 else 0
    ss = [hi_s, lo_s, prev_hi + 1, prev_lo - 1]
    if nbytes == 1:
        ss += [1, -1, 127, -128]
    return us, ss


def rand_var_tok(rng):
    k = rng.choice([3, 4, 5])
    maxb = (1 << k) - 1
    nb = rng.randrange(0, min(maxb, 20) + 1)
    us, ss = varint_values(nb)
    if rng.random() < 0.5:
        return f'vu:{rng.choice(us)}:{k}' if rng.random() < 0.6 else f'c:{rng.choice(varint_values(rng.randrange(0, 16))[0])}'
    return f'vi:{rng.choice(ss)}:{k}'


def rand_addr_tok(rng):
    r = rng.random()
    if r < 0.15:
        return 'a:n'
    if r < 0.4:
        ln = rng.choice([0, 1, 2, 7, 8, 9, 255, 256, 511, rng.randrange(0, 512)])
        v = rng.getrandbits(ln) if ln else 0
        return f'a:e:{ln}:{v}'
    wc = rng.choice([0, -1, 127, -128, rng.randrange(-128, 128)])
    h = rng.choice([b'\x00' * 32, b'\xff' * 32, rng.randbytes(32)]).hex()
    if r < 0.7:
        return f'a:s:{wc}:{h}'
    d = rng.choice([1, 2, 5, 29, 30, rng.randrange(1, 31)])
    pfx = rng.choice([0, 1, (1 << d) - 1, rng.getrandbits(d)])
    return f'a:s:{wc}:{h}:{d}:{pfx}'


STRING_ALPHABET = 'abcXYZ 09é日𝄞'


def rand_string_tok(rng):
    n = rng.choice([1, 2, 5, 30])
    s = ''.join(rng.choice(STRING_ALPHABET) for _ in range(n))
    return 's:' + s.encode().hex()


def rand_typed_tok(rng, ncells, dict_idx=None):
    r = rng.random()
    if dict_idx is not None and r < 0.06:
        return rng.choice(['d:-', f'd:{dict_idx}'])
    if dict_idx is not None and r < 0.1:
        return rand_string_tok(rng)
    if r < 0.2:
        return rand_uint_tok(rng)
    if r < 0.4:
        return rand_int_tok(rng)
    if r < 0.6:
        return rand_var_tok(rng)
    if r < 0.72:
        return rand_addr_tok(rng)
    if r < 0.8:
        return 'b:' + (G.rand_bits(rng, rng.choice([0, 1, 5, 8, 13, 64])) or '-')
    if r < 0.86:
        return 'by:' + (rng.randbytes(rng.choice([0, 1, 2, 16, 32])).hex() or '-')
    if r < 0.9:
        return f'bit:{rng.randrange(2)}'
    if r < 0.95 and ncells:
        return f'r:{rng.randrange(ncells)}'
    if ncells:
        return rng.choice(['mr:-', f'mr:{rng.randrange(ncells)}'])
    return 'mr:-'


def tok_cost(tok, cells):
    e = enc_tok(tok, cells)
    return len(e[0]), len(e[1])
