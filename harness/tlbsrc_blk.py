"""C16 source tie, third part: the regenerated parsers of tlb/account.py / block.py / config.py
(harness/translate/tlbparsers_blk.py -> lean/TonVerif/Generated/TlbParsersBlk.lean; ConsensusConfig and BlockInfo of the first generated
file, which got their theorems here).  Same three services as harness/tlbsrc.py / tlbsrc_tx.py:

  * `translator_entries()`  one tie per class for SPEC['translators']
  * `validate(ctx)`         TRANSLATOR VALIDATION: the regenerated Lean reader (driver op `tlbsrcblk`) and the real `T.deserialize` run on
                            the same generated cells must return the same object (class, attributes, nested objects, dicts, addresses,
                            cells) and leave the same rest of the slice
  * `theorem_check(ctx)`    the statement of `c16_src_<T>` evaluated in Lean on generated values (`tlbsrcblkchk`); in search mode the
                            values on which it is false go to the property's oracle first -> concrete failing input
"""
import importlib
import json

from .gen import tlbvals as V
from .translate import tlbparsers_blk as TB
from .tlbsrc import dag_str
from .tlbsrc_tx import mismatch

# class -> (python module, spec type known to the property's oracle, theorem, generated file it lives in)
PROVED = {
    'ConsensusConfig': ('config', 'ConsensusConfig', 'c16_src_ConsensusConfig', 'first'),
    'BlockInfo': ('block', 'BlockInfo', 'c16_src_BlockInfo', 'first'),
    'DepthBalanceInfo': ('block', 'DepthBalanceInfo', 'c16_src_DepthBalanceInfo', 'blk'),
    'ValueFlow': ('block', 'ValueFlow', 'c16_src_ValueFlow', 'blk'),
    'ShardDescr': ('block', 'ShardDescr', 'c16_src_ShardDescr', 'blk'),
    'AccountStorage': ('account', 'AccountStorage', 'c16_src_AccountStorage', 'blk'),
    'Account': ('account', 'Account', 'c16_src_Account', 'blk'),
    'ShardAccount': ('account', 'ShardAccount', 'c16_src_ShardAccount', 'blk'),
    'ValidatorSet': ('config', 'ValidatorSet', 'c16_src_ValidatorSet', 'blk'),
    'ShardAccounts': ('block', 'ShardAccounts', 'c16_src_ShardAccounts', 'blk'),
    'OldMcBlocksInfo': ('block', 'OldMcBlocksInfo', 'c16_src_OldMcBlocksInfo', 'blk'),
    'BlockCreateStats': ('block', 'BlockCreateStats', 'c16_src_BlockCreateStats', 'blk'),
    'ConfigParams': ('block', 'ConfigParams', 'c16_src_ConfigParams', 'blk'),
    'McStateExtra': ('block', 'McStateExtra', 'c16_src_McStateExtra', 'blk'),
    'ShardStateUnsplit': ('block', 'ShardStateUnsplit', 'c16_src_ShardStateUnsplit', 'blk'),
    'McBlockExtra': ('block', 'McBlockExtra', 'c16_src_McBlockExtra', 'blk'),
    'ShardState': ('block', 'ShardState', 'c16_src_ShardState', 'blk'),
    'AccountBlock': ('account', 'AccountBlock', 'c16_src_AccountBlock', 'blk'),
    'BlockExtra': ('block', 'BlockExtra', 'c16_src_BlockExtra', 'blk'),
    'Block': ('block', 'Block', 'c16_src_Block', 'blk'),
}
N_VALIDATE = {'BlockInfo': 16, 'ConsensusConfig': 12, 'McStateExtra': 8, 'ShardStateUnsplit': 8, 'McBlockExtra': 8, 'ShardState': 6, 'AccountBlock': 8, 'BlockExtra': 6, 'Block': 6}


def label(cls):
    return f'parser {cls} ({PROVED[cls][2]})'


def live(ctx):
    return [c for c in PROVED if (ctx.tie.get(label(c)) or {}).get('status') == 'ok']


def translator_entries():
    out = [('tlb/account.py, block.py, config.py deserialize -> Generated/TlbParsersBlk.lean', TB.regenerate)]
    for _, cls in TB.CLASSES:
        out.append((label(cls), TB.class_tie(cls)))
    return out


def lib_class(cls):
    return getattr(importlib.import_module(f'pytoniq_core.tlb.{PROVED[cls][0]}'), cls)


def _gen(ctx, classes, n):
    reqs = [(c, ctx.rng.randrange(1 << 30)) for c in classes for _ in range(n if isinstance(n, int) else n(c))]
    outs = ctx.model.run([f'tlbsrcblkchk {c} {s}' for c, s in reqs]) if reqs else []
    for (c, s), ans in zip(reqs, outs):
        if ans in ('unenc', 'bad-op', 'err') or not ans[:2] in ('0 ', '1 '):
            if ans != 'unenc':
                ctx.corr_broken(f'driver: tlbsrcblkchk {c} {s} -> {ans[:80]}')
            continue
        g = V.parse_gen_answer(ans[2:])
        if g is not None:
            yield c, s, ans[0] == '1', g


def validate(ctx):
    """translator validation on generated cells of every class of the third part"""
    ok_classes = live(ctx)
    items = list(_gen(ctx, ok_classes, lambda c: N_VALIDATE.get(c, 10)))
    lines = [f'tlbsrcblk {c} {dag_str(g["nodes"])} {len(g["nodes"]) - 1}' for c, s, good, g in items]
    outs = ctx.model.run(lines) if lines else []
    bad = {}
    for (c, s, good, g), ans in zip(items, outs):
        ctx.count('srcblk_validated')
        cells = V.build(g['nodes'])
        sl = cells[-1].begin_parse()
        try:
            obj = lib_class(c).deserialize(sl)
            lib = ('ok', obj, sl.bits.to01(), sl.remaining_refs)
        except Exception as e:
            lib = ('raise', f'{type(e).__name__}: {e}')
        if ans == 'none':
            m = None if lib[0] == 'raise' else 'Lean reader: raises; library: returns'
        elif not ans.startswith('ok '):
            m = f'driver answer {ans[:60]}'
        elif lib[0] == 'raise':
            m = f'Lean reader: returns; library raises {lib[1]}'
        else:
            v, rb, rr = ans[3:].rsplit(' ', 2)
            m = mismatch(json.loads(v), lib[1], c)
            if m is None and (('' if rb == '-' else rb) != lib[2] or int(rr) != lib[3]):
                m = f'rest of the slice: Lean {rb}/{rr}, library {lib[2]}/{lib[3]}'
        if m and c not in bad:
            bad[c] = m
            ctx.corr_broken(f'translator validation: regenerated reader of {c} and {c}.deserialize disagree on seed {s}: {m}')
    ctx.notes.append(f'source tie (account.py / block.py / config.py): translator validation on {len(items)} generated cells of '
                     f'{len(ok_classes)} classes, {len(bad)} disagreements')
    return bad


def theorem_check(ctx, check_value, P, n=4):
    """`c16_src_<T>` evaluated on generated values; the values on which it is false go to the property's oracle"""
    n = 100 if ctx.search else n
    found = 0
    for c, s, good, g in _gen(ctx, live(ctx), n):
        ctx.count('srcblk_theorem_evaluated')
        if good:
            continue
        ctx.count(f'srcblk_theorem_false:{c}')
        ty = PROVED[c][1]
        if found < 40 and ty in P:
            found += 1
            if check_value(ctx, P, ty, s, g, tag='srcblk'):
                ctx.corr_broken(f'{PROVED[c][2]} is false on seed {s} (Lean evaluation) but {c}.deserialize parses that value as encoded')
    return found
