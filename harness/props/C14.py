"""C14: TL serialisation inverts TL parsing and follows TL framing for the bundled schemas.

Tie = (a) translator: the schema table is regenerated from /repo on every run (registrator output cross-checked
against an independent TL-grammar parse); Lean recomputes every constructor id by CRC-32 and proves the wire /
round-trip theorems generically in the table; (b) correspondence of the compiled model with the library on
type-directed values for every covered constructor and on damaged inputs; (c) oracle on the library alone:
independent TL encoder, round trip, consumed == length."""
import copy
import itertools
import signal
import time
import zlib

from ..gen import tlvals as V
from ..translate import tl_table as TT
from ..translate import arith2
from . import c14_hist
from ..translate import tlengine as TE

SPEC = dict(
    manifest=dict(
        category='proof',
        text="The bundled lite-server/node/ADNL/tonlib schema table is regenerated from the library on every run (the library's own "
             "registrator, cross-checked against an independent TL-grammar parse). Lean recomputes the CRC-32 id of all 824 declarations "
             "(kernel evaluation) and proves, generically in any table satisfying the checked well-formedness conditions and for every "
             "well-typed value of every constructor with supported field types (all flag combinations, nesting, polymorphic objects, vectors, "
             "byte/text strings of every length): the modelled serialiser emits exactly the TL encoding, and the modelled parser returns the "
             "same value and consumes exactly the serialised bytes with auto-deserialisation off; with it on the parser returns "
             "normalize(v) - v with the content of every bytes/string field (untouchables of boxed objects excepted) run through the "
             "library's re-parse loop - consumes exactly the serialised bytes and raises exactly when normalize(v) is undefined (a string "
             "whose bytes start with a registered id); normalize(v) = v when no content starts with a registered id (decidable side "
             "condition); a content that is one / several serialised well-typed objects becomes that object's own normal form / the "
             "list of them. For tables without a cycle of bare references (checked for the bundled table: depth 5) recursion depth "
             "(len/4+1)(R+2) suffices for any input, so the auto round trip holds with that explicit budget; for every table a parse "
             "that returns keeps its result under any larger budget. The framing lemma holds "
             "for every string length; BlockIdExt byte/dict conversions are lossless and equal ids hash equally. The hand-written "
             "model is tied to the code by differential testing on every covered constructor, including contents built from nested "
             "objects, lists, foreign tails and strings with a registered prefix. The "
             "framing arithmetic of bytes/string fields and the vector-length guard are additionally re-translated from tl/generator.py on every "
             "run (Generated/TlFraming.lean): the `<= 253` test, the 1-byte and FE+3-byte little-endian headers, the zero padding to a multiple "
             "of 4 on serialising (c14_src_frame_tests), and on parsing the FE test, the declared length, the header size and the skip over content "
             "and padding (c14_src_read_tests) are proved for ALL lengths / inputs / offsets, the hand model's frame / readFrame are proved to be "
             "exactly their composition (c14_src_model_frame, c14_src_model_read), and the guard `length > len(data) - i` over Python ints is proved "
             "to be the model's test on the remaining input (c14_src_vector_guard). "
             "The SERIALISING ENGINE is regenerated as whole methods (Generated/TlEngine.lean, translator pydyn.py): TlSchemas.base_types, "
             "TlSchema.little_id, TlSchemas.serialize_field and TlSchemas.serialize become Lean functions over dynamically typed values, the "
             "records of the regenerated table and classified type strings, with open recursion tied by an explicit depth budget; Lean proves "
             "for ALL tables, constructors, values (well typed or not) and budgets that they equal the hand model's serObj / serArg "
             "(c14_src_serializer: isinstance dispatch, signed / unsigned `#`, the 253/254 framing boundary and padding, the OverflowError from "
             "2^24 bytes on, flags-conditional fields, vectors, bare vs boxed writing of the id, every raise), so c14_wire holds of the "
             "regenerated code (c14_src_wire) and the framing lemma of the regenerated serialize_field for every content (c14_src_string_lengths). "
             "BlockIdExt.__init__ / to_bytes / from_bytes / __eq__ / __hash__ of tl/block.py are regenerated the same way and proved equal to the "
             "model's toBytes / fromBytes / pyEq / pyHash for all ids, so the byte round trip and eq => same hash hold of the regenerated code "
             "(c14_src_blockid); BlockIdExt.to_dict / from_dict and BlockId.__init__ / to_dict / from_dict are regenerated too (__init__ read a second time "
             "with the dynamically typed arguments from_dict passes) and proved to be the model's toDict / fromDict for all ids and dicts, with both "
             "round trips and the masterchain shard for a missing shard (c14_src_blockid_dict). "
             "The PARSER TlSchemas.deserialize is regenerated too (one Lean definition per loop body: the call with the id lookup, the field "
             "loop with the flags test through bin(), the value of a field - fixed-size reads, bytes/string framing, the auto-deserialise "
             "branch with its `while j < byte_len` loop and the untouchables, vectors with the guard of fix 110bf4a and the one-field pseudo "
             "schema for base types, bare / boxed references): Lean proves for ALL byte strings (well formed or not), both modes, all depth "
             "budgets, all loop budgets from len(data)+2 on and EVERY schema table with distinct field names (checked for the bundled table, "
             "c14_table_args) that it equals the hand model's deserialize (c14_src_parser: same value, same consumed count, same decision to "
             "raise), so both round-trip theorems hold of regenerated deserialize after regenerated serialize (c14_src_roundtrip_plain, "
             "c14_src_roundtrip_auto), the framing reader of the regenerated code returns exactly the content and skips exactly the frame for "
             "every length below 2^24 (c14_src_string_lengths_reader), and no budget is ever the reason for a failure: the result with depth "
             "(len/4+1)(R+2) and len+2 loop iterations is the result with any larger budgets (c19_src_tl_total, Properties/C19Tl.lean, audited with C19).",
        level_note='Trusted: Lean kernel (propext, Classical.choice, Quot.sound), Spec/Tl.lean as the TL format, the table translator '
                   '(harness/translate/tl_table.py), the hand model Model/Tl.lean (tied by sampled correspondence, not by proof), Python '
                   'for the serialiser and the parser the hand model is now PROVED equal to the regenerated methods (trusted instead: the translator pydyn.py/pyobj.py, '
                   'PyTl.lean as the meaning of the Python operations, and the declared interface of tlengine.py: schema objects = table records, '
                   'type-string tests = their classification, fuel = recursion depth; validated against the library on ~4000 calls per change); '
                   'the parser (deserialize) is tied the same way (declared in addition: the untouchables are the '
                   'table\'s, the pseudo-schema call for a vector element of a base type does not count as a recursion level; ~5400 parses validated per change); '
                   'str.encode/decode = strict UTF-8, bytes.fromhex/hex inverse, tuple hash. Fuel = recursion depth: theorems hold for every '
                   'sufficiently large depth budget; normalize carries the same budget (its re-parses are the model parser on the content) and '
                   'is shown to be budget-independent from tlFuel on for tables without bare cycles; Python\'s own recursion limit is not '
                   'modelled. The vector rule of the spec asks for count <= encoded length; shown to follow from the element types for every bundled vector field.',
        technique='Lean 4 proof (hand model generic in a schema table regenerated from source; serialiser and parser methods regenerated from source and proved '
                  'equal to the hand model for all inputs) + differential correspondence with the library + source-regenerated framing arithmetic',
    ),
    translators=[('tl schemas->Generated/TlTable.lean', TT.regenerate),
                 ('tl/generator.py bytes framing + vector guard->Generated/TlFraming.lean', arith2.regenerator('TlFraming')),
                 ('tl/generator.py serialiser + parser methods + tl/block.py BlockIdExt->Generated/TlEngine.lean', TE.regenerate)],
    design_ref='DESIGN.md §6 C14',
    rule='for every covered constructor >= 3 type-directed random canonical values (boundary-biased ints, strings/bytes at lengths '
         '{0..4,252..257,65535 (thorough 2^24-1)} plus a sweep of every length 0..300, nested/polymorphic objects to depth 3, vectors of '
         '0/1/many, all flag combinations for <= 6 conditional fields, sampled above); each serialised by the library, compared with an '
         'independent TL encoder, parsed back in both auto-deserialise modes, and run through the Lean model (serialize, deserialize in '
         'both modes, normalize); plus nested-object-in-bytes cases, auto-shape cases (bytes contents built from 1..4 serialised objects, '
         'foreign tails, empty, nesting to depth 3, with an independently computed expected result; strings starting with a registered '
         'id must raise), damaged inputs (model vs library only) and BlockId/BlockIdExt helpers; distinct = distinct (constructor, value); '
         'non-trivial = the constructor has at least one field',
    lean_targets=['TonVerif.Proofs.SrcTlEngine', 'TonVerif.Proofs.SrcTlParser'],
    trusted_base=['harness/translate/pydyn.py + pyobj.py + tlengine.py (methods of the TL engine -> Lean; declared interface) and lean/TonVerif/PyTl.lean (meaning of the dynamic-value / type-string / to_bytes operations)',
                  'harness/translate/tl_table.py (table generator, replays the type tests of serialize_field/deserialize)',
                  'Spec/Tl.lean is the TL binary format', 'Model/Tl.lean mirrors generator.py/block.py by hand',
                  'harness/translate/pyarith.py + arith.py/arith2.py and lean/TonVerif/PyBytes.lean + PyBytes2.lean (Python statements / bytes operations -> Lean) for the c14_src_* theorems',
                  'harness/gen/tlvals.py: generators, independent encoder, token syntax'],
    assumptions=['correspondence is sampled differential testing', 'str.encode/decode are strict UTF-8 and inverse on valid strings',
                 'bytes.fromhex(x.hex()) == x', "Python's hash of a tuple is a function of the tuple's value"],
)

_W = None


def world():
    global _W
    if _W is None:
        _W = V.World()
    return _W


def _call(f, *a, **k):
    try:
        return ('ok', f(*a, **k))
    except RecursionError:
        return ('err', 'RecursionError')
    except Exception as e:  # every exception == err
        return ('err', type(e).__name__ + ': ' + str(e)[:80])


class Slow(BaseException):
    pass


def _alarm(signum, frame):
    raise Slow()


MODEL = object()    # expect_auto: no independent expectation (replays) - only compare the library with Lean's normalize / parser
RAISES = object()   # expect_auto: the documented quirk - the auto round trip of this value raises (normalize = none)

CAP = 4.0       # wall-clock cap per library call on damaged / adversarial input (guards the harness itself)


def lib_deser(W, data, auto, cap=None):
    """-> ('ok', (value, consumed)) | ('err', text) | ('slow', seconds)"""
    W.lib._auto_deserialize = auto
    old = None
    if cap:
        old = signal.signal(signal.SIGALRM, _alarm)
        signal.setitimer(signal.ITIMER_REAL, cap)
    t0 = time.time()
    try:
        return _call(W.lib.deserialize, data)
    except Slow:
        return ('slow', time.time() - t0)
    finally:
        if cap:
            signal.setitimer(signal.ITIMER_REAL, 0)
            signal.signal(signal.SIGALRM, old)
        W.lib._auto_deserialize = True


class Batch:
    """deferred model requests with a per-answer callback."""

    def __init__(self, ctx):
        self.ctx = ctx
        self.items = []
        self.size = 0

    def add(self, line, cb):
        if not self.ctx.driver_ok:
            return
        self.items.append((line, cb))
        self.size += len(line)
        if len(self.items) >= 4000 or self.size > 30_000_000:
            self.flush()

    def flush(self):
        items, self.items, self.size = self.items, [], 0
        if not items:
            return
        outs = self.ctx.model.run([x[0] for x in items])
        for (line, cb), out in zip(items, outs):
            cb(out, line)


def jin(W, c, v, extra=None):
    d = {'ctor': c['name'], 'ctor_index': c['idx'], 'value': v}
    if extra:
        d.update(extra)
    return d


def check_value(ctx, W, B, c, v, tag, modes=(False, True), expect_auto=None, model=True):
    """the property on one (constructor, canonical value)."""
    ctx.case((c['idx'], repr(v)), nontrivial=bool(c['args']), sample={'ctor': c['name'], 'value': v, 'tag': tag})
    ctx.count('values')
    inp = jin(W, c, v, {'tag': tag})
    schema = W.lib.list[c['idx']]
    st, ser = _call(W.lib.serialize, schema, copy.deepcopy(v))
    enc = V.enc_obj(W, c, v, True)
    if st != 'ok':
        ctx.fail(f'ser-raised:{c["name"]}', 'serialize raised on a well-typed value', inp, ser, enc.hex()[:400])
        return None
    if ser != enc:
        k = next((i for i in range(min(len(ser), len(enc))) if ser[i] != enc[i]), min(len(ser), len(enc)))
        ctx.fail(f'wire:{c["name"]}', f'serialised bytes differ from the TL encoding (first difference at byte {k})', inp,
                 ser.hex()[:2000], enc.hex()[:2000])
        return None
    big = len(ser) > 3_000_000
    tok = None
    if model and not big:
        tok = V.tok_obj(W, c, v)

        def cb_ser(out, line, ser=ser, inp=inp):
            if out != 'ok ' + (ser.hex() or '-'):
                ctx.corr_broken(f'tlser: model={out[:200]} library=ok {ser.hex()[:200]} ctor={inp["ctor"]} request={line[:300]}')
                ctx.count('driver_disagreements')
        B.add(f'tlser {c["idx"]} {tok}', cb_ser)
    for auto in modes:
        st, r = lib_deser(W, ser + b'', auto)
        want = v if (not auto or expect_auto is None) else expect_auto
        mode = 'auto' if auto else 'plain'
        if auto and model and not big:
            # c14_roundtrip_auto evaluated on the library: Lean's normalize(v) is what the library returns (both may raise)
            def cb_norm(out, line, st=st, r=r, inp=inp):
                if st != 'ok':
                    ok = out == 'err'
                else:
                    ok = False
                    if out.startswith('ok '):
                        try:
                            ok = r[1] == len(ser) and V.same(V.parse_tok(W, out[3:]), r[0])
                        except Exception:
                            ok = False
                if not ok:
                    ctx.corr_broken(f'tlnorm: model={out[:300]} library={str(r)[:300]} ctor={inp["ctor"]} request={line[:300]}')
                    ctx.count('driver_disagreements')
            B.add(f'tlnorm {c["idx"]} {tok}', cb_norm)
        if want is MODEL:
            if model and not big:
                def cb_m(out, line, st=st, r=r, inp=inp):
                    ok = out == 'err' if st != 'ok' else False
                    if st == 'ok' and out.startswith('ok '):
                        try:
                            t, cn = out[3:].rsplit(' ', 1)
                            ok = int(cn) == r[1] and V.same(V.parse_tok(W, t), r[0])
                        except Exception:
                            ok = False
                    if not ok:
                        ctx.corr_broken(f'tldeser-auto: model={out[:300]} library={str(r)[:300]} ctor={inp["ctor"]}')
                B.add(f'tldeser {ser.hex()} 1', cb_m)
            continue
        if want is RAISES:
            ctx.count('auto:raises-as-documented' if st != 'ok' else 'auto:documented-raise-did-not-happen')
            if model and not big:
                def cb_err(out, line, st=st, r=r, inp=inp):
                    if (out == 'err') != (st != 'ok'):
                        ctx.corr_broken(f'tldeser-auto(string with a registered prefix): model={out[:200]} library={str(r)[:200]} ctor={inp["ctor"]}')
                        ctx.count('driver_disagreements')
                B.add(f'tldeser {ser.hex()} 1', cb_err)
            continue
        if st != 'ok':
            ctx.fail(f'deser-raised-{mode}:{c["name"]}', 'deserialize raised on the serialisation of a well-typed value', inp, r, want)
            continue
        val, n = r
        if n != len(ser):
            ctx.fail(f'consumed-{mode}:{c["name"]}', 'deserialize did not consume exactly the serialised bytes', inp, n, len(ser))
            continue
        if not V.same(val, want):
            ctx.fail(f'roundtrip-{mode}:{c["name"]}', 'deserialize(serialize(v)) differs from ' +
                     ('v' if want is v else 'normalize(v) (contents built from known objects re-parsed as the loop should)'), inp, val, want)
            continue
        if model and not big:
            def cb_de(out, line, val=val, n=n, inp=inp, mode=mode):
                ok = False
                if out.startswith('ok '):
                    try:
                        t, cn = out[3:].rsplit(' ', 1)
                        ok = int(cn) == n and V.same(V.parse_tok(W, t), val)
                    except Exception:
                        ok = False
                if not ok:
                    ctx.corr_broken(f'tldeser-{mode}: model={out[:300]} library={str((val, n))[:300]} ctor={inp["ctor"]}')
                    ctx.count('driver_disagreements')
            B.add(f'tldeser {ser.hex()} {1 if auto else 0}', cb_de)
    # trailing bytes are left alone (consumed stays the same)
    st, r = lib_deser(W, ser + b'\x01\x02\x03\x04\x05', False)
    if st != 'ok' or r[1] != len(ser) or not V.same(r[0], v):
        ctx.fail(f'trailing:{c["name"]}', 'parsing serialisation followed by other bytes changed the result / consumed count', inp, r, (v, len(ser)))
    return ser


def damaged(ctx, W, B, ser, c):
    """model vs library on a damaged serialisation (no property claim: any agreement is fine)."""
    rng = ctx.rng
    k = rng.randrange(4)
    if ctx.stats.get('slow_calls', 0) >= 3:
        return
    d = bytearray(ser)
    if k == 0 and len(d) > 4:
        d = d[:rng.randrange(4, len(d))]
    elif k == 1 and len(d) > 4:
        p = rng.randrange(4, len(d))
        d[p] = rng.choice([0, 1, 0xfe, 0xff, d[p] ^ (1 << rng.randrange(8))])
    elif k == 2 and len(d) > 4:
        p = rng.randrange(4, len(d))
        d[p:p] = rng.randbytes(rng.choice([1, 3, 4]))
    else:
        d = bytearray(rng.randbytes(4)) + d[4:]
    d = bytes(d)
    if len(d) > 100_000:
        return
    for auto in (False, True):
        st, r = lib_deser(W, d, auto, cap=CAP)
        if st == 'slow':
            ctx.count('slow_calls')
            ctx.fail(f'slow:{c["name"]}', f'deserialize did not finish within {CAP:.0f}s on {len(d)} bytes (work not bounded by the input)',
                     {'data': d.hex(), 'auto': auto}, f'> {CAP:.0f}s', 'fast')
            return
        ctx.count('damaged')
        if st == 'err' and 'RecursionError' in r:
            continue

        def cb(out, line, st=st, r=r, auto=auto, d=d):
            if st == 'err':
                ok = out == 'err'
            else:
                ok = False
                if out.startswith('ok '):
                    try:
                        t, cn = out[3:].rsplit(' ', 1)
                        ok = int(cn) == r[1] and V.same(V.parse_tok(W, t), r[0])
                    except Exception:
                        ok = False
            if not ok:
                ctx.corr_broken(f'tldeser(damaged, auto={auto}): model={out[:300]} library={str(r)[:300]} data={d.hex()[:300]}')
                ctx.count('driver_disagreements')
        B.add(f'tldeser {d.hex() or "-"} {1 if auto else 0}', cb)


def check_ids(ctx, W):
    """the id the code computed == CRC-32 of the independently normalised declaration (or the explicit id)."""
    for c in W.ctors:
        want = int(c['explicit'], 16) if c['explicit'] else zlib.crc32(c['decl'].encode())
        ctx.case(('id', c['idx']), nontrivial=True)
        if c['id'] != want:
            ctx.fail(f'id:{c["name"]}', 'constructor id is not the CRC-32 of the normalised declaration', {'decl': c['decl']},
                     f'{c["id"]:08x}', f'{want:08x}')
        lib = W.lib.list[c['idx']]
        if lib.little_id() != c['id'].to_bytes(4, 'little'):
            ctx.fail(f'little_id:{c["name"]}', 'little_id() is not the reversed id', {'decl': c['decl']}, lib.little_id().hex(), '')


def check_lookup(ctx, W):
    """get_by_name / get_by_id / get_by_class_name agree with the table model."""
    for c in W.ctors:
        a = W.lib.get_by_name(c['name'])
        b = W.lib.get_by_id(c['id'].to_bytes(4, 'little'), 'little')
        if a is None or a.name != c['name'] or b is None or b.id != c['id'].to_bytes(4, 'big'):
            ctx.fail(f'lookup:{c["name"]}', 'get_by_name/get_by_id do not find the constructor', {'ctor': c['name']}, str((a, b)), c['name'])


def nested_in_bytes(ctx, W, B):
    """auto-deserialisation: a bytes field holding 1 / 2 serialised objects, and the untouchables."""
    rng = ctx.rng
    hosts = [c for c in W.ctors if W.fully_typed(c) and W.canonical(c) and
             any(a['ety'] == ('base', 'bytes') and not a['vec'] and a['cond'] is None for a in c['args'])]
    inner_pool = [c for c in W.ctors if W.covered(c) and W.canonical(c)]
    for _ in range(ctx.n(400, 2000)):
        host = rng.choice(hosts)
        v = V.gen_obj(W, rng, host, 0, {'depth': 1, 'big': False})
        fields = [a for a in host['args'] if a['ety'] == ('base', 'bytes') and not a['vec'] and a['cond'] is None]
        a = rng.choice(fields)
        k = rng.choice([1, 1, 2, 3])
        inners = []
        for _ in range(k):
            ic = rng.choice(inner_pool)
            iv = V.gen_obj(W, rng, ic, 0, {'depth': 1, 'big': False})
            inners.append((ic, iv))
        content = b''.join(V.enc_obj(W, ic, iv, True) for ic, iv in inners)
        v[a['field']] = content
        untouch = (host['name'], a['field']) in {(n, f) for n, fs in W.lib.untouchables.items() for f in fs}
        if untouch:
            exp_field = content
            ctx.count('auto:untouchable')
        elif k == 1:
            exp_field = inners[0][1]
            ctx.count('auto:one-object')
        else:
            exp_field = [iv for _, iv in inners]
            ctx.count('auto:list')
        exp = dict(v)
        exp[a['field']] = exp_field
        check_value(ctx, W, B, host, v, 'nested-in-bytes', expect_auto=exp)


def _untouchable(W, c, field):
    return field in W.lib.untouchables.get(c['name'], ())


def _bytes_fields(c, v):
    return [a for a in c['args'] if a['ety'] == ('base', 'bytes') and not a['vec'] and a['field'] in v]


def auto_obj(ctx, W, rng, c, depth, pools):
    """a canonical value of c in which one bytes field (if any) holds a constructed content, and what the auto round
    trip must turn it into (independent transcription of the re-parse loop for contents built from known parts)."""
    v = V.gen_obj(W, rng, c, 0, {'depth': 1, 'big': False})
    exp = dict(v)
    fields = _bytes_fields(c, v)
    if fields and depth > 0:
        a = rng.choice(fields)
        content, e = auto_content(ctx, W, rng, depth, pools)
        v[a['field']] = content
        exp[a['field']] = content if _untouchable(W, c, a['field']) else e
    return v, exp


def auto_content(ctx, W, rng, depth, pools):
    kind = rng.choice(['one', 'one', 'many', 'tail', 'tail', 'plain', 'empty', 'deep'])
    ctx.count('auto-shape:' + kind)
    if kind == 'plain':
        b = V.rand_bytes(W, rng, rng.randrange(1, 12))
        return b, b
    if kind == 'empty':
        return b'', b''
    k = {'one': 1, 'deep': 1, 'many': rng.choice([2, 3, 4]), 'tail': rng.choice([1, 2])}[kind]
    parts, exps = [], []
    for _ in range(k):
        ic = rng.choice(pools[1] if kind == 'deep' else pools[0])
        iv, iexp = auto_obj(ctx, W, rng, ic, depth - 1, pools)
        parts.append(V.enc_obj(W, ic, iv, True))
        exps.append(iexp)
    if kind == 'tail':                                  # bytes of an unknown id after the objects stay bytes in the list
        junk = V.rand_bytes(W, rng, rng.randrange(1, 9))
        parts.append(junk)
        exps.append(junk)
    return b''.join(parts), (exps[0] if len(exps) == 1 else exps)


def auto_shapes(ctx, W, B):
    """the general auto-deserialise statement (c14_roundtrip_auto / c14_reparse_objects): contents that DO start with a
    registered id - one object, several, objects followed by foreign bytes, nesting to depth 3 - and strings that start
    with a registered id (the call raises)."""
    rng = ctx.rng
    hosts = [c for c in W.ctors if W.fully_typed(c) and W.canonical(c) and
             any(a['ety'] == ('base', 'bytes') and not a['vec'] and a['cond'] is None for a in c['args'])]
    pool = [c for c in W.ctors if W.covered(c) and W.canonical(c)]
    pools = (pool, hosts)
    for _ in range(ctx.n(300, 3000)):
        host = rng.choice(hosts)
        v, exp = auto_obj(ctx, W, rng, host, 3, pools)
        check_value(ctx, W, B, host, v, 'auto-shape', expect_auto=exp)
    # contents SHORTER than a constructor id that are the leading bytes of a registered id whose remaining bytes are zero
    # (ids below 2^24 / 2^16 exist in the bundled schemas): fewer than 4 bytes can never be an object - they stay bytes
    short = []
    for c in W.ctors:
        le = c['id'].to_bytes(4, 'little')
        for k in (3, 2, 1):
            if le[k:] == bytes(4 - k) and any(le[:k]):
                short.append(le[:k])
    short = sorted(set(short))
    ctx.count('short_id_prefixes', len(short))
    for pre in short[:ctx.n(12, 60)] + [b'', b'\x00', b'\x00\x00\x00']:
        for host in rng.sample(hosts, min(3, len(hosts))):
            v = V.gen_obj(W, rng, host, 0, {'depth': 1, 'big': False})
            a = rng.choice([a for a in host['args'] if a['ety'] == ('base', 'bytes') and not a['vec'] and a['cond'] is None])
            v[a['field']] = pre
            check_value(ctx, W, B, host, v, 'bytes-shorter-than-an-id')
    # strings: ids whose four little-endian bytes are ASCII letters/digits
    ascii_ids = [c['id'].to_bytes(4, 'little') for c in W.ctors if all(0x20 <= x < 0x7f for x in c['id'].to_bytes(4, 'little'))]
    shosts = [c for c in W.ctors if W.fully_typed(c) and W.canonical(c) and
              any(a['ety'] == ('base', 'string') and not a['vec'] and a['cond'] is None for a in c['args'])]
    ctx.count('ascii_ids', len(ascii_ids))
    if ascii_ids and shosts:
        for _ in range(ctx.n(40, 400)):
            host = rng.choice(shosts)
            v = V.gen_obj(W, rng, host, 0, {'depth': 1, 'big': False})
            a = rng.choice([a for a in host['args'] if a['ety'] == ('base', 'string') and not a['vec'] and a['cond'] is None])
            v[a['field']] = rng.choice(ascii_ids).decode() + ''.join(rng.choice('abc 019') for _ in range(rng.randrange(0, 12)))
            check_value(ctx, W, B, host, v, 'string-with-registered-prefix', expect_auto=RAISES)


def check_blockid(ctx, W, B):
    from pytoniq_core.tl.block import BlockId, BlockIdExt
    rng = ctx.rng
    for _ in range(ctx.n(300, 5000)):
        wc = V.rand_int(rng, -2 ** 31, 2 ** 31)
        sh = V.rand_int(rng, -2 ** 63, 2 ** 63)
        sq = V.rand_int(rng, -2 ** 31, 2 ** 31)
        rh, fh = rng.randbytes(32), rng.choice([rng.randbytes(32), bytes(32)])
        inp = {'workchain': wc, 'shard': sh, 'seqno': sq, 'root_hash': rh.hex(), 'file_hash': fh.hex()}
        ctx.case(('blockidext', wc, sh, sq, rh, fh), sample=inp)
        ctx.count('blockid')
        a = BlockIdExt(wc, sh, sq, rh, fh)
        st, bs = _call(a.to_bytes)
        want = wc.to_bytes(4, 'big', signed=True) + sh.to_bytes(8, 'big', signed=True) + sq.to_bytes(4, 'big', signed=True) + rh + fh
        if st != 'ok' or bs != want:
            ctx.fail('blockid:to_bytes', 'BlockIdExt.to_bytes is not wc|shard|seqno|root|file big-endian', inp, bs if st != 'ok' else bs.hex(), want.hex())
            continue
        st, b = _call(BlockIdExt.from_bytes, bs)
        if st != 'ok' or not (b == a) or (b.workchain, b.shard, b.seqno, b.root_hash, b.file_hash) != (wc, sh, sq, rh, fh):
            ctx.fail('blockid:from_bytes', 'from_bytes(to_bytes(b)) != b', inp, repr(b), repr(a))
            continue
        st, d = _call(lambda: BlockIdExt.from_dict(a.to_dict()))
        if st != 'ok' or not (d == a) or d.root_hash != rh or a.to_dict() != inp:
            ctx.fail('blockid:dict', 'from_dict(to_dict(b)) != b', inp, repr(d), repr(a))
            continue
        st, h = _call(lambda: (hash(a), hash(b), hash(d)))
        if st != 'ok' or not isinstance(h[0], int) or h[0] != h[1] or h[0] != h[2]:
            ctx.fail('blockid:hash', 'equal BlockIdExt values do not hash equally / hash is not an int', inp, h, 'equal ints')
            continue
        st, r = _call(lambda: {a: 1, BlockIdExt(wc, sh, sq ^ 1, rh, fh): 2}[b])
        if st != 'ok' or r != 1:
            ctx.fail('blockid:dictkey', 'BlockIdExt not usable as a dict key', inp, r, 1)
        # __eq__ / __hash__ consistency: ids differing in one field are different keys; whatever compares equal hashes equally
        others = [BlockIdExt(wc ^ 1, sh, sq, rh, fh), BlockIdExt(wc, sh ^ 1, sq, rh, fh), BlockIdExt(wc, sh, sq ^ 1, rh, fh),
                  BlockIdExt(wc, sh, sq, bytes([rh[0] ^ 1]) + rh[1:], fh), BlockIdExt(wc, sh, sq, rh, fh[:-1] + bytes([fh[-1] ^ 1]))]
        for o in others:
            st, r = _call(lambda: (a == o, hash(a) == hash(o), {a: 1, o: 2}[a]))
            if st != 'ok' or r[0] or r[2] != 1:
                ctx.fail('blockid:eq', 'BlockIdExt values differing in one field compare equal / collide as dict keys', inp, (repr(o), r), 'different keys')
                break
        s = BlockId(wc, sh, sq)
        st, r = _call(lambda: BlockId.from_dict(s.to_dict()))
        if st != 'ok' or (r.workchain, r.shard, r.seqno) != (wc, sh, sq) or s.to_dict() != {'workchain': wc, 'shard': sh, 'seqno': sq}:
            ctx.fail('blockid:short-dict', 'BlockId.from_dict(to_dict(b)) loses a field', inp, repr(r), (wc, sh, sq))
        st, r = _call(lambda: {s: 7}[s])
        if st != 'ok' or r != 7:
            ctx.fail('blockid:short-key', 'BlockId not usable as a dict key', inp, r, 7)
        ctx.expect_model(f'tlblk tobytes {wc} {sh} {sq} {rh.hex()} {fh.hex()}', 'ok ' + bs.hex(), 'BlockIdExt.to_bytes')
        ctx.expect_model(f'tlblk frombytes {bs.hex()}', f'ok {wc} {sh} {sq} {rh.hex()} {fh.hex()}', 'BlockIdExt.from_bytes')
    # the TL object form of a block id goes through the schema as well
    c = W.by_name['tonNode.blockIdExt']
    a = BlockIdExt(-1, None, 5, bytes(range(32)), bytes(range(32, 64)))
    v = dict(a.to_dict(), **{'@type': 'tonNode.blockIdExt'})
    def via_tl():
        back = W.lib.deserialize(W.lib.serialize(W.lib.list[c['idx']], v))[0]
        back.pop('@type')
        return BlockIdExt.from_dict(back)
    st, r = _call(via_tl)
    if st != 'ok' or not (r == a):
        ctx.fail('blockid:tl', 'BlockIdExt -> dict -> TL -> dict -> BlockIdExt changed the id', v, repr(r), a.to_dict())
    # a missing / None shard is the masterchain shard 0x8000000000000000 (c14_src_blockid_dict, last clause), for both classes and both entry points
    short = {'workchain': -1, 'seqno': 5, 'root_hash': bytes(range(32)).hex(), 'file_hash': bytes(32).hex()}
    st, r = _call(lambda: (BlockIdExt(-1, None, 5, bytes(32), bytes(32)).shard, BlockIdExt.from_dict(dict(short)).shard, BlockId(-1, None, 5).shard,
                           BlockId.from_dict({'workchain': -1, 'seqno': 5}).shard))
    ctx.case(('blockid-default-shard',), nontrivial=True)
    if st != 'ok' or r != (-2 ** 63,) * 4:
        ctx.fail('blockid:default-shard', 'a block id built without a shard does not get the masterchain shard -2^63', short, r, (-2 ** 63,) * 4)


def check_crc(ctx, W):
    rng = ctx.rng
    datas = [b'', b'123456789'] + [rng.randbytes(rng.randrange(1, 200)) for _ in range(40)]
    for d in datas:
        ctx.expect_model(f'tlcrc {d.hex() or "-"}', f'ok {zlib.crc32(d)}', 'CRC-32 of the Lean spec vs zlib')
    for n in [0, 1, 253, 254, 255, 1000]:
        d = rng.randbytes(n)
        ctx.expect_model(f'tlframe {d.hex() or "-"}', 'ok ' + V.frame(d).hex(), 'Spec.encodeBytes vs the harness framing')


def string_sweep(ctx, W, B):
    """every length 0..300 (all residues, both sides of 253/254) and the boundary list, for a bytes and a string field."""
    targets = [(W.by_name['liteServer.sendMessage'], 'body', 'bytes'), (W.by_name['liteServer.error'], 'message', 'string'),
               (W.by_id[0x184614d1], 'data', 'string'), (W.by_name['testVectorBytes'], 'value', 'vecbytes'),
               (W.by_name['http.server.host'], 'domains', 'vecstring')]
    lens = list(range(0, 301)) + list(range(65530, 65543))
    if ctx.thorough:
        lens += [V.LEN_MAX - 1, V.LEN_MAX]
    for c, f, kind in targets:
        for n in lens:
            if kind.startswith('vec') and n > 70000:
                continue
            if n > 70000 and kind != 'bytes':
                continue
            v = V.gen_obj(W, ctx.rng, c, 0, {'depth': 1, 'big': False})
            if kind == 'bytes':
                v[f] = V.rand_bytes(W, ctx.rng, n)
            elif kind == 'string':
                v[f] = V.rand_str(W, ctx.rng, n)
            elif kind == 'vecbytes':
                v[f] = [V.rand_bytes(W, ctx.rng, n), b'', V.rand_bytes(W, ctx.rng, (n * 7) % 300)]
            else:
                v[f] = [V.rand_str(W, ctx.rng, n), '']
            ctx.count(f'sweep:{kind}')
            ctx.count('len%4=' + str(n % 4))
            check_value(ctx, W, B, c, v, f'string-sweep len={n}', model=(n <= 300 or n == 65535))


def src_search(ctx, W, B):
    """Search mode only: logs the points where the regenerated framing arithmetic (Generated/TlFraming.lean) differs from the model's,
    then runs the string sweep (every length 0..300 and the 2^16 boundary, bytes / string / vectors of them: independent encoder and
    round trip on the library) before anything else.  True = a concrete failing input was found."""
    arith2.search_points(ctx, ['TlFraming'])
    n0 = len(ctx.failures)
    # regenerated serialiser vs hand model, evaluated by Lean on type-directed values of every covered constructor (all flag combinations of
    # small constructors, vectors of 0/1/many, strings around 253/254): the differing values go through the oracle first
    rng = ctx.rng
    pairs = []
    for c in [c for c in W.ctors if W.covered(c)]:
        conds = V.cond_bits(c)
        combos = list(itertools.product([False, True], repeat=len(conds))) if 0 < len(conds) <= 3 else [None]
        for k, combo in enumerate(combos + [None, None]):
            o = {'depth': 2, 'big': False, 'lens': [0, 1, 3, 252, 253, 254, 255, 256, 257]}
            if k == 1:
                o['veclen'] = 0
            pairs.append((c, V.gen_obj(W, rng, c, 0, o, combo=combo)))
    for c, v in TE.diff_values(ctx, W, pairs)[:40]:
        check_value(ctx, W, B, c, v, 'source-diff')
    B.flush()
    if len(ctx.failures) > n0:
        return True
    # bytes contents built from 1..3 serialised objects (the re-parse loop): regenerated parser vs model parser, differing ones to the oracle
    shaped = []
    hosts = [c for c in W.ctors if W.fully_typed(c) and W.canonical(c) and not any(_untouchable(W, c, a['field']) for a in c['args']) and
             any(a['ety'] == ('base', 'bytes') and not a['vec'] and a['cond'] is None for a in c['args'])]
    pool = [c for c in W.ctors if W.covered(c) and W.canonical(c)]
    for k in range(60):
        host = rng.choice(hosts)
        v = V.gen_obj(W, rng, host, 0, {'depth': 1, 'big': False})
        a = rng.choice([a for a in host['args'] if a['ety'] == ('base', 'bytes') and not a['vec'] and a['cond'] is None])
        inners = []
        for _ in range(1 + k % 3):
            ic = rng.choice(pool)
            inners.append((ic, V.gen_obj(W, rng, ic, 0, {'depth': 1, 'big': False})))
        v[a['field']] = b''.join(V.enc_obj(W, ic, iv, True) for ic, iv in inners)
        exp = dict(v)
        exp[a['field']] = inners[0][1] if len(inners) == 1 else [iv for _, iv in inners]
        shaped.append((host, v, exp))
    hit = TE.diff_values(ctx, W, [(h, v) for h, v, _ in shaped])
    for h, v, exp in shaped:
        if any(v is v2 for _, v2 in hit):
            check_value(ctx, W, B, h, v, 'nested-in-bytes', expect_auto=exp)
    B.flush()
    if len(ctx.failures) > n0:
        return True
    # nothing found on the boundary values: the whole validation corpus (2-3 values of every covered constructor), its serialisations whole,
    # with a tail, cut and with a changed last byte, regenerated parser vs model parser; differing values go to the round-trip / wire oracle
    try:
        corpus = TE.validation_values(W)
    except Exception as e:
        corpus = []
        ctx.notes.append(f'source-diff search: validation corpus not available: {type(e).__name__}: {str(e)[:120]}')
    for c, v in TE.diff_values(ctx, W, corpus, damaged=True)[:40]:
        check_value(ctx, W, B, c, v, 'source-diff')
        try:
            damaged(ctx, W, B, W.lib.serialize(W.lib.list[c['idx']], copy.deepcopy(v)), c)
        except Exception:
            pass
    B.flush()
    if len(ctx.failures) > n0:
        return True
    string_sweep(ctx, W, B)
    B.flush()
    return len(ctx.failures) > n0


def run(ctx):
    W = world()
    B = Batch(ctx)
    rng = ctx.rng
    if ctx.search and src_search(ctx, W, B):
        return
    for d in W.meta.get('disagreements', []):
        # the library's registry and the .tl text disagree about a constructor: the oracle below exercises it with values typed
        # by the TEXT; if that finds no failing value the obligation (table = grammar) is still broken
        ctx.corr_broken('registry vs TL grammar: ' + d)
    cov = [c for c in W.ctors if W.covered(c)]
    ctx.count('constructors_total', len(W.ctors))
    ctx.count('constructors_supported_field_types', sum(1 for c in W.ctors if W.supported(c)))
    ctx.count('constructors_covered', len(cov))
    ctx.count('constructors_covered_all_fields_typable', sum(1 for c in W.ctors if W.fully_typed(c)))
    ctx.notes.append('not covered: ' + ', '.join(sorted({c['name'] for c in W.ctors if not W.covered(c)})))
    ctx.notes.append('non-canonical (shadowed by a later declaration of the same name; still round-trips at top level): ' +
                     ', '.join(sorted({f"{c['name']}#{c['id']:08x}" for c in cov if not W.canonical(c)})))
    check_ids(ctx, W)
    check_lookup(ctx, W)
    check_crc(ctx, W)
    per = ctx.n(6, 30)
    opts = {'depth': 3, 'lens': V.LENS_QUICK}
    sers = []
    for c in cov:
        conds = V.cond_bits(c)
        combos = []
        if conds:
            if len(conds) <= 6:
                combos = list(itertools.product([False, True], repeat=len(conds)))
                ctx.count('flag_combos_exhaustive', len(combos))
            else:
                combos = [tuple(rng.random() < 0.5 for _ in conds) for _ in range(ctx.n(40, 400))] + [tuple([True] * len(conds)), tuple([False] * len(conds))]
                ctx.count('flag_combos_sampled', len(combos))
        todo = [None] * per + combos
        for k, combo in enumerate(todo):
            o = dict(opts)
            if k == 1:
                o['veclen'] = 0
            if k == 2:
                o['veclen'] = 1
            v = V.gen_obj(W, rng, c, 0, o, combo=combo)
            ser = check_value(ctx, W, B, c, v, 'random' if combo is None else 'flags')
            for a in c['args']:
                ctx.count('field:' + (('vec ' if a['vec'] else '') + (a['ety'][1] if a['ety'][0] == 'base' else a['ety'][0])) + ('?' if a['cond'] else ''))
            if ser is not None and k < 2:
                sers.append((ser, c))
    string_sweep(ctx, W, B)
    nested_in_bytes(ctx, W, B)
    auto_shapes(ctx, W, B)
    for ser, c in sers:
        damaged(ctx, W, B, ser, c)
    c14_hist.history_after_refusals(ctx, W)       # same object, same question, after bursts of refused calls
    check_blockid(ctx, W, B)
    # F16 shape: declared vector length far beyond the input must fail fast
    c = W.by_name['liteServer.signatureSet']
    d = c['id'].to_bytes(4, 'little') + (1).to_bytes(4, 'little') + (2).to_bytes(4, 'little') + (2 ** 22).to_bytes(4, 'little')
    st, r = lib_deser(W, d, True, cap=CAP)
    if st == 'slow':
        ctx.fail('slow:vector-length', f'vector length 2^22 over 0 remaining bytes did not finish within {CAP:.0f}s', {'data': d.hex()}, f'> {CAP:.0f}s', 'fast')
    B.add(f'tldeser {d.hex()} 1', lambda out, line: None if (out == 'err') == (st == 'err') else ctx.corr_broken(f'vector bound: model {out} library {st}'))
    B.flush()
    bool_flags(ctx, B)


def bool_flags(ctx, B):
    """a flags word that is a Bool (`bin(True)` = '0b1', a bool is an int): model vs library on a table of its own (Drv/Tl.lean boolFlagTable)"""
    for d in TE.bool_flag_inputs():
        try:
            want = 'ok' + TE.bool_flag_expected(d)
        except Exception:
            want = 'err'
        ctx.case(('bool-flags', d.hex()), nontrivial=True)
        ctx.count('bool-flags:' + want[:2])
        B.add(f'tldeserx {d.hex()} 1', lambda out, line, want=want, d=d: None if out == want else
              ctx.corr_broken(f'tldeserx (Bool flags word): model={out[:120]} library={want[:120]} data={d.hex()}'))
    B.flush()


def replay(ctx, payload):
    W = world()
    B = Batch(ctx)
    inp = payload.get('input') or {}
    if isinstance(inp, dict) and 'after_refused_calls_of_kind' in inp:
        c14_hist.history_after_refusals(ctx, W)   # a history: re-run the probe (deterministic for the seed)
    elif isinstance(inp, dict) and 'ctor_index' in inp:
        v = _unjson(inp['value'])
        shaped = inp.get('tag') in ('auto-shape', 'nested-in-bytes', 'string-with-registered-prefix')
        check_value(ctx, W, B, W.ctors[inp['ctor_index']], v, 'replay', expect_auto=MODEL if shaped else None)
    elif isinstance(inp, dict) and 'decl' in inp:
        check_ids(ctx, W)
    elif isinstance(inp, dict) and 'workchain' in inp:
        check_blockid(ctx, W, B)
    B.flush()


def _unjson(x):
    if isinstance(x, dict):
        if set(x.keys()) == {'hex'}:
            return bytes.fromhex(x['hex'])
        if set(x.keys()) == {'int'}:
            return int(x['int'])
        return {k: _unjson(v) for k, v in x.items()}
    if isinstance(x, list):
        return [_unjson(v) for v in x]
    return x


# ----------------------------------------------------------------------------- appended by strengthener st-nfif (round 10)
# Class "values that coincide with registered constructor ids / other magic numbers": a TL parser dispatches on 4-byte constructor ids
# (boxed objects, Bool, the auto-deserialise loop); an int / # / long / int128 / int256 / vector-int VALUE, or the content of a bytes
# field, may carry exactly those 4 bytes.  Patterns: every constructor id of the Bool type, a seeded sample of the other registered
# ids, the 4-byte bytes literals and wide int literals of the CURRENT tl/generator.py + tl/block.py (harness/gen/literals.py), each
# in both byte orders.  They are planted into EVERY int-like leaf (nested objects and vector elements included) of a type-directed
# value of every covered constructor, into the flags word where the pattern's bits agree with the fields present, and as the whole
# content of bytes fields; oracle = the usual one (independent encoder, round trip to the same value, consumed == length).
from ..gen import literals as LIT

TL_SOURCES = ['pytoniq_core/tl/generator.py', 'pytoniq_core/tl/block.py']


def magic_patterns(W, rng):
    """-> (bool patterns, other patterns): 4-byte strings as they appear on the wire"""
    def both(b):
        return [b, b[::-1]]
    bool_ids = sorted({c['id'] for c in W.by_class.get('Bool', [])}) or [int.from_bytes(V.BOOL_TRUE, 'little'), int.from_bytes(V.BOOL_FALSE, 'little')]
    bools = []
    for i in bool_ids:
        bools += both(i.to_bytes(4, 'little'))
    other = []
    ids = sorted({c['id'] for c in W.ctors} - set(bool_ids))
    for i in rng.sample(ids, min(24, len(ids))):
        other += both(i.to_bytes(4, 'little'))
    lits = LIT.source_literals(TL_SOURCES)
    for b in lits.bytes:
        if len(b) == 4:
            other += both(b)
    for i in lits.ints:
        if 16 < i.bit_length() <= 32:
            other += both((i % 2 ** 32).to_bytes(4, 'little'))
    seen, out = set(bools), []
    for b in other:
        if b not in seen:
            seen.add(b)
            out.append(b)
    return bools, out


def magic_leaf(rng, t, w):
    """a value of base type t whose wire bytes contain the 4-byte pattern w (whole value for int / #)"""
    if t == 'int':
        return int.from_bytes(w, 'little', signed=True)
    if t == 'nat':
        return int.from_bytes(w, 'little')
    if t == 'long':
        b = rng.choice([w + bytes(4), bytes(4) + w, w + w, w + rng.randbytes(4), rng.randbytes(4) + w, w + b'\xff' * 4])
        return int.from_bytes(b, 'little', signed=True)
    if t in ('int128', 'int256'):
        n = 16 if t == 'int128' else 32
        return rng.choice([w + bytes(n - 4), w * (n // 4), w + rng.randbytes(n - 4), bytes(n - 4) + w]).hex()
    return None


def plant_magic(W, rng, c, v, pick, stats, top=True):
    """replace every int-like leaf of value v of constructor c (flags words excepted) by pick(kind)"""
    flagvars = {a['cond'][0] for a in c['args'] if a['cond'] is not None}
    for a in c['args']:
        f = a['field']
        if f not in v or f in flagvars:
            continue
        e = a['ety']

        def one(x):
            if e[0] == 'base':
                m = magic_leaf(rng, e[1], pick(e[1])) if e[1] in ('int', 'nat', 'long', 'int128', 'int256') else None
                if m is None:
                    return x
                k = ('vec ' if a['vec'] else '') + e[1] + ('' if top else ' (nested)') + ('?' if a['cond'] else '')
                stats[k] = stats.get(k, 0) + 1
                return m
            if isinstance(x, dict):
                sub = W.by_name.get(x.get('@type', e[1] if e[0] == 'bare' else None))
                if sub is not None:
                    plant_magic(W, rng, sub, x, pick, stats, top=False)
            return x
        v[f] = [one(x) for x in v[f]] if a['vec'] else one(v[f])
    return v


def magic_flags(W, rng, c, w):
    """a value of c whose (single, top-level) flags word IS the pattern w, if the pattern's bits select fields that can be given"""
    bits = V.cond_bits(c)
    vars_ = {var for var, _ in bits}
    if len(vars_) != 1:
        return None
    var = next(iter(vars_))
    a0 = next((a for a in c['args'] if a['field'] == var), None)
    if a0 is None or a0['ety'] != ('base', 'nat') or a0['vec'] or a0['cond'] is not None:
        return None
    m = int.from_bytes(w, 'little')
    combo = tuple(bool((m >> bit) & 1) for _, bit in bits)
    v = V.gen_obj(W, rng, c, 0, {'depth': 2, 'big': False}, combo=combo)
    used = 0
    for _, bit in bits:
        used |= 1 << bit
    if (v[var] & used) != (m & used):
        return None
    v[var] = m
    return v


def magic_values(ctx, W, B):
    rng = ctx.rng
    bools, other = magic_patterns(W, rng)
    ctx.count('magic-patterns', len(bools) + len(other))
    cov = [c for c in W.ctors if W.covered(c)]
    intlike = ('int', 'nat', 'long', 'int128', 'int256')
    stats = {}
    for c in cov:
        if not any(a['ety'][0] != 'base' or a['ety'][1] in intlike for a in c['args']):
            continue
        counter = [c['idx']]

        def rr(kind):
            counter[0] += 1
            return bools[counter[0] % len(bools)]
        for k, pick in enumerate((rr, lambda kind: rng.choice(bools + other) if rng.random() < 0.8 else rng.choice(bools))):
            v = V.gen_obj(W, rng, c, 0, {'depth': 2, 'big': False, 'veclen': rng.choice([1, 2, 3])})
            n0 = sum(stats.values())
            plant_magic(W, rng, c, v, pick, stats)
            if sum(stats.values()) == n0:
                break
            ctx.count('magic-values')
            check_value(ctx, W, B, c, v, 'magic-int')
        # the flags word itself
        for w in bools + rng.sample(other, min(2, len(other))):
            v = magic_flags(W, rng, c, w)
            if v is not None:
                ctx.count('magic-flags-word')
                check_value(ctx, W, B, c, v, 'magic-flags')
    for k, n in stats.items():
        ctx.count('magic-leaf:' + k, n)
    # bytes whose whole content is a pattern (auto off: they stay bytes; auto on: what the re-parse loop makes of them = Lean's normalize)
    hosts = [c for c in cov if W.canonical(c) and any(a['ety'] == ('base', 'bytes') and a['cond'] is None for a in c['args'])]
    for w in bools + other:
        for host in rng.sample(hosts, min(2, len(hosts))):
            v = V.gen_obj(W, rng, host, 0, {'depth': 1, 'big': False, 'veclen': 2})
            a = rng.choice([a for a in host['args'] if a['ety'] == ('base', 'bytes') and a['cond'] is None])
            v[a['field']] = [w for _ in v[a['field']]] if a['vec'] else w
            ctx.count('magic-bytes')
            check_value(ctx, W, B, host, v, 'magic-bytes', expect_auto=MODEL)
    B.flush()


_run_before_magic = run
_replay_before_magic = replay


def run(ctx):
    if ctx.search:
        state = ctx.rng.getstate()      # the search streams that follow keep their own draws
        magic_values(ctx, world(), Batch(ctx))
        ctx.rng.setstate(state)
        if ctx.failures:
            return
        _run_before_magic(ctx)
        return
    _run_before_magic(ctx)
    magic_values(ctx, world(), Batch(ctx))


def replay(ctx, payload):
    inp = payload.get('input') or {}
    if isinstance(inp, dict) and 'ctor_index' in inp and inp.get('tag') == 'magic-bytes':
        W = world()
        B = Batch(ctx)
        check_value(ctx, W, B, W.ctors[inp['ctor_index']], _unjson(inp['value']), 'replay', expect_auto=MODEL)
        B.flush()
        return
    _replay_before_magic(ctx, payload)
SPEC['manifest']['text'] += (' MAGIC NUMBERS (sampled, every run): 4-byte patterns equal to the constructor ids of Bool, to a seeded sample of other registered ids '
                             'and to the 4-byte / wide-int literals of the current tl/generator.py and tl/block.py, in both byte orders, are planted into every '
                             'int-like leaf (int, #, long halves, int128/int256, vector elements, nested objects, conditional fields) of a value of every covered '
                             'constructor, into the flags word where its bits agree with the fields present, and as whole bytes contents; same oracle '
                             '(independent encoder, type-strict round trip, consumed == length).')
SPEC['rule'] += ('; magic numbers: Bool ids round-robin over every int-like leaf of one value per covered constructor + one value with random patterns '
                 '(registered ids, source literals; both byte orders), flags word = pattern, bytes content = pattern')


# ----------------------------------------------------------------------------- appended by strengthener st-proof (round 11)
# Class EXACT-FILL for TL: every field kind that carries the bytes framing (raw bytes, string, and a NESTED OBJECT handed over as a
# dict with '@type' in a bytes / string field - tl/generator.py serialises it and frames the result) at serialised content lengths
# around both framing cut-overs (254 = long prefix, 2^16), reached as a SUM: the nested object's length is solved for through the
# length of a free bytes / string field inside it.  Oracle: the independent encoder (frame()) on the wire bytes, plain round trip.

def _enc_obj_over(W, c, v, field, raw):
    """V.enc_obj(boxed) with the bytes/string field `field` carrying the raw content `raw`"""
    import struct
    out = struct.pack('<I', c['id'])
    for a in c['args']:
        if a['cond'] is not None:
            var, bit = a['cond']
            if not (v[var] >> bit) & 1:
                continue
        if a['field'] == field:
            out += V.frame(raw)
        elif a['vec']:
            out += struct.pack('<I', len(v[a['field']]))
            for y in v[a['field']]:
                out += V.enc_one(W, a['ety'], y, True)
        else:
            out += V.enc_one(W, a['ety'], v[a['field']], False)
    return out


def check_dict_in_field(ctx, W, B, host, v, field, tag):
    """v[field] is a dict with '@type' in a bytes / string field of `host`: the wire bytes must be the TL encoding of the host whose
    field holds the boxed serialisation of that object; the plain parse consumes everything and (bytes field) returns that content."""
    inner = v[field]
    ic = W.by_name[inner['@type']]
    content = V.enc_obj(W, ic, inner, True)
    ctx.case(('dict-in-field', host['idx'], field, repr(v)), sample={'ctor': host['name'], 'field': field, 'inner': ic['name'], 'content_len': len(content), 'tag': tag})
    ctx.count('exact-fill:dict-in-field')
    ctx.count(f'exact-fill:content-len={len(content)}')
    inp = jin(W, host, v, {'tag': 'exact-fill-dict', 'field': field, 'content_len': len(content)})
    enc = _enc_obj_over(W, host, v, field, content)
    st, ser = _call(W.lib.serialize, W.lib.list[host['idx']], copy.deepcopy(v))
    if st != 'ok':
        ctx.fail(f'ser-raised:{host["name"]}', 'serialize raised on a nested object in a bytes/string field', inp, ser, enc.hex()[:400])
        return
    if ser != enc:
        k = next((i for i in range(min(len(ser), len(enc))) if ser[i] != enc[i]), min(len(ser), len(enc)))
        ctx.fail(f'wire:{host["name"]}', f'nested object ({len(content)} bytes serialised) in the {field} field: serialised bytes differ from the TL encoding '
                 f'(first difference at byte {k})', inp, ser[max(0, k - 8):k + 24].hex() + f' (bytes {max(0, k - 8)}..)', enc[max(0, k - 8):k + 24].hex())
        return
    a = next(a for a in host['args'] if a['field'] == field)
    if a['ety'] != ('base', 'bytes'):
        return          # a string field: the parser decodes UTF-8, object bytes are no text - only the wire bytes are judged
    st, r = lib_deser(W, ser + b'', False)
    if st != 'ok' or r[1] != len(ser):
        ctx.fail(f'consumed-plain:{host["name"]}', 'plain parse of a host with a nested object in a bytes field failed / did not consume all bytes', inp,
                 str(r)[:200], len(ser))
        return
    if r[0].get(field) != content:
        ctx.fail(f'roundtrip-plain:{host["name"]}', 'plain parse does not return the nested object\'s serialisation as the bytes content', inp,
                 str(r[0].get(field))[:200], content.hex()[:200])


def exact_fill(ctx, W, B):
    rng = ctx.rng

    def free(c, kinds):
        return [a for a in c['args'] if a['ety'] in [('base', k) for k in kinds] and not a['vec'] and a['cond'] is None]
    hosts = {k: [c for c in W.ctors if W.fully_typed(c) and W.canonical(c) and free(c, [k]) and not any(_untouchable(W, c, a['field']) for a in free(c, [k]))]
             for k in ('bytes', 'string')}
    inners = {k: [c for c in W.ctors if W.covered(c) and W.canonical(c) and W.fully_typed(c) and free(c, [k])] for k in ('bytes', 'string')}
    targets = list(range(240, 272, 4)) + list(range(65524, 65552, 4))
    for L in targets:
        for hk in ('bytes', 'string'):
            for ik in ('bytes', 'string'):
                if not hosts[hk] or not inners[ik]:
                    continue
                for attempt in range(20):
                    ic = rng.choice(inners[ik])
                    iv = V.gen_obj(W, rng, ic, 0, {'depth': 1, 'big': False})
                    fa = rng.choice(free(ic, [ik]))
                    iv[fa['field']] = b'' if ik == 'bytes' else ''
                    L0 = len(V.enc_obj(W, ic, iv, True))
                    if L0 <= L:
                        break
                else:
                    continue
                sols = []
                for n in range(max(0, L - L0 - 8), L - L0 + 5):
                    iv[fa['field']] = bytes(n) if ik == 'bytes' else 'a' * n
                    if len(V.enc_obj(W, ic, iv, True)) == L:
                        sols.append(n)
                for n in sols:
                    inner = dict(iv)
                    inner[fa['field']] = V.rand_bytes(W, rng, n) if ik == 'bytes' else V.rand_str(W, rng, n)
                    inner['@type'] = ic['name']
                    host = rng.choice(hosts[hk])
                    v = V.gen_obj(W, rng, host, 0, {'depth': 1, 'big': False})
                    ha = rng.choice(free(host, [hk]))
                    ctx.count(f'exact-fill:{hk}-field<-object({ik} free)')
                    # (1) the object handed over as a dict
                    vd = dict(v)
                    vd[ha['field']] = inner
                    check_dict_in_field(ctx, W, B, host, vd, ha['field'], f'exact-fill L={L}')
                    # (2) the same content handed over as raw bytes (bytes field only): full oracle incl. model and auto mode
                    if hk == 'bytes':
                        vb = dict(v)
                        vb[ha['field']] = V.enc_obj(W, ic, inner, True)
                        check_value(ctx, W, B, host, vb, 'nested-in-bytes', expect_auto=MODEL, model=(L <= 300))
    B.flush()


_run_before_exact_fill = run
_replay_before_exact_fill = replay


def run(ctx):
    if ctx.search:
        state = ctx.rng.getstate()
        exact_fill(ctx, world(), Batch(ctx))
        ctx.rng.setstate(state)
        if ctx.failures:
            return
        _run_before_exact_fill(ctx)
        return
    _run_before_exact_fill(ctx)
    exact_fill(ctx, world(), Batch(ctx))


def replay(ctx, payload):
    inp = payload.get('input') or {}
    if isinstance(inp, dict) and 'ctor_index' in inp and inp.get('tag') == 'exact-fill-dict':
        W = world()
        B = Batch(ctx)
        check_dict_in_field(ctx, W, B, W.ctors[inp['ctor_index']], _unjson(inp['value']), inp['field'], 'replay')
        B.flush()
        return
    _replay_before_exact_fill(ctx, payload)
SPEC['manifest']['text'] += (' EXACT-FILL (sampled, every run): raw bytes / strings of every length 0..300 and 65530..65542, and nested objects handed over as a dict '
                             "with '@type' in a bytes / string field whose boxed serialisation has every word-aligned length 240..268 and 65524..65548 (the length of "
                             'a free bytes / string field inside the nested object is solved for, every solution used), wire bytes against the independent encoder.')
SPEC['rule'] += ('; exact fill: nested object (dict) in a bytes / string field at every word-aligned serialised length around 254 and 2^16, obtained by solving '
                 'for an inner free field length; the same content as raw bytes')
