"""C09, the `key_serializer=` / `key_deserializer=` options: a key that reaches the map through a user supplied
key_serializer is range-checked like any other key (negative / too wide -> refused, map untouched), a fitting one is stored
under exactly the serialised integer, and the round trip through `key_deserializer` gives the user keys back.
Failure keys `keyser:*`.  Library only; called from C09.run."""
from ..gen import cells as G


def _call(f):
    try:
        return ('ok', f())
    except Exception as e:      # every exception == refused
        return ('err', type(e).__name__)


def key_options(ctx):
    from pytoniq_core.boc.hashmap.hashmap import HashMap
    rng = ctx.rng
    for t in range(ctx.n(60, 600)):
        n = rng.choice([1, 2, 3, 4, 8, 8, 16, 32, 64, 255, 256, 267, 1023])
        base = rng.choice([0, 0, 10, -7, 1 << 20])
        hm = HashMap(n, key_serializer=lambda k, base=base: k - base).with_uint_values(16)
        exp = {}
        hist = []
        for _ in range(rng.randrange(1, 9)):
            r = rng.random()
            if r < 0.55:
                ik = rng.choice([0, 1, (1 << n) - 1, rng.randrange(0, 1 << n), rng.randrange(0, 1 << min(n, 6))])
            elif r < 0.8:
                ik = -rng.choice([1, 2, 5, rng.randrange(1, 1 << min(n, 10) + 1), 1 << n, (1 << n) - 1])
            else:
                ik = (1 << n) + rng.choice([0, 1, 7, rng.randrange(0, 1 << n)])
            uk = ik + base
            v = rng.randrange(0, 1 << 16)
            before = dict(hm.map)
            st, _ = _call(lambda: hm.set(uk, v))
            good = 0 <= ik < (1 << n)
            hist.append([uk, v])
            inp = {'n': n, 'key_serializer': f'k - {base}', 'history': hist, 'serialised_key': ik}
            ctx.case(('keyser', n, base, tuple(map(tuple, hist))), nontrivial=True)
            ctx.count(f'keyser:{"fits" if good else ("negative" if ik < 0 else "too-wide")}')
            if good and st != 'ok':
                ctx.fail('keyser:good-rejected', f'a serialised key that fits width {n} was rejected', inp, 'exception', 'accepted')
                return
            if not good and st == 'ok':
                ctx.fail('keyser:bad-accepted', f'key_serializer returned {ik}, which does not fit width {n}, and the key was accepted; '
                         f'stored keys now {sorted(hm.map)[:6]}', inp, 'accepted', 'DictError')
                return
            if not good and hm.map != before:
                ctx.fail('keyser:bad-mutated', 'a rejected key changed the map', inp, repr(hm.map)[:200], repr(before)[:200])
                return
            if good:
                exp[ik] = v
        if sorted(hm.map.items()) != sorted(exp.items()):
            ctx.fail('keyser:aliased', 'stored (key, value) pairs differ from the accepted serialised keys', {'n': n, 'base': base, 'history': hist},
                     sorted(hm.map.items())[:8], sorted(exp.items())[:8])
            return
        if not exp:
            continue
        st, cell = _call(hm.serialize)
        if st != 'ok' or cell is None:
            continue            # capacity questions are C09.run_case's
        # round trip with the inverse key_deserializer, through the three entry points
        kd = lambda bits, base=base: int(bits, 2) + base
        vd = lambda s: s.load_uint(16)
        want = {k + base: v for k, v in exp.items()}
        from pytoniq_core.boc.builder import Builder
        holder = Builder().store_dict(cell).end_cell()
        for nm, f in (('HashMap.parse', lambda: HashMap.parse(cell.begin_parse(), n, kd, vd)),
                      ('load_hashmap', lambda: cell.begin_parse().load_hashmap(n, kd, vd)),
                      ('load_dict', lambda: holder.begin_parse().load_dict(n, kd, vd)),
                      ('preload_dict', lambda: holder.begin_parse().preload_dict(n, kd, vd))):
            st, got = _call(f)
            if st != 'ok' or got != want or list(got) != sorted(want):
                ctx.fail(f'keyser:roundtrip:{nm}', f'{nm} with the inverse key_deserializer does not give the user keys back (in key order)',
                         {'n': n, 'base': base, 'history': hist}, repr(got)[:400], repr(want)[:400])
                return


def string_key_spellings(ctx):
    """bit-string keys in every spelling Python's int(s, 2) admits (sign, surrounding blanks, underscores, 0b prefix) and a few
    it does not: a key is accepted iff the string denotes an integer 0 <= k < 2^n, and is then stored under exactly k; every
    other string is refused and leaves the map unchanged.  Failure keys `strkey:*`."""
    from pytoniq_core.boc.hashmap.hashmap import HashMap
    rng = ctx.rng
    for t in range(ctx.n(150, 1500)):
        n = rng.choice([1, 2, 3, 4, 5, 8, 8, 16, 32, 64, 256, 267])
        k = rng.choice([0, 1, (1 << n) - 1, rng.randrange(0, 1 << n), rng.randrange(0, 1 << min(n, 5))])
        digits = format(k, 'b')
        if rng.random() < 0.5:
            digits = digits.zfill(rng.choice([n, max(1, n - 1), n + 1, n + 3]))
        style = rng.choice(['plain', 'minus', 'minus', 'minus-short', 'plus', 'blank', 'under', '0b', '-0b', 'minus-zero', 'wide', 'junk', 'empty'])
        if style == 'plain':
            s = digits
        elif style == 'minus':
            s = '-' + digits
        elif style == 'minus-short':
            s = '-' + format(rng.randrange(1, 1 << max(1, n - 1)) if n > 1 else 1, 'b')     # sign included still at most n characters
            s = s[:max(2, n)]
        elif style == 'plus':
            s = '+' + digits
        elif style == 'blank':
            s = rng.choice([' ', '\n', '\t']) + digits + rng.choice(['', ' '])
        elif style == 'under':
            s = digits[0] + '_' + digits[1:] if len(digits) > 1 else digits
        elif style == '0b':
            s = '0b' + digits
        elif style == '-0b':
            s = '-0b' + digits
        elif style == 'minus-zero':
            s = '-' + '0' * rng.randrange(1, n + 1)
        elif style == 'wide':
            s = format((1 << n) + rng.randrange(0, 1 << n), 'b')
        elif style == 'junk':
            s = rng.choice(['2', '1a', '0x1', '1.0', '1e1', '--1', '1-', 'one', '１'])
        else:
            s = ''
        try:
            val = int(s, 2)
        except ValueError:
            val = None
        good = val is not None and 0 <= val < (1 << n)
        hm = HashMap(n).with_uint_values(8)
        other = rng.randrange(0, 1 << n)
        hm.set_int_key(other, 1)
        before = dict(hm.map)
        st, _ = _call(lambda: hm.set(s, 7))
        ctx.case(('strkey', n, s), nontrivial=True)
        ctx.count(f'strkey:{style}:{"fits" if good else "bad"}')
        inp = {'n': n, 'key': s, 'denotes': val, 'other_key': other}
        if good and st != 'ok':
            ctx.fail(f'strkey:good-rejected:{style}', f'the bit string {s!r} denotes {val}, which fits width {n}, and was rejected', inp, 'exception', 'accepted')
        elif good and dict(hm.map) != {**before, val: 7}:
            ctx.fail(f'strkey:misfiled:{style}', f'the bit string {s!r} denotes {val} but the map now holds {sorted(hm.map)[:6]}', inp,
                     repr(dict(hm.map))[:300], repr({**before, val: 7})[:300])
        elif not good and st == 'ok':
            ctx.fail(f'strkey:bad-accepted:{style}', f'the string {s!r} ({"= " + str(val) if val is not None else "not a binary numeral"}) does not denote a key '
                     f'of width {n} and was accepted; stored keys now {sorted(hm.map)[:6]}', inp, 'accepted', 'DictError')
        elif not good and dict(hm.map) != before:
            ctx.fail(f'strkey:bad-mutated:{style}', 'a rejected string key changed the map', inp, repr(dict(hm.map))[:300], repr(before)[:300])
