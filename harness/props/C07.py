"""C07: cell capacity, value ranges and read bounds are enforced."""
from ..gen import cells as G
from ..gen import scripts as S
from ..translate import arith, bsops
from .C06 import bline, sline, LEAF_DAG
from . import c07_depth

SPEC = dict(
    manifest=dict(
        category='proof',
        text='Lean 4 theorems over the hand-written Builder/Slice model, for ALL builders, values and operation histories: every operation '
             '(typed stores, store_cell, store_slice, store_snake_bytes) keeps the builder within 1023 bits / 4 refs whether it returns or raises '
             'after a partial write, hence so does every finite history (c07_invariant, induction over the op list); end_cell succeeds exactly '
             'when depth <= 1023 (c07_end_cell_depth, via the C01 constructor model); a typed store raises IF AND ONLY IF the value is out of '
             'range for its width or its TL-B encoding does not fit the remaining bits/refs (c07_refuse_iff, both directions; '
             'c07_refuse_iff_composite for store_cell/store_slice with the REMAINING refs of the slice); the primitive consuming reads return '
             'exactly the next bits and advance by exactly that many, and raise leaving the slice unchanged when more is requested than remains '
             '(c07_read_bounds); every typed read leaves a suffix of its input (c07_read_suffix); the capacity comparisons themselves (check_overflow/'
             'check_underflow, the refs tests of store_ref/store_cell/store_slice) are re-translated from the source on every run and proved to refuse '
             'exactly beyond 1023 bits / 4 refs (c07_src_bits_capacity, c07_src_refs_capacity, c07_src_read_bound); and the WHOLE store_* / load_* methods with the TvmBitarray methods '
             'extend / append / frombytes / check_overflow / check_underflow / __delitem__ are re-translated from the source on every run and proved equal to the hand model for all '
             'arguments and states (see C06), so c07_src_invariant (every regenerated builder operation keeps 1023 bits / 4 refs, returning or raising), c07_src_refuse_iff, '
             'c07_src_refuse_iff_composite (raise iff out of range or no room; remaining refs of a slice) and c07_src_read_bounds (over-read raises and leaves the slice unchanged, '
             'otherwise exactly the next bits and an advance by exactly that many) are theorems about the regenerated methods. store_snake_bytes / store_snake_string are regenerated as well (Generated/SnakeOps.lean, equal to the hand model for all inputs, see C06): '
             'c07_src_snake_capacity - for every byte string, every cell constructor and every within-capacity builder the regenerated snake store leaves the builder within 1023 bits / 4 refs '
             '(returning or raising) and never asks for a cell of more than 1023 bits or 4 references (guarding the constructor by that test changes nothing). c07_src_forms_capacity: no argument form of store_bit / store_bits (bool, text, TvmBitarray, plain bitarray, list / tuple of ints, iterator) '
             'or store_address(text) bypasses the capacity test - each regenerated form (Generated/ArgForms.lean) keeps a within-capacity builder within 1023 bits / 4 refs, returning or raising. '
             'The model is tied to the working tree by '
             'differential testing of builder histories at every fill level and of over-reads, each also checked on the library alone against an '
             'independent fits/range predictor.',
        level_note='Proved for all inputs: the statements above, about Model/Builder.lean. Only sampled: that the Python code behaves as the model '
                   '(correspondence on generated histories/over-reads); the depth-1023/1024 boundary through the real builder is run concretely. '
                   'Preconditions stated in the theorems: width 0 is outside the library domain (int2ba refuses it), anycast depth is checked '
                   'against its 5-bit field (TL-B says <= 30), Address.hash_part is assumed to have 32 bytes. Non-consuming preload_* on an '
                   'over-read return short data (outside the property, recorded in design/C07.md).',
        technique='Lean 4 proof (hand model, invariant by induction over operation histories) + differential correspondence with the library '
                  '+ source-regenerated methods (equality with the hand model proved for all inputs) and arithmetic lemmas'),
    translators=[('tvm_bitarray.py/builder.py capacity tests->Generated/Capacity.lean', arith.regenerator('Capacity')),
                 ('builder.py/tvm_bitarray.py store_* methods->Generated/BuilderOps.lean', bsops.regenerator('BuilderOps')),
                 ('slice.py/tvm_bitarray.py load_*/preload_* methods->Generated/SliceOps.lean', bsops.regenerator('SliceOps')),
                 ('builder.py snake store->Generated/SnakeOps.lean', bsops.regenerator('SnakeOps')),
                 ('builder.py store_bit/store_bits/store_address argument forms->Generated/ArgForms.lean', bsops.regenerator('ArgForms'))],
    design_ref='DESIGN.md §6 C07',
    rule='builder histories at every fill level (0,1,1015..1023 bits x 0..4 refs) mixing fitting, overflowing and out-of-range stores '
         '(ints, var-ints, bits, bytes, refs, maybe-refs, cells, partly consumed slices, addresses, snake strings); each op must succeed iff '
         'its value is in range and its encoding fits; over-reads for every remaining length 0..16 x request 0..24 and random; depth limit; '
         'distinct = distinct script; all non-trivial',
    trusted_base=['Model/Builder.lean mirrors builder.py/slice.py/TvmBitarray by hand', 'harness/gen/scripts.py executors + independent TL-B encoder',
                  'harness/translate/pyarith.py + arith.py (Python comparisons -> Lean) for the c07_src_* capacity tests',
                  'harness/translate/pymeth.py + bsops.py (stateful methods -> Lean; declared interface) and lean/TonVerif/PyBits.lean for the c07_src_* method theorems; validated against the library on op scripts'],
    assumptions=['correspondence is sampled differential testing'],
)


def fits(tok, cells, used_bits, used_refs, dag):
    """Independent prediction: does this store fit and is its value representable?  None = no prediction (composite)."""
    p = tok.split(':')
    try:
        if p[0] == 'cell':
            n = dag[int(p[1])]
            cb, cr = len(n[1]), len(n[2])
        elif p[0] == 'sl':
            n = dag[int(p[1])]
            if int(p[2]) > len(n[1]) or int(p[3]) > len(n[2]):
                return None
            cb, cr = len(n[1]) - int(p[2]), len(n[2]) - int(p[3])
        elif p[0] in ('sn', 'sns'):
            # snake data: what fits goes into this cell; anything beyond needs ONE free reference slot for the chain of 127-byte cells
            n = len(bytes.fromhex(p[1].replace('-', ''))) + (1 if p[0] == 'sns' and p[2] == '1' else 0)
            return n <= (1023 - used_bits) // 8 or used_refs < 4
        else:
            e = S.enc_tok(tok, cells)
            cb, cr = len(e[0]), len(e[1])
    except (AssertionError, ValueError):
        return False
    return used_bits + cb <= 1023 and used_refs + cr <= 4


def rand_store(rng, ncells, dag):
    r = rng.random()
    if r < 0.35:
        return S.rand_typed_tok(rng, ncells)
    if r < 0.5:   # out-of-range values (+-1 around both ends)
        n = rng.choice([1, 2, 7, 8, 9, 32, 64, 256, 257])
        return rng.choice([f'u:{1 << n}:{n}', f'u:-1:{n}', f'i:{1 << (n - 1)}:{n}', f'i:{-(1 << (n - 1)) - 1}:{n}', f'u:0:0', 'i:0:0',
                           f'vu:{1 << 120}:4', 'vu:-1:4', f'vi:{1 << 119}:4', f'vi:{-(1 << 119) - 1}:4', f'c:{1 << 120}', 'c:-7',
                           f'a:e:512:1', f'a:e:3:8', 'a:s:128:' + '00' * 32, 'a:s:-129:' + '00' * 32, 'a:s:0:' + '00' * 32 + ':0:0',
                           'a:s:0:' + '00' * 32 + ':3:8', 'a:e:0:5', 'a:e:0:1', 'a:e:0:0', 's:' + '61' * 128, 's:' + 'c3a9' * 64, 's:' + '61' * 127,
                           'a:s:0:' + '00' * 32 + ':31:5', 'a:s:0:' + '00' * 32 + ':32:5'])
    if r < 0.65:
        n = rng.choice([1, 7, 8, 9, 100, 500, 1023])
        return rng.choice([f'b:{"1" * n}', f'by:{"ab" * (n // 8)}' if n >= 8 else 'bit:1'])
    if r < 0.76:
        return rng.choice([f'r:{rng.randrange(ncells)}', f'mr:{rng.randrange(ncells)}', 'mr:-', f'd:{rng.randrange(ncells)}', 'd:-'])
    if r < 0.8:   # snake data shorter / longer than the room left in this cell (the tail needs a reference slot)
        n = rng.choice([0, 1, 2, 3, 126, 127, 128, 129, 300])
        hx_ = (bytes([97 + i % 26 for i in range(n)]).hex() or '-')
        return rng.choice([f'sn:{hx_}', f'sns:{hx_}:{rng.randrange(2)}'])
    if r < 0.9:
        return f'cell:{rng.randrange(ncells)}'
    k = rng.randrange(ncells)
    return f'sl:{k}:{rng.randrange(len(dag[k][1]) + 1)}:{rng.randrange(len(dag[k][2]) + 1)}'


def history(ctx, dag, cells, fill_bits, fill_refs, t, ops=None):
    rng = ctx.rng
    from pytoniq_core.boc.builder import Builder
    pre = ([f'b:{"0" * fill_bits}'] if fill_bits else []) + [f'r:0'] * fill_refs
    if ops is None:
        ops = [rand_store(rng, len(cells), dag) for _ in range(rng.randrange(1, 9))]
        if rng.random() < 0.3:      # end_cell() in the middle of the history (result dropped): later stores must still count
            ops.insert(rng.randrange(len(ops) + 1), 'ec')
    inp = {'dag': [list(n) for n in dag], 'prefill': [fill_bits, fill_refs], 'ops': ops}
    ctx.case(('hist', fill_bits, fill_refs, tuple(ops)), sample={'fill': [fill_bits, fill_refs], 'ops': [o[:40] for o in ops[:5]]})
    b = Builder()
    S.exec_builder(cells, pre, b)
    # where the builder comes from must not matter: a fresh one, or one derived from a cell / slice holding the same content
    # (the cell built on a TvmBitarray as the library does, or on a plain bitarray as a caller may)
    origin = ('new', 'cell.to_builder', 'plain-cell.to_builder', 'slice.to_builder')[(t + fill_bits + fill_refs) % 4]
    try:
        if origin == 'cell.to_builder':
            b = b.end_cell().to_builder()
        elif origin == 'plain-cell.to_builder':
            from pytoniq_core.boc.cell import Cell
            from bitarray import bitarray
            b = Cell(bitarray(b.bits.to01()), list(b.refs)).to_builder()
        elif origin == 'slice.to_builder':
            b = b.end_cell().begin_parse().to_builder()
    except Exception as e:
        ctx.fail('origin:' + origin, f'a builder could not be derived through {origin}: {type(e).__name__}', inp, repr(e), 'builder')
        return
    inp['origin'] = origin
    ctx.count('origin:' + origin)
    flags = ''
    for tok in ops:
        ub, ur = len(b.bits), len(b.refs)
        want = True if tok == 'ec' else fits(tok, cells, ub, ur, dag)
        f, _, _, _, _ = S.exec_builder(cells, [tok], b)
        flags += f
        kind = tok.split(':')[0]
        ctx.count(f'{kind}:{"ok" if f == "1" else "refused"}')
        if len(b.bits) > 1023 or len(b.refs) > 4:
            ctx.fail(f'capacity:{kind}', f'builder exceeds capacity after {tok[:60]}', inp, [len(b.bits), len(b.refs)], '<=1023 / <=4')
            return
        if want is not None and (f == '1') != want:
            if want:
                ctx.fail(f'refused:{kind}', f'a store that fits ({ub} bits, {ur} refs used) was refused: {tok[:80]}', inp, 'exception', 'stored')
            else:
                ctx.fail(f'accepted:{kind}', f'an out-of-range or overflowing store was accepted: {tok[:80]} at {ub} bits, {ur} refs', inp, 'stored', 'exception')
            return
    try:
        c = b.end_cell()
        fin = c.hash.hex()
        if len(c.bits) > 1023 or len(c.refs) > 4:
            ctx.fail('capacity:cell', 'end_cell produced an oversize cell', inp, [len(c.bits), len(c.refs)], None)
        if c.bits.to01() != b.bits.to01() or [r.hash for r in c.refs] != [r.hash for r in b.refs]:
            ctx.fail('end_cell:stale', 'end_cell() does not hold the bits / references the builder holds now', inp,
                     [c.bits.to01()[:64], len(c.refs)], [b.bits.to01()[:64], len(b.refs)])
    except Exception:
        fin = 'err'
        ctx.fail('end_cell', 'end_cell raised although the builder is within capacity', inp, 'exception', 'cell')
    ctx.expect_model(bline(dag, pre + ops), f'ok {"1" * len(pre)}{flags} {S.show_bits(b.bits)} {S.show_refs(b.refs)} {fin}', 'history')


def overread(ctx, rem_bits, rem_refs, req, kind):
    rng = ctx.rng
    bits = G.rand_bits(rng, rem_bits)
    if bits and kind in ('lu', 'li', 'lb'):
        bits = '1' + bits[1:]
    dag = [(G.ORD, '1', ())] + [(G.ORD, bits, tuple([0] * rem_refs))]
    cells = G.lib_build(dag)
    op = {'lu': f'lu:{req}', 'li': f'li:{req}', 'lb': f'lb:{req}', 'lby': f'lby:{req}', 'sk': f'sk:{req}', 'lr': 'lr', 'bit': 'bit',
          'lmr': 'lmr', 'lvu': 'lvu:4', 'lc': 'lc', 'la': 'la'}[kind]
    ctx.case(('over', bits, rem_refs, op))
    res, rb, rr = S.exec_slice(cells[1], [op])
    inp = {'dag': [list(n) for n in dag], 'op': op}
    need = {'lu': req, 'li': req, 'lb': req, 'lby': req * 8, 'sk': req, 'bit': 1}.get(kind)
    if need is not None:
        over = need > rem_bits
        ctx.count(f'{kind}:{"over" if over else "within"}')
        if over and res != 'x':
            ctx.fail(f'overread:{kind}', f'{op} with {rem_bits} bits left returned data instead of raising', inp, res, 'exception')
        if over and (rb, rr) != (bits or '-', S.show_refs(cells[1].refs)):
            ctx.fail(f'overread-state:{kind}', f'failed {op} changed the slice', inp, [rb, rr], [bits, rem_refs])
        if not over:
            exp = {'lu': lambda: str(int(bits[:req], 2)) if req else 'x',
                   'li': lambda: str(int(bits[:req], 2) - ((1 << req) if bits[0] == '1' else 0)) if req else 'x',
                   'lb': lambda: bits[:req] or '-', 'lby': lambda: G.bits_to_bytes(bits[:req * 8]).hex() or '-',
                   'sk': lambda: 'ok', 'bit': lambda: bits[0]}[kind]()
            if res != exp:
                ctx.fail(f'read:{kind}', f'{op} returned something other than the next bits', inp, res, exp)
            elif res != 'x' and rb != (bits[need:] or '-'):
                ctx.fail(f'advance:{kind}', f'{op} did not advance by exactly {need} bits', inp, rb, bits[need:])
    if kind == 'lr' and rem_refs == 0 and res != 'x':
        ctx.fail('overread:lr', 'load_ref with no refs left returned something', inp, res, 'exception')
    ctx.expect_model(sline(dag, 1, [op]), f'ok {res} {rb} {rr}', 'overread')


def overread_refs(ctx, nrefs, kind):
    """consume all n references, then ask for one more (load_ref / preload_ref / load_maybe_ref / load_dict with the bit set)"""
    dag = [(G.ORD, '1', ()), (G.ORD, '0', ())] + [(G.ORD, '1' * 8, tuple(i % 2 for i in range(nrefs)))]
    cells = G.lib_build(dag)
    last = {'lr': 'lr', 'pr': 'pr', 'lmr': 'lmr', 'pmr': 'pmr', 'ld': 'ld:8'}[kind]
    ops = ['lr'] * nrefs + [last]
    ctx.case(('over-refs', nrefs, kind))
    ctx.count(f'refs-{kind}:over')
    res, rb, rr = S.exec_slice(cells[2], ops)
    got = res.split(';')
    inp = {'dag': [list(n) for n in dag], 'ops': ops}
    want = [cells[i % 2].hash.hex() for i in range(nrefs)]
    if got[:nrefs] != want:
        ctx.fail('read:lr', 'load_ref did not return the references in order', inp, got[:nrefs], want)
    elif got[nrefs] != 'x':
        ctx.fail(f'overread:{kind}', f'{last} with no references left returned something', inp, got[nrefs], 'exception')
    elif rr != '-':
        ctx.fail(f'overread-state:{kind}', f'failed {last} changed the remaining references', inp, rr, '-')
    ctx.expect_model(sline(dag, 2, ops), f'ok {res} {rb} {rr}', 'overread-refs')


def src_search(ctx):
    """Search mode only: the (fill, request) points where a regenerated capacity test (Generated/Capacity.lean) differs from the
    bound it is proved equal to, replayed as one-operation histories / over-reads.  True = a concrete failing input was found."""
    found = arith.search_points(ctx, ['Capacity'])
    n0 = len(ctx.failures)
    dag = LEAF_DAG + [(G.ORD, '0' * 1023, (0, 1, 2, 3)), (G.ORD, '10', (0,))]
    cells = G.lib_build(dag)
    by_refs = {len(n[2]): i for i, n in enumerate(dag)}
    for pt in found.get('bitsOverflow') or []:
        if pt['used'] <= 1023 and 1 <= pt['length'] <= 1100:
            history(ctx, dag, cells, pt['used'], 0, 0, ops=['b:' + '1' * pt['length']])
    for pt in found.get('refsFull') or []:
        if pt['refs'] <= 4:
            history(ctx, dag, cells, 0, pt['refs'], 0, ops=['r:0'])
    for name, mk in (('cellRefsOverflow', lambda k: f'cell:{k}'), ('sliceRefsOverflow', lambda k: f'sl:{k}:0:0')):
        for pt in found.get(name) or []:
            if pt['refs'] <= 4 and pt['more'] in by_refs and len(dag[by_refs[pt['more']]][1]) < 1023:
                history(ctx, dag, cells, 0, pt['refs'], 0, ops=[mk(by_refs[pt['more']])])
    for pt in found.get('bitsUnderflow') or []:
        if pt['remaining'] <= 1023 and 1 <= pt['length'] <= 1023:
            for kind in ('lb', 'lu', 'sk'):
                if kind != 'lu' or pt['length'] <= 256:
                    overread(ctx, pt['remaining'], 0, pt['length'], kind)
    return len(ctx.failures) > n0


def src_search_methods(ctx):
    """Search mode only: the (fill level, operation) points where a regenerated METHOD (Generated/BuilderOps.lean, SliceOps.lean)
    differs from the hand model it is proved equal to (evaluated by Lean on the validation scripts), replayed as one-operation
    histories at that fill level / as reads of that size on a slice with that many bits.  True = a concrete failing input was found."""
    n0 = len(ctx.failures)
    dag = [tuple(n) for n in bsops.CTX_DAG]
    cells = G.lib_build(dag)
    done = set()
    for (fb, fr, toks), idx in bsops.diff_scripts(ctx, 'B', bsops.builder_scripts()):
        # the fill level at which the op ran: replay the script up to it on the library
        for i in idx:
            k = toks[i].split(':')[0]
            tok = 'bit:' + toks[i].split(':')[1] if k in ('bool', 'bi') else toks[i]
            if tok.startswith('bit:') and tok not in ('bit:0', 'bit:1'):
                continue
            b = bsops.py_builder(cells, fb, fr, toks[:i]).split('|')
            ub, ur = (0 if b[1] == '-' else len(b[1])), (0 if b[2] == '-' else b[2].count('.') + 1)
            if (ub, ur, tok) in done or len(done) > 60:
                continue
            done.add((ub, ur, tok))
            history(ctx, dag, cells, ub, ur, 0, ops=[tok])
        if len(ctx.failures) > n0:
            return True
    # the regenerated snake store (Generated/SnakeOps.lean) vs the hand model: the differing store as a one-operation history
    sdone = set()
    for (fb, fr, toks), idx in bsops.diff_scripts(ctx, 'B', bsops.snake_builder_scripts(), snake=True):
        for i in idx:
            if i == 0 and (fb, fr, toks[i]) not in sdone and len(sdone) < 60:
                sdone.add((fb, fr, toks[i]))
                history(ctx, dag, cells, fb, fr, 0, ops=[toks[i]])
        if len(ctx.failures) > n0:
            return True
    reads = set()
    for (bits, refs, toks), idx in bsops.diff_scripts(ctx, 'S', bsops.slice_scripts()):
        for i in idx:
            p = toks[i].split(':')
            kind = {'lu': 'lu', 'li': 'li', 'lb': 'lb', 'sk': 'sk', 'lby': 'lby', 'bit': 'bit', 'lbool': 'bit', 'lr': 'lr', 'lmr': 'lmr', 'lvu': 'lvu', 'lc': 'lc', 'la': 'la', 'ld': 'lmr'}.get(p[0])
            if kind is None:
                continue
            req = int(p[1]) if len(p) > 1 and kind in ('lu', 'li', 'lb', 'sk', 'lby') else 0
            for rem in sorted({len(bits), req, max(req - 1, 0), req + 1, req * 8, max(req * 8 - 1, 0)}):
                if rem <= 1023 and (kind, rem, req) not in reads and len(reads) < 80:
                    reads.add((kind, rem, req))
                    overread(ctx, rem, len(refs) % 3, req, kind)
        if len(ctx.failures) > n0:
            return True
    return len(ctx.failures) > n0


def run(ctx):
    rng = ctx.rng
    if ctx.search and (src_search(ctx) or src_search_methods(ctx)):
        return
    for nrefs in range(0, 5):
        for kind in ('lr', 'pr', 'lmr', 'pmr', 'ld'):
            overread_refs(ctx, nrefs, kind)
    dag = LEAF_DAG + [(G.ORD, '0' * 1023, (0, 1, 2, 3)), (G.ORD, '10', (0,)), (G.ORD, '', (0, 1))]      # last: no data bits, two references
    cells = G.lib_build(dag)
    fills = [0, 1, 500] + list(range(1015, 1024))
    for t in range(ctx.n(100, 400)):
        for fb in fills:
            for fr in range(5):
                history(ctx, dag, cells, fb, fr, t)
    for rem in range(0, 17):
        for req in range(0, 25):
            for kind in ('lu', 'li', 'lb', 'sk'):
                overread(ctx, rem, rng.randrange(0, 3), req, kind)
        for req in range(0, 4):
            overread(ctx, rem, 0, req, 'lby')
        for kind in ('bit', 'lr', 'lmr', 'lvu', 'lc', 'la'):
            overread(ctx, rem, rng.randrange(0, 2), 0, kind)
    for _ in range(ctx.n(1000, 3000)):
        rem = rng.randrange(0, 1024)
        overread(ctx, rem, rng.randrange(0, 5), rng.choice([rem, rem + 1, rem - 1 if rem else 0, rng.randrange(0, 1100)]), rng.choice(['lu', 'li', 'lb', 'sk']))
    # plain-bitarray cells: slices must be bounds-checked too (F3b)
    from pytoniq_core.boc.cell import Cell
    from bitarray import bitarray
    for n in (0, 1, 5, 8, 13):
        c = Cell(bitarray(G.rand_bits(rng, n)), [])
        for req in (n + 1, n + 8, 1023):
            for f in ('load_uint', 'load_int', 'load_bits', 'skip_bits'):
                ctx.case(('plain-over', n, req, f))
                try:
                    r = getattr(c.begin_parse(), f)(req)
                    ctx.fail('overread:plain', f'{f}({req}) on a slice of a plain-bitarray cell with {n} bits returned data', {'n': n, 'req': req, 'f': f}, repr(r)[:80], 'exception')
                except Exception:
                    pass
    # a builder / bit array cannot be created with more than 1023 bits of room (or, if it can, still refuses the 1024th bit)
    from pytoniq_core.boc.builder import Builder
    from pytoniq_core.boc.tvm_bitarray import TvmBitarray
    for size in (1024, 1025, 2047, 4096, 1 << 20):
        for what, mk in (('Builder(size)', lambda: Builder(size)), ('TvmBitarray(size)', lambda: TvmBitarray(size)),
                         ('Builder(); b.size = size', lambda: setattr(Builder(), 'size', size) or None)):
            ctx.case(('oversize-ctor', what, size))
            ctx.count('oversize-ctor')
            try:
                obj = mk()
            except BaseException:
                continue
            if obj is None:
                ctx.fail('capacity:size-setter', f'{what} with size {size} was accepted', {'what': what, 'size': size}, 'accepted', 'exception')
                continue
            try:
                target = obj if isinstance(obj, Builder) else None
                if target is not None:
                    target.store_bits('1' * 1023)
                    target.store_bit(1)
                    ctx.fail('capacity:oversize-builder', f'{what} with size {size}: a 1024th bit was stored', {'what': what, 'size': size}, len(target.bits), '<= 1023')
                else:
                    obj.extend('1' * 1024)
                    ctx.fail('capacity:oversize-bitarray', f'{what} with size {size}: 1024 bits were stored', {'what': what, 'size': size}, len(obj), '<= 1023')
            except Exception:
                pass
    # depth limit through the builder
    from pytoniq_core import begin_cell
    c = begin_cell().end_cell()
    for d in range(1, 1026):
        try:
            c2 = begin_cell().store_ref(c).end_cell()
        except Exception:
            c2 = None
        ctx.case(('depth', d), nontrivial=d > 1020)
        if d <= 1023 and c2 is None:
            ctx.fail('depth:refused', f'a cell of depth {d} was refused', {'depth': d}, 'exception', 'cell')
            break
        if d >= 1024 and c2 is not None:
            ctx.fail('depth:accepted', f'a cell of depth {d} was produced', {'depth': d}, 'cell', 'exception')
            break
        if c2 is None:
            break
        c = c2
    c07_depth.depth_at_levels(ctx)      # the limit holds at every level (pruned branches record depths per level)


def replay(ctx, payload):
    inp = payload.get('input') or {}
    if 'ops' in inp and 'prefill' in inp:
        dag = [(k, b, tuple(r)) for k, b, r in inp['dag']]
        cells = G.lib_build(dag)
        fb, fr = inp['prefill']
        for t in range(4):                       # every builder origin ...
            for form in range(0, 24, 1 if any(o.startswith('bit:') or o.startswith('b:') for o in inp['ops']) else 24):     # ... and store_bit / store_bits argument form
                S._BIT_FORM[0] = form
                S._BITS_FORM[0] = form
                history(ctx, dag, cells, fb, fr, t, ops=list(inp['ops']))
    elif 'recorded_depth' in inp:
        c07_depth.depth_at_levels(ctx)           # the per-level depth family (deterministic for the seed)
