"""C09: dictionary (HashMap) serialise/parse round trip; bad keys rejected, never aliased."""
import hashlib
import itertools

from ..gen import cells as G
from ..gen import maps as M
from ..translate import labelfns as tr
from ..translate import arith2
from . import c09_keyopts
from . import c09_twoform
from ..translate import hashmapsrc as hmsrc
from ..translate import hashmapglue as hmglue

SPEC = dict(
    manifest=dict(
        category='proof',
        text='Lean proves, for EVERY key width n>=1 and EVERY sequence of set_int_key calls (any order, repeated keys), that when '
             'HashMap.serialize() succeeds, HashMap.parse of the produced cell (directly or through store_dict/load_dict) returns '
             'exactly the pairs of the map — last write wins — with strictly ascending keys, each value being the bits/refs its '
             'serialiser wrote (c09_roundtrip); that the empty map is None / a single 0 bit (c09_empty); that keys <0 or >=2^n are '
             'rejected leaving the map unchanged and accepted keys map injectively to n-bit strings (c09_bad_keys); and an explicit '
             'characterisation of the only failure (a cell over 1023 bits / 4 refs) with a fits-implies-succeeds theorem '
             '(c09_capacity_explicit). The label-kind function used by the model is regenerated from utils.py on every run, and so is the '
             'key-range test of set_int_key (`int_key < 0 or int_key.bit_length() > self.size`, Generated/DictKey.lean): it is proved, for EVERY '
             'integer key and width, to reject exactly the keys outside 0 <= k < 2^n (c09_src_key_range) and to be the test the hand model uses '
             '(c09_src_model_set).'
             ' SOURCE TIE (parser half of the round trip): parse.py is regenerated as Lean functions on every run (Generated/HashmapSrc.lean) and Lean proves for all inputs that the '
             'regenerated parse_hashmap / parse / deserialize_hashmap_node / deserialize_hml / deserialize_unary equal the hand model (c09_src_parse_is_model), so the round trip holds through the parser as written '
             '(c09_src_roundtrip). SERIALISER half: utils.py (pad, find_common_prefix, remove_prefix_map, fork_map, build_node/build_edge/build_tree, write_label*, write_node/write_edge, serialize_dict) is regenerated the same way and proved equal to the hand model '
             'for every map set_int_key can build, every value serialiser that appends bits/refs and every fuel >= 2n+2 (c09_src_serialize_is_model; Proofs/SrcHashmapSer.lean), so the regenerated serialiser followed by the regenerated parser '
             'returns exactly the map, last write wins, keys ascending - for every finite map of every key width n >= 1 (c09_src_roundtrip_full). The METHODS AROUND THEM are regenerated too (Generated/HashmapGlue.lean; hashmapglue.py = a specialiser to the declared calling form + pyrec.py; validated against the library on 547 calls per change): '
             'HashMap.set_int_key is the hand model setIntKey (c09_src_set_int_key); HashMap.set, specialised per key form - int, bytes (big-endian unsigned), 0/1 string (int(key, 2), ValueError on the empty string), Address (store_address .. load_uint(267)), '
             'text with hash_key (sha256), key_serializer - is normKey followed by setIntKey (c09_src_set_forms, c09_src_set_key_serializer); HashMap.serialize is the model serialize (None for the empty map, c09_src_serialize); HashMap.parse / from_cell(..).map / '
             'Slice.load_dict / preload_dict / load_hashmap with the default deserialisers are hashMapParse / fromCell / loadDict, load_dict consuming the presence bit and one reference, preload_dict nothing (c09_src_parse_api); so the whole API round trip holds with '
             'every method the regenerated one (c09_src_roundtrip_api). Still hand model + correspondence: non-default key / value deserialisers, with_*_values, Builder.store_dict, and the Builder / Slice primitives under store_address / load_uint (C05 / C06).',
        level_note='Trusted: Lean kernel (propext, Classical.choice, Quot.sound); Model/Hashmap.lean as a hand transcription of '
                   'hashmap/{hashmap,utils,parse}.py (tied by sampled differential correspondence: exhaustive widths 1-3 incl. all insertion '
                   'orders in the thorough tier, all 65535 width-4 key sets thorough / sampled quick, pattern key sets up to width 1023, all key '
                   'forms, invalid keys); value serialisers are modelled as functions returning appended bits/refs; dict re-keying in fork_map is '
                   'modelled without re-deduplication (exact for distinct equal-length keys, which set_int_key guarantees; HashMap(map_=...) '
                   'injection is outside the model); Cell construction limits (depth) are C01.',
        technique='Lean 4 proof (label functions, key-range test, the whole parser - label reader, parse recursion - the whole serialiser - tree building, label and edge writer - and the HashMap / Slice methods around them (set key forms, serialize, parse, from_cell, load_dict, preload_dict, load_hashmap) regenerated from source and proved equal to the model) + differential correspondence with the library + round-trip oracle',
    ),
    translators=[('hashmap/utils.py->Generated/LabelFns.lean', tr.regenerate),
                 ('hashmap.py set_int_key range test->Generated/DictKey.lean', arith2.regenerator('DictKey')),
                 ('hashmap/parse.py+utils.py->Generated/HashmapSrc.lean', hmsrc.regenerate),
                 ('hashmap.py+slice.py dict methods->Generated/HashmapGlue.lean', hmglue.regenerate)],
    design_ref='DESIGN.md §6 C09',
    rule='a case = (key width, value serialiser, insertion sequence of (key form, value)); widths 1-2 all key sets x all orders, width 3 all key '
         'sets x 4 orders (all orders thorough), width 4 sampled key sets (all 65535 thorough), widths 5..1023 prefix-sharing patterns; key forms '
         'int/bytes/bit string/Address(267)/hashed string; invalid keys (negative, >= 2^n, over-long bytes, empty bit string); each case goes through '
         'serialize, HashMap.parse, from_cell, store_dict+load_dict/preload_dict/load_hashmap and the Lean model; distinct = distinct case; '
         'keys well-formed in TWO key forms at once (c09_twoform.py, gen/twoform.py), constructed not sampled: 48-character numerals in every spelling int(s, 2) '
         'admits (plain, +, -, blanks, underscore, 0b) and hex-/digit-looking texts that base64-decode to 34 bytes + their CRC-16 (GF(2) elimination on the free bits), '
         'wc:hex raw-address texts in binary / decimal / hex digits, friendly address texts; as str keys, as hashed texts and as bytes keys (ASCII, the 36 / 34 / 33 / 32 '
         'decoded bytes) at the widths around their value: filed under the declared reading only; '
         'non-trivial = at least one accepted key',
    trusted_base=['Model/Hashmap.lean mirrors hashmap.py / utils.py / parse.py by hand; Generated/LabelFns.lean is translated from utils.py each run',
                  'harness/translate/labelfns.py (Python subset -> Lean)', 'value serialisers modelled as "append these bits/refs"',
                  'harness/translate/pyarith.py + arith.py/arith2.py and lean/TonVerif/PyInt.lean (int.bit_length) for the c09_src_* theorems',
                  'harness/translate/pyrec.py + hashmapsrc.py (declared interface of utils.py / parse.py) + hashmapglue.py (the specialiser and the declared calling forms of the HashMap / Slice methods) + lean/TonVerif/PyHm.lean, PyGlue.lean (reading of Slice / Builder / dict / int(s, 2) / the Address key chain); a value serialiser is read as a callback that appends bits and references (serCb)'],
    assumptions=['Python dict preserves insertion order', 'sorted() on 0/1 strings is lexicographic', 'correspondence is sampled differential testing'],
)


def _lib():
    from pytoniq_core.boc.hashmap.hashmap import HashMap
    from pytoniq_core.boc.builder import Builder
    from pytoniq_core.boc.address import Address
    return HashMap, Builder, Address


# ----------------------------------------------------------------------------- tokens

def lib_key(tok):
    """-> (python key, hash_key flag)"""
    _, _, Address = _lib()
    p = tok.split(':')
    if p[0] == 'i':
        return int(p[1]), False
    if p[0] == 'y':
        return bytes.fromhex(p[1].replace('-', '')), False
    if p[0] == 's':
        return p[1].replace('-', ''), False
    if p[0] == 'h':
        return bytes.fromhex(p[1].replace('-', '')).decode(), True
    if p[0] == 'a':
        a = Address((int(p[1]), bytes.fromhex(p[2])))
        if len(p) == 5:
            a.set_anycast(int(p[3]), int(p[4]))
        return a, False
    raise ValueError(tok)


def norm_key(tok):
    """independent normalisation: the integer the key denotes, or None when the form itself is malformed"""
    p = tok.split(':')
    if p[0] == 'i':
        return int(p[1])
    if p[0] == 'y':
        return int.from_bytes(bytes.fromhex(p[1].replace('-', '')), 'big')
    if p[0] == 's':
        s = p[1].replace('-', '')
        return int(s, 2) if s else None
    if p[0] == 'h':
        return int.from_bytes(hashlib.sha256(bytes.fromhex(p[1].replace('-', ''))).digest(), 'big')
    if p[0] == 'a':
        wc, h = int(p[1]), bytes.fromhex(p[2])
        bits = '10'
        if len(p) == 5:
            d = int(p[3])
            bits += '1' + format(d, '05b') + format(int(p[4]), 'b').zfill(d)
        else:
            bits += '0'
        bits += format(wc & 0xff, '08b') + G.bytes_to_bits(h)
        return int(bits[:267], 2)
    raise ValueError(tok)


def val_enc(vkind, vtok):
    """independent value encoding -> (bits, [ref idx]) or None (serialiser must raise)"""
    if vkind == 'raw':
        b, r = vtok.split('/')
        return (b.replace('-', ''), [int(x) for x in r.split('.')] if r != '-' else [])
    v = int(vtok)
    if vkind == 'c':
        if v < 0 or v >= 1 << 120:
            return None
        ln = (v.bit_length() + 7) // 8
        return (format(ln, '04b') + (format(v, 'b').zfill(ln * 8) if ln else ''), [])
    w = int(vkind[1:])
    if vkind[0] == 'u':
        if w == 0 or v < 0 or v >= 1 << w:
            return None
        return (format(v, 'b').zfill(w), [])
    if vkind[0] == 'i':
        if w == 0 or v < -(1 << (w - 1)) or v >= 1 << (w - 1):
            return None
        return (format(v % (1 << w), 'b').zfill(w), [])
    raise ValueError(vkind)


def make_hashmap(n, vkind, cells):
    HashMap, _, _ = _lib()
    hm = HashMap(n)
    if vkind == 'raw':
        def ser(src, dest):
            b, r = src.split('/')
            dest.store_bits(b.replace('-', ''))
            if r != '-':
                for i in r.split('.'):
                    dest.store_ref(cells[int(i)])
        hm.value_serializer = ser
        conv = lambda t: t
    elif vkind == 'c':
        hm.with_coins_values()
        conv = int
    elif vkind[0] == 'u':
        hm.with_uint_values(int(vkind[1:]))
        conv = int
    else:
        hm.with_int_values(int(vkind[1:]))
        conv = int
    return hm, conv


def slice_tok(s):
    bits = s.bits.to01() or '-'
    refs = '.'.join(c.hash.hex() for c in s.refs[s.ref_offset:]) or '-'
    return f'{bits}/{refs}'


def show_dict(d):
    """canonical rendering of a parse result IN ITS ITERATION ORDER"""
    if d is None:
        return 'none'
    from ..core import istr
    return ';'.join(f'{istr(k)}={slice_tok(v)}' for k, v in d.items()) or '-'


def call(f):
    try:
        return f()
    except Exception as e:      # every exception == err
        return ('err', type(e).__name__)


def is_err(x):
    return isinstance(x, tuple) and len(x) == 2 and x[0] == 'err'


# ----------------------------------------------------------------------------- one case

def run_case(ctx, n, vkind, ins, base=(), tag=''):
    """ins: list of (key token, value token)"""
    HashMap, Builder, _ = _lib()
    inp = {'n': n, 'vkind': vkind, 'ins': [list(x) for x in ins], 'base': [list(b) for b in base], 'tag': tag}
    cells = G.lib_build(list(base), 'ctor') if base else []
    hm, conv = make_hashmap(n, vkind, cells)
    flags = ''
    exp = {}            # independent expectation: int key -> value token (last write wins)
    interim = []        # results of serialize() calls made DURING the history (token '!'): hash | 'none' | 'err'
    for ktok, vtok in ins:
        if ktok == '!':
            # an interim serialize() on the same object: must not influence anything that follows (nothing may be memoised)
            c0 = call(hm.serialize)
            interim.append('err' if is_err(c0) else ('none' if c0 is None else c0.hash.hex()))
            ctx.count('interim-serialize')
            continue
        key, hk = lib_key(ktok)
        before = dict(hm.map)
        r = call(lambda: hm.set(key, conv(vtok), hash_key=hk))
        ok = not is_err(r)
        flags += '1' if ok else '0'
        nk = norm_key(ktok)
        good = nk is not None and 0 <= nk < (1 << n)
        form = ktok.split(':')[0]
        ctx.count(f'key:{form}:{"ok" if good else "bad"}')
        if good and not ok:
            ctx.fail(f'goodkey-rejected:{form}', f'a key that fits the width was rejected ({ktok}, width {n})', inp, r, 'accepted')
            return
        if not good and ok:
            ctx.fail(f'badkey-accepted:{form}', f'a key that does not fit width {n} was accepted ({ktok} = {nk}); stored keys now {sorted(hm.map)[:6]}',
                     inp, 'accepted', 'DictError')
            return
        if not good and hm.map != before:
            ctx.fail(f'badkey-mutated:{form}', 'a rejected key changed the map', inp, repr(hm.map)[:200], repr(before)[:200])
            return
        if good:
            exp[nk] = vtok
    ctx.case((n, vkind, tuple(ins)), nontrivial=bool(exp), sample={'n': n, 'vkind': vkind, 'ins': [list(x) for x in ins[:4]], 'flags': flags})
    ctx.count('size:%s' % (len(exp) if len(exp) < 9 else '9+'))
    ctx.count('width<%d' % (1 << n.bit_length()))
    if sorted(hm.map) != sorted(exp):
        ctx.fail('keys-aliased', 'the stored key set differs from the accepted keys', inp, sorted(hm.map)[:8], sorted(exp)[:8])
        return
    line = f"hmser {G.dag_line(list(base))[8:] if base else '-'} {n} {vkind} {';'.join('!' if k == '!' else k + '=' + v for k, v in ins) or '-'}"
    tail = (' ' + '.'.join(interim)) if interim else ''
    cell = call(hm.serialize)
    if not exp:
        if cell is not None:
            ctx.fail('empty-not-none', 'serialize() of the empty map is not None', inp, repr(cell), None)
            return
        sd = call(lambda: Builder().store_dict(None).end_cell())
        if is_err(sd) or sd.bits.to01() != '0' or sd.refs:
            ctx.fail('empty-store-dict', 'store_dict(None) is not a single 0 bit', inp, repr(sd), '0')
            return
        for nm, f in (('load_dict', lambda: sd.begin_parse().load_dict(n)), ('preload_dict', lambda: sd.begin_parse().preload_dict(n))):
            if call(f) is not None:
                ctx.fail(f'empty-{nm}', f'{nm} of an empty dictionary did not return None', inp, repr(call(f)), None)
        ctx.expect_model(line, f"ok {flags or '-'} none -{tail}", tag)
        return
    encs = {k: val_enc(vkind, v) for k, v in exp.items()}
    fits = all(e is not None for e in encs.values())
    if fits:
        _, fits = M.ref_nodes(encs, n, base)
    if is_err(cell):
        ctx.count('serialize:err')
        if fits:
            ctx.fail('serialize-raised', f'serialize() raised although every cell fits ({cell[1]})', inp, cell, 'cell')
            return
        ctx.expect_model(line, f'ok {flags} err -{tail}', tag)
        return
    if not fits:
        ctx.fail('overflow-not-raised', 'serialize() returned a cell although the reference dictionary does not fit', inp, 'cell', 'error')
        return
    # ---- oracle: parse(serialize(m)) == sorted(m), through every route
    want_items = []
    for k in sorted(exp):
        b, r = encs[k]
        want_items.append((k, f"{b or '-'}/{'.'.join(cells[i].hash.hex() for i in r) or '-'}"))
    want = ';'.join(f'{k}={v}' for k, v in want_items)
    routes = [
        ('HashMap.parse', lambda: HashMap.parse(cell.begin_parse(), n)),
        ('from_cell', lambda: HashMap.from_cell(cell, n).map),
        ('load_dict', lambda: Builder().store_dict(cell).end_cell().begin_parse().load_dict(n)),
        ('preload_dict', lambda: Builder().store_dict(cell).end_cell().begin_parse().preload_dict(n)),
        ('load_hashmap', lambda: cell.begin_parse().load_hashmap(n)),
        ('maybe_ref', lambda: HashMap.parse(Builder().store_maybe_ref(cell).end_cell().begin_parse().load_maybe_ref().begin_parse(), n)),
    ]
    for name, f in routes:
        got = call(f)
        ctx.count('route:' + name)
        if is_err(got):
            ctx.fail(f'roundtrip-raised:{name}', f'{name} raised {got[1]} on a dictionary the library serialised', inp, got, want)
            return
        g = show_dict(got)
        if g != want:
            why = 'order' if sorted(g.split(';')) == sorted(want.split(';')) else 'content'
            ctx.fail(f'roundtrip-{why}:{name}', f'{name}(serialize(m)) differs from sorted(m) ({why})', inp, g, want)
            return
    if vkind[0] in 'ui' and vkind != 'raw':
        w = int(vkind[1:])
        got = call(lambda: HashMap.parse(cell.begin_parse(), n, value_deserializer=(lambda s: s.load_uint(w)) if vkind[0] == 'u' else (lambda s: s.load_int(w))))
        if is_err(got) or list(got.items()) != [(k, int(exp[k])) for k in sorted(exp)]:
            ctx.fail('roundtrip-values', 'typed values do not come back', inp, repr(got)[:300], repr(sorted(exp.items()))[:300])
            return
    # history: the same HashMap serialises to the same cell again; cells parsed earlier in this process still parse the same
    again = call(hm.serialize)
    if is_err(again) or again.hash != cell.hash:
        ctx.fail('history:serialize-twice', 'a second serialize() of the same HashMap gave a different result', inp, repr(again), cell.hash.hex())
        return
    hist = getattr(ctx, '_c09_hist', [])
    for pc, pn, pw in hist:
        g = show_dict(call(lambda: HashMap.parse(pc.begin_parse(), pn)))
        if g != pw:
            ctx.fail('history:reparse', 'a dictionary cell parsed differently after other dictionaries were serialised/parsed in the same process',
                     inp, g, pw)
            return
    # two dictionaries in one cell: after the first was loaded (its reference consumed), peeking and loading give the SECOND one
    if True:
        if hist:
            pc, pn, pw = hist[-1]
        else:                                                   # replay of a single case: a fixed other dictionary goes first
            h0 = HashMap(8).with_uint_values(8)
            h0.set_int_key(1, 2)
            pc, pn = h0.serialize(), 8
            pw = show_dict(HashMap.parse(pc.begin_parse(), 8))
        two = Builder().store_dict(pc).store_dict(cell).store_uint(5, 3).end_cell()
        sl = two.begin_parse()
        seq = [('load_dict#1', lambda: sl.load_dict(pn), pw), ('preload_dict#2', lambda: sl.preload_dict(n), want),
               ('preload_dict#2 again', lambda: sl.preload_dict(n), want), ('load_dict#2', lambda: sl.load_dict(n), want)]
        for name, f, w in seq:
            got = call(f)
            ctx.count('route:two-dicts')
            if is_err(got) or show_dict(got) != w:
                ctx.fail('roundtrip-content:two-dicts', f'{name} on a slice holding two dictionaries does not return that dictionary', inp,
                         got if is_err(got) else show_dict(got), w)
                return
        if sl.remaining_bits != 3 or sl.remaining_refs != 0:
            ctx.fail('roundtrip-content:two-dicts', 'loading two dictionaries did not consume exactly two bits and two references', inp,
                     [sl.remaining_bits, sl.remaining_refs], [3, 0])
            return
    ctx._c09_hist = (hist + [(cell, n, want)])[-3:]
    sd = Builder().store_dict(cell).end_cell()
    if sd.bits.to01() != '1' or len(sd.refs) != 1 or sd.refs[0].hash != cell.hash:
        ctx.fail('store-dict', 'store_dict(cell) is not a 1 bit and one reference', inp, repr(sd), '1 + ref')
        return
    ctx.expect_model(line, f'ok {flags} {cell.hash.hex()} ok {want}{tail}', tag)


# ----------------------------------------------------------------------------- case generation

def val_for(rng, vkind, nbase):
    if vkind == 'raw':
        b = G.rand_bits(rng, rng.choice([0, 1, 3, 8, 17]))
        r = [rng.randrange(nbase) for _ in range(rng.choice([0, 0, 1, 2]))] if nbase else []
        return f"{b or '-'}/{'.'.join(map(str, r)) or '-'}"
    if vkind == 'c':
        return str(rng.choice([0, 1, 255, 256, rng.getrandbits(40)]))
    w = int(vkind[1:])
    if vkind[0] == 'u':
        return str(rng.getrandbits(w))
    return str(rng.getrandbits(w) - (1 << (w - 1)))


BASE = [(G.ORD, '1011', ()), (G.ORD, '', ()), (G.ORD, '11110000', (0, 1))]


def int_case(ctx, n, keys, vkind='u4', tag='', base=()):
    rng = ctx.rng
    ins = [(f'i:{k}', val_for(rng, vkind, len(base))) for k in keys]
    run_case(ctx, n, vkind, ins, base, tag)


def key_forms(rng, n, k):
    """token forms denoting the in-range integer k for width n"""
    forms = [f'i:{k}', f's:{format(k, "b").zfill(n)}', f's:{format(k, "b")}']
    nb = (n + 7) // 8
    forms.append(f'y:{k.to_bytes(nb, "big").hex()}')
    forms.append(f'y:{k.to_bytes(nb + 2, "big").hex()}')       # over-long bytes with leading zero bytes: same integer
    return forms


def src_search(ctx):
    """Search mode only: the (key, width) points where the regenerated range test of set_int_key (Generated/DictKey.lean) differs from
    the model's, replayed as one-key dictionaries (the key must be accepted iff 0 <= key < 2^width; an accepted key must round-trip).
    True = a concrete failing input was found."""
    found = arith2.search_points(ctx, ['DictKey'])
    n0 = len(ctx.failures)
    for pt in (found.get('keyRejected') or [])[:16]:
        if 1 <= pt['size'] <= 1023:
            run_case(ctx, pt['size'], 'u3', [(f'i:{pt["key"]}', '1')], (), 'src-key')
            run_case(ctx, pt['size'], 'u3', [('i:0', '2'), (f'i:{pt["key"]}', '1')], (), 'src-key2')
    # regenerated parser / serialiser (Generated/HashmapSrc.lean) vs hand model: the differing dictionaries are round-tripped first
    hm = hmsrc.diff_points(ctx)
    for n, items in hm['ser'][:20]:
        if 1 <= n <= 1023:
            run_case(ctx, n, 'u3', [(f'i:{k}', str((i * 3 + 1) % 8)) for i, (k, _) in enumerate(items)], (), 'src-ser')
    # regenerated HashMap.set key normalisation (Generated/HashmapGlue.lean) vs hand model: the differing keys as one-key dictionaries
    for size, form, key in hmglue.diff_points(ctx)[:24]:
        if not 1 <= size <= 1023:
            continue
        tok = {'int': lambda: f'i:{key}', 'bytes': lambda: f'y:{key or "-"}', 'str': lambda: f's:{key or "-"}',
               'hashed': lambda: f'h:{key.encode().hex() or "-"}', 'addr': lambda: f'a:{key[0]}:{key[1]}'}[form]()
        run_case(ctx, size, 'u3', [(tok, '1')], (), 'src-glue')
        run_case(ctx, size, 'u3', [('i:0', '2'), (tok, '1')], (), 'src-glue2')
    return len(ctx.failures) > n0



def typed_none_values(ctx):
    """Values a typed serialiser ACCEPTS although they are None / falsy: `None` under with_address_values (addr_none, two 0 bits), an
    empty inner dictionary under a store_dict serialiser (one 0 bit), 0 under uint / coins values, an empty cell under the default
    serialiser.  A leaf is a leaf because the key set says so, not because its value is truthy: the dictionary must equal the one the
    RAW route (bit strings written verbatim - the route the model comparison and the canonical-form checks cover) builds from the same
    leaf bits, and every leaf must read back with exactly those bits."""
    HashMap, Builder, _ = _lib()
    from pytoniq_core.boc.address import Address
    from pytoniq_core.boc.cell import Cell
    rng = ctx.rng
    addr = Address((0, bytes(range(32))))
    addr_bits = '100' + format(0, '08b') + ''.join(format(b, '08b') for b in range(32))

    def kinds():
        yield 'address', (lambda hm: hm.with_address_values()), [(None, '00'), (addr, addr_bits)]
        yield 'dict', (lambda hm: setattr(hm, 'value_serializer', lambda src, dest: dest.store_dict(src)) or hm), [(None, '0')]
        yield 'uint', (lambda hm: hm.with_uint_values(7)), [(0, '0000000'), (5, '0000101')]
        yield 'coins', (lambda hm: hm.with_coins_values()), [(0, '0000'), (1, '000100000001')]
        yield 'maybe', (lambda hm: setattr(hm, 'value_serializer', lambda src, dest: dest.store_maybe_ref(src)) or hm), [(None, '0')]
        yield 'cell', (lambda hm: hm), [(Cell.empty(), '')]

    for name, setup, vals in kinds():
        for n in (1, 2, 8, 32):
            for size in (1, 2, 3, 5):
                if size > (1 << n):
                    continue
                for trial in range(ctx.n(2, 6)):
                    keys = rng.sample(range(1 << n), size) if n <= 16 else [rng.randrange(1 << n) for _ in range(size)]
                    keys = list(dict.fromkeys(keys))
                    pick = [vals[(i + trial) % len(vals)] for i in range(len(keys))]
                    if trial == 0:
                        pick = [vals[0]] * len(keys)          # all values falsy
                    inp = {'kind': 'typed-none', 'serializer': name, 'n': n, 'keys': keys, 'leaf_bits': [b for _, b in pick]}
                    ctx.case(('typed-none', name, n, tuple(keys), tuple(b for _, b in pick)), nontrivial=True,
                             sample={'serializer': name, 'n': n, 'keys': keys[:4]})
                    ctx.count('typed-none:' + name)
                    typed = setup(HashMap(n))
                    raw = HashMap(n)
                    raw.value_serializer = lambda src, dest: dest.store_bits(src)
                    r = call(lambda: [typed.set(k, v) for k, (v, _) in zip(keys, pick)])
                    if is_err(r):
                        ctx.fail(f'typed-none:set-raised:{name}', f'set() refused a value its {name} serialiser accepts', inp, r, 'accepted')
                        continue
                    for k, (_, b) in zip(keys, pick):
                        raw.set(k, b)
                    c1, c2 = call(typed.serialize), call(raw.serialize)
                    if is_err(c2):
                        ctx.corr_broken(f'raw route raised on {inp}: {c2}')
                        continue
                    if is_err(c1):
                        ctx.fail(f'typed-none:serialize-raised:{name}', f'serialize() raised on values the {name} serialiser accepts', inp, c1, 'cell')
                        continue
                    if c1.hash != c2.hash:
                        ctx.fail(f'typed-none:cell:{name}', f'dictionary with {name} values (None / falsy among them) is not the dictionary of its leaf bits',
                                 inp, c1.hash.hex(), c2.hash.hex())
                        continue
                    got = call(lambda: HashMap.parse(c1.begin_parse(), n))
                    want = {k: b for k, (_, b) in zip(keys, pick)}
                    if is_err(got) or {k: v.bits.to01() for k, v in got.items()} != want or list(got) != sorted(want):
                        ctx.fail(f'typed-none:roundtrip:{name}', 'the leaves do not read back with the bits their values were written as', inp,
                                 repr(got)[:200], repr(want)[:200])

def run(ctx):
    rng = ctx.rng
    if ctx.search and src_search(ctx):
        return
    odd_key_types(ctx)
    typed_none_values(ctx)             # None / falsy values a typed serialiser accepts are still leaves
    c09_keyopts.key_options(ctx)        # keys through the key_serializer= / key_deserializer= options
    c09_keyopts.string_key_spellings(ctx)   # every spelling int(s, 2) admits: sign, blanks, underscores, 0b
    c09_twoform.two_form_keys(ctx, run_case)    # keys well-formed in two key forms at once: filed under the declared reading only
    # --- widths 1..3 exhaustive over key sets; insertion orders: all (w<=2, and w=3 in thorough) or 4 per set
    for n in (1, 2, 3):
        universe = list(range(1 << n))
        for size in range(0, len(universe) + 1):
            for keys in itertools.combinations(universe, size):
                if n <= 2 or ctx.thorough or size <= 4:
                    orders = itertools.permutations(keys)
                else:
                    orders = M.all_orders(keys, 4, rng)
                for order in orders:
                    int_case(ctx, n, order, 'u3', f'w{n}')
    # repeated keys (last write wins, position of first insertion kept)
    for _ in range(ctx.n(150, 1500)):
        n = rng.choice([1, 2, 3, 4, 8])
        seq = [rng.randrange(1 << n) for _ in range(rng.randrange(2, 9))]
        int_case(ctx, n, seq, rng.choice(['u5', 'i7', 'c']), 'repeat')
    # object histories: serialize() called in the middle of the writes (before an overwrite, before a new key, at the start);
    # the final cell and every interim cell must be those of the map at that moment (nothing memoised between calls)
    for t in range(ctx.n(400, 4000)):
        n = rng.choice([1, 2, 3, 4, 8, 32])
        vk = rng.choice(['u5', 'i7', 'c', 'u5'])
        keys = [rng.randrange(1 << n) for _ in range(rng.randrange(1, 4))]
        seq = []
        for _ in range(rng.randrange(2, 10)):
            k = rng.choice(keys) if rng.random() < 0.7 else rng.randrange(1 << n)
            seq.append((f'i:{k}', val_for(rng, vk, 0)))
            if rng.random() < 0.45:
                seq.append(('!', ''))
        if rng.random() < 0.2:
            seq.insert(0, ('!', ''))
        if rng.random() < 0.3:
            seq.insert(rng.randrange(len(seq) + 1), (f'i:{-1 - rng.randrange(3)}', '1'))      # a rejected key in between
        run_case(ctx, n, vk, seq, (), f'hist{t}')
    # --- width 4: all non-empty key sets (thorough) / sampled
    if ctx.thorough:
        masks = range(1, 1 << 16)
    else:
        masks = sorted({rng.randrange(1, 1 << 16) for _ in range(4096)} | {1, 0xffff, 0x8001, 0x00ff, 0xff00, 0x5555, 0xaaaa})
    for m in masks:
        keys = [i for i in range(16) if m >> i & 1]
        rng.shuffle(keys)
        int_case(ctx, 4, keys, 'u2', 'w4')
    # --- widths 5..1023, prefix-sharing patterns, several value kinds incl. refs
    for t in range(ctx.n(1200, 9000)):
        n = M.rand_width(rng)
        keys = M.pattern_keys(rng, n)
        rng.shuffle(keys)
        vkind = rng.choice(['u1', 'u8', 'u32', 'i16', 'c', 'raw', 'raw'])
        int_case(ctx, n, keys, vkind, f'pat{t}', BASE if vkind == 'raw' else ())
    # --- capacity: label + value around 1023 bits
    for n in (1000, 1015, 1021, 1022, 1023):
        for w in (1, 2, 3, 8, 10, 11, 12, 13, 14, 23, 24):
            run_case(ctx, n, f'u{w}', [(f'i:{rng.getrandbits(n)}', '0')], (), 'cap1')               # single key: label = whole key (long/short)
            run_case(ctx, n, f'u{w}', [('i:0', '1')], (), 'cap-same0')                                # all-zero key: same label
            run_case(ctx, n, f'u{w}', [(f'i:{(1 << n) - 1}', '1'), ('i:0', '0')], (), 'cap2')
    run_case(ctx, 8, 'raw', [('i:1', '1/0.1.2.0.1')], BASE, 'cap-refs5')
    run_case(ctx, 8, 'raw', [('i:1', '1/0.1.2.0')], BASE, 'cap-refs4')
    run_case(ctx, 8, 'u4', [('i:1', '16')], (), 'bad-value')
    # --- key forms
    for t in range(ctx.n(250, 2500)):
        n = rng.choice([1, 2, 7, 8, 9, 16, 32, 64, 256, 267])
        ins = []
        for _ in range(rng.randrange(1, 6)):
            k = rng.choice([0, 1, (1 << n) - 1, rng.getrandbits(n), rng.getrandbits(n) >> rng.randrange(n)])
            ins.append((rng.choice(key_forms(rng, n, k)), str(rng.getrandbits(6))))
        run_case(ctx, n, 'u6', ins, (), f'forms{t}')
    for t in range(ctx.n(60, 600)):
        ins = []
        for _ in range(rng.randrange(1, 5)):
            wc = rng.choice([0, -1, 1, 127, -128])
            h = rng.choice([bytes(32), b'\xff' * 32, rng.randbytes(32)])
            tok = f'a:{wc}:{h.hex()}'
            if rng.random() < 0.25:
                d = rng.randrange(1, 31)
                tok += f':{d}:{rng.getrandbits(d)}'
            ins.append((tok, str(rng.getrandbits(8))))
        run_case(ctx, 267, 'u8', ins, (), f'addr{t}')
        texts = [rng.choice(['name', 'description', 'image', '', 'ü', 'x' * 70]) for _ in range(rng.randrange(1, 4))]
        run_case(ctx, 256, 'u8', [(f"h:{s.encode().hex() or '-'}", str(i)) for i, s in enumerate(texts)], (), f'hashed{t}')
        run_case(ctx, rng.choice([255, 128]), 'u8', [(f"h:{s.encode().hex() or '-'}", str(i)) for i, s in enumerate(texts)], (), f'hashed-narrow{t}')
        run_case(ctx, 266, 'u8', ins[:1], (), f'addr-narrow{t}')
        # an Address key IS the 267-bit MsgAddressInt (the tag and the workchain are part of the key): at any narrower width it does
        # not fit (in particular not at 256, where only the account id would fit), at a wider one it is that 267-bit integer
        run_case(ctx, rng.choice([256, 256, 264, 8, 1]), 'u8', ins[:2], (), f'addr-narrower{t}')
        run_case(ctx, rng.choice([268, 300, 512]), 'u8', ins[:2], (), f'addr-wider{t}')
    # --- invalid keys mixed with valid ones
    for t in range(ctx.n(400, 4000)):
        n = rng.choice([1, 2, 3, 4, 7, 8, 9, 16, 31, 32, 64, 255, 256, 267, 1023])
        top = 1 << n
        bads = [f'i:{-1}', f'i:{-rng.randrange(1, top + 2)}', f'i:{top}', f'i:{top + 1}', f'i:{top + rng.getrandbits(n)}', f'i:{-top}',
                f'i:{top << rng.randrange(1, 9)}', f's:{format(top, "b")}', f's:1{format(rng.getrandbits(n), "b").zfill(n)}', 's:-',
                f'y:{(top + rng.getrandbits(n)).to_bytes((n + 8) // 8 + 1, "big").hex()}', f'y:{"ff" * ((n + 7) // 8 + 1)}']
        if n % 8:
            bads.append(f'y:{"ff" * ((n + 7) // 8)}')
        ins = []
        for _ in range(rng.randrange(1, 6)):
            if rng.random() < 0.5:
                ins.append((rng.choice(bads), str(rng.getrandbits(4))))
            else:
                k = rng.choice([0, 1, top - 1, rng.getrandbits(n)])
                ins.append((rng.choice(key_forms(rng, n, k)), str(rng.getrandbits(4))))
        run_case(ctx, n, 'u4', ins, (), f'bad{t}')


def odd_key_types(ctx):
    """keys that are none of int / bytes / bit string / Address: refused, map unchanged (never silently ignored or stored)"""
    HashMap, _, _ = _lib()
    for bad in (3.0, None, [1], (1,), bytearray(b'\x01'), 1.5, {'k': 1}, True):
        hm = HashMap(8).with_uint_values(8)
        hm.set_int_key(5, 6)
        before = dict(hm.map)
        r = call(lambda: hm.set(bad, 7))
        ctx.case(('odd-key', repr(bad)))
        ctx.count('key:odd-type')
        after = dict(hm.map)
        if isinstance(bad, bool):
            # bool IS an int in Python: True is key 1 (allowed either way, but then it must be stored under 1)
            if not is_err(r) and after != {**before, 1: 7}:
                ctx.fail('badkey-accepted:bool', 'set(True, v) neither refused nor stored under key 1', {'key': repr(bad)}, repr(after), 'key 1 or DictError')
            continue
        if not is_err(r) or after != before:
            ctx.fail('badkey-accepted:type', f'a key of type {type(bad).__name__} was not refused (or changed the map)', {'key': repr(bad)},
                     'returned' if not is_err(r) else repr(after), 'DictError, map unchanged')


def replay(ctx, payload):
    inp = payload.get('input') or {}
    if inp.get('kind') == 'twoform':
        c09_twoform.replay_case(ctx, inp)
    elif inp.get('kind') == 'typed-none':
        typed_none_values(ctx)                  # deterministic for the seed; the failing case is among them
    elif 'ins' in inp:
        run_case(ctx, inp['n'], inp['vkind'], [tuple(x) for x in inp['ins']], [(k, b, tuple(r)) for k, b, r in inp.get('base', [])],
                 inp.get('tag', 'replay'))
    elif 'key_serializer' in inp or 'history' in inp:
        c09_keyopts.key_options(ctx)            # the key option histories (deterministic for the seed)
    elif 'denotes' in inp:
        c09_keyopts.string_key_spellings(ctx)
