"""C16: transaction, account and block parsers read exactly what block.tlb specifies.

Oracle = the Lean spec codecs (Spec/Tlb/Block.lean; round-trip theorems in Properties/C16.lean).  The driver
generates a value of a TL-B type, encodes it with the SPEC ENCODER into a cell followed by a known trailer of
bits and refs, and prints the value; here the real cells are built, parsed with the library's `T.deserialize`,
read back field by field through the attribute table `READERS` below, and compared with the printed value; the
slice must be left with exactly the trailer.  The bundled main-net block is decoded by the spec decoder and by
the library and compared the same way."""
import json
import re

from ..gen import tlbvals as V
from .. import tracetlb as TR
from .. import tlbsrc as SRC
from .. import tlbsrc_tx as SRCTX
from .. import tlbsrc_blk as SRCBLK

SPEC = dict(
    manifest=dict(
        category='proof',
        text='Every covered block.tlb type is a term of lawful codec combinators in Lean; for each there is a machine-checked '
             'theorem that the spec decoder inverts the spec encoder for ALL values and consumes exactly the encoded bits and '
             'refs (any continuation), plus prefix-freeness of all constructor tags. The library parsers are tied to the spec '
             'encoder by sampled encoder->parser correspondence (every field and the remaining bits/refs compared), by '
             'decoding the bundled main-net block with both the spec decoder and the library, and by a READ-TRACE comparison: '
             'every read the parser performs (kind, width, signedness, cell, order; which read ends up in which attribute) is '
             'recorded through a recording Slice and compared with the read sequence of the spec codec (Codec.trace, proved to be an '
             'exact read script of the spec encoding: c16_trace_accounts_for_encoding + Traced T for every covered type) on every '
             'sampled value, on the main-net block and on one generated value per PATH of the schema term (tag alternatives x Maybe/'
             'Either bits x flag fields with their dependent fields). PATH-COMPLETE (all paths of the whole term, <= 300, nested '
             'types included): MsgAddressExt, MsgAddressInt (load_address), CommonMsgInfo, AccStatusChange, Account, AccountBlock, AccountState, AccountStatus, AccountStorage, BlkMasterInfo, '
             'BlkPrevInfo, BlockCreateStats, BlockInfo, CatchainConfig, ComputeSkipReason, ConfigParams, ConsensusConfig, Counters, '
             'CreatorStats, CurrencyCollection, DepthBalanceInfo, ExtBlkRef, ExtraCurrencyCollection, FutureSplitMerge, GlobalVersion, '
             'HashUpdate, ImportFees, InMsgDescr, IntermediateAddress, KeyExtBlkRef, KeyMaxLt, McStateExtra, MsgMetadata, '
             'OldMcBlocksInfo, OutMsgDescr, ShardAccount, ShardAccountBlocks, ShardAccounts, ShardDescr, ShardHashes, ShardIdent, '
             'SigPubKey, SplitMergeInfo, StateInit, StorageInfo, StorageUsed, StorageUsedShort, TickTock, TrActionPhase, '
             'TrBouncePhase, TrComputePhase, TrCreditPhase, TrStoragePhase, ValidatorDescr, ValidatorInfo, ValidatorSet. '
             'LOCAL path-complete (every path of the type\'s own branch structure = one parser function; nested named types sampled '
             'and covered by their own rows): TransactionDescr, Transaction, ^Message, MsgEnvelope, InMsg, OutMsg, ValueFlow, McBlockExtra, '
             'BlockExtra, Block, ShardStateUnsplit, ShardState. SAMPLED only: dictionary (Hashmap/HashmapAug Patricia tree) and '
             'BinTree shapes (empty / non-empty are paths, the tree is random), prepare_transaction nesting depth (<= 3), field '
             'values (the trace fixes their width and signedness). Covered: Transaction, '
             'TransactionDescr(7), TrStoragePhase, TrCreditPhase, TrComputePhase(2), TrActionPhase, TrBouncePhase(3), '
             'AccStatusChange, ComputeSkipReason, SplitMergeInfo, AccountStatus, HashUpdate, Account, StorageInfo, StorageUsed, '
             'StorageUsedShort, AccountStorage, AccountState, StateInit, ShardAccount, ShardAccounts, DepthBalanceInfo, AccountBlock, '
             'BlockInfo, ShardIdent, GlobalVersion, BlkMasterInfo, BlkPrevInfo, ExtBlkRef, ValueFlow(2), ShardDescr(2), '
             'FutureSplitMerge, ShardHashes/BinTree, ValidatorSet(2), ValidatorDescr(2), SigPubKey, CatchainConfig(2), '
             'ConsensusConfig(4), InMsg(9), OutMsg(10), MsgEnvelope(2), IntermediateAddress(3), MsgMetadata, ImportFees, '
             'CurrencyCollection, Message Any (as read by these parsers), ValidatorInfo, KeyExtBlkRef, KeyMaxLt, Counters, '
             'CreatorStats, BlockCreateStats(2), McStateExtra, McBlockExtra, ShardFees, BlockExtra, ConfigParams, Block, '
             'ShardStateUnsplit, ShardState(2), LibDescr. '
             'PARTIAL: config parameters other than ValidatorSet/CatchainConfig/ConsensusConfig (ConfigParam0..82) are not '
             'modelled; OutMsgQueueInfo, the Merkle state update of a Block and the two ^InMsg of McBlockExtra are opaque cells '
             '(as in the parser); chained signatures and addr_var addresses are not generated. '
             'SOURCE TIE (regenerated + proved): the deserialize classmethods of 29 parser classes are regenerated into Lean on every run '
             '(harness/translate/tlbparsers.py -> Generated/TlbParsers.lean) and for each a theorem c16_src_<Class> proves, for ALL values and '
             'ANY trailer, that the regenerated parser run on the spec encoding returns every field with its encoded value (declared view '
             'Spec/Tlb/PyView.lean) and consumes exactly the encoded bits and refs: HashUpdate, TickTock, StorageUsed, StorageUsedShort, '
             'StorageInfo, AccountStatus, StateInit, AccountState, ExtBlkRef, BlkMasterInfo, BlkPrevInfo (0/1), KeyExtBlkRef, KeyMaxLt, Counters, '
             'CreatorStats, ValidatorInfo, ShardIdent, GlobalVersion, SplitMergeInfo, SigPubKey, AccStatusChange, ComputeSkipReason, '
             'TrStoragePhase, TrComputePhase, TrBouncePhase, FutureSplitMerge, IntermediateAddress, ValidatorDescr, CatchainConfig. '
             'SOURCE TIE, second part (tlb/transaction.py; harness/translate/tlbparsers_tx.py -> Generated/TlbParsersTx.lean, views '
             'Spec/Tlb/PyViewTx.lean): 23 more classes regenerated and proved the same way: CurrencyCollection and ExtraCurrencyCollection '
             '(load_dict with the dictionary walk proved to return the entries of the decoded HashmapE value), TrActionPhase, TrCreditPhase, '
             'ImportFees, InternalMsgInfo, ExternalMsgInfo, ExternalOutMsgInfo, CommonMsgInfo, MessageAny (value; also through a reference), '
             'MsgMetadata, MsgEnvelope (both versions), the seven TransactionDescr classes and the TransactionDescr dispatch, Transaction '
             '(for EVERY nesting budget of prepare_transaction:^Transaction; out_msgs dictionary included), InMsg (9 constructors), OutMsg '
             '(10). Types that contain a MsgAddressInt carry the hypothesis that no addr_var address occurs in the value (load_address has '
             'none). load_address itself and the dictionary walk are hand models (Model/TlbRdTx.lean) proved against the spec '
             '(c16_model_load_address_*, c16_model_dict_walk) and validated against the library every run. '
             'SOURCE TIE, third part (tlb/account.py, block.py, config.py; harness/translate/tlbparsers_blk.py -> Generated/TlbParsersBlk.lean, '
             'views Spec/Tlb/PyViewBlk.lean): 22 more classes with a theorem c16_src_<Class> of the same form: ConsensusConfig (4 constructors; '
             'constant tag table), BlockInfo (conditional fields GlobalVersion / master_ref / prev_vert_ref, BlkPrevInfo after_merge), '
             'DepthBalanceInfo, ValueFlow (both tags), ShardDescr (both tags), AccountStorage, Account, ShardAccount, ValidatorSet '
             '(validators#11 inline Hashmap read by load_hashmap, validators_ext#12 HashmapE), ShardAccounts / OldMcBlocksInfo / '
             'BlockCreateStats (load_hashmap_aug_e: the (dict, extras) tuple of the decoded HashmapAugE), ConfigParams (signed keys, Slice '
             'values), McStateExtra (shard hashes, config, the ^[...] group, block_create_stats iff flags.0), ShardStateUnsplit (accounts, '
             'the ^[...] group, custom McStateExtra), ShardState (both alternatives), McBlockExtra (shard hashes, ShardFees = Maybe reference + the two '
             'CurrencyCollections of its extra, the ^[...] group, config iff key_block), AccountBlock (inline HashmapAug 64 ^Transaction '
             'CurrencyCollection read by load_hashmap_aug), BlockExtra (the three descriptor dictionaries through the regenerated InMsg / OutMsg / '
             'AccountBlock parsers, custom McBlockExtra), Block (for an ordinary state_update cell: MerkleUpdate.deserialize returns None; a real '
             'Merkle update is outside the model). Hand models proved against the spec and validated against the library every run: '
             'load_hashmap (c16_model_dict_walk_inline), load_hashmap_aug_e / parse_aug (c16_model_aug_walk), deserialize_shard_hashes + '
             'BinTree.deserialize (c16_model_shard_hashes; their source text is pinned by the translator). Declared: values of a dictionary '
             'read without a value_deserializer (libraries, prev_blk_signatures) are raw Slices and McBlockExtra.shard_fees (the root cell of a '
             'dictionary the parser does not walk) is a cell, both compared by presence; the ShardAccount cell= bookkeeping argument is not part '
             'of the statement; the text of MerkleUpdate.deserialize is pinned. '
             'Remaining on the sampled and read-trace layers only: a Block with a real Merkle update (the bundled main-net block), the other '
             'config parameters, LibRef / OutAction / OutList.',
        level_note='Theorems are about the Lean spec codec pair (the independent implementation of the schema), for all values. '
                   'For the 29 classes of the SOURCE TIE the parser is regenerated from the source and proved (trusted there: the '
                   'hand model of the Slice methods Model/TlbRd.lean and the translator, both validated every run against the real '
                   'deserialize on generated cells, and the declared views); likewise for the 23 classes of the second part (trusted in addition: '
                   'Model/TlbRdTx.lean = load_address, load_dict with its Patricia walk, the optional / via-reference combinators; the Transaction '
                   'cell= bookkeeping argument is not part of the statement); likewise for the 22 classes of the third part (trusted in addition: '
                   'Model/TlbRdBlk.lean = load_hashmap, load_hashmap_aug_e with its walk, load_hashmap_aug, deserialize_shard_hashes and MerkleUpdate.deserialize (ordinary cells only) with '
                   'pinned source text, raw dictionary leaves and shard_fees by presence; Spec/Tlb/PyViewBlk.lean). The other Python parsers are NOT translated: they are tied by differential testing against the spec encoder on '
                   'generated values (every constructor, optional-field combination, boundary and random field values), on '
                   'the bundled block, and by agreement of the typed read sequence on every path of the schema (path-complete / '
                   'local path-complete lists in the text) — a parser branching on a field VALUE the schema does not branch on is '
                   'outside that enumeration. Trusted: transcription of block.tlb into Spec/Tlb/Block.lean, the attribute table in '
                   'harness/props/C16.py, harness/tracetlb.py (recording slice, trace alignment), the driver and cell construction.',
        technique='Lean 4 proof (lawful codec combinators, laws composed by type-class resolution; 29 parser classes regenerated from '
                  'source and proved to refine the spec decoder, + 23 classes of tlb/transaction.py incl. Transaction for every nesting budget, + 22 classes of '
                  'account.py / block.py / config.py incl. ValidatorSet, McStateExtra, ShardStateUnsplit, BlockExtra, Block) + differential '
                  'encoder->parser correspondence with the library + path-complete read-trace comparison (recording slice vs '
                  'proved spec trace)'),
    translators=SRC.translator_entries() + SRCTX.translator_entries() + SRCBLK.translator_entries(),
    design_ref='DESIGN.md §6 C16',
    rule='for every covered type: values generated by the Lean codec generators (every constructor alternative and Maybe/Either '
         'choice at random, integer fields from {0, 1, max, top bit, random}, random bit strings, random small Patricia trees) '
         'encoded by the spec encoder with a random trailer of bits and refs; plus one value per PATH of the schema term '
         '(tlbpaths full / loc, cap 300 quick, 3000 thorough; a path = its index in the fixed enumeration order); '
         'distinct = distinct (type, seed) / (type, mode, seed, path index); non-trivial = encodable',
    trusted_base=['Model/TlbRd.lean (meaning of the Slice methods), harness/translate/tlbparsers.py, Spec/Tlb/PyView.lean (declared views) for the c16_src_* theorems',
                  'Model/TlbRdTx.lean (load_address, load_dict + dictionary walk, optional / viaRef), harness/translate/tlbparsers_tx.py, Spec/Tlb/PyViewTx.lean for the c16_src_* theorems of tlb/transaction.py',
                  'Model/TlbRdBlk.lean (load_hashmap, load_hashmap_aug_e + walk, deserialize_shard_hashes hand model with pinned source, raw dictionary leaves), harness/translate/tlbparsers_blk.py, Spec/Tlb/PyViewBlk.lean for the c16_src_* theorems of account.py / block.py / config.py',
                  'Spec/Tlb/Block.lean transcribes block.tlb (+ upstream constructors the parsers read) by hand',
                  'harness/props/C16.py READERS: library attribute <-> schema field table', 'harness/gen/tlbvals.py flattening of spec trees',
                  'Drv/Tlb.lean value printing and DAG emission; harness/gen/cells.lib_build',
                  'harness/tracetlb.py: RecSlice records every primitive read of pytoniq_core.boc.slice.Slice; alignment rules of compare()'],
    assumptions=['encoder->parser correspondence is sampled differential testing; read-trace agreement is per path of the SCHEMA term',
                 'dictionary / BinTree shapes and the prepare_transaction nesting depth are sampled, not enumerated',
                 'Transaction nesting (prepare_transaction) is generated to depth 3; the theorem holds for every budget',
                 'addr_var addresses are in the spec but not generated (library has no addr_var; addresses belong to C06/C15)'],
)


class Bad(Exception):
    """library object does not have the shape the schema promises"""


# ----------------------------------------------------------------------------- readers (attribute table)

def I(o):
    if not isinstance(o, int):
        raise Bad(f'expected int, got {type(o).__name__}')
    return o


def BITS(o):
    from bitarray import bitarray
    if isinstance(o, (bytes, bytearray)):
        r = ''.join(format(x, '08b') for x in o)
        return TR.PStr(r, o._ev) if hasattr(o, '_ev') else r      # provenance of a traced read survives the table
    if isinstance(o, str):
        return ''.join(format(x, '08b') for x in bytes.fromhex(o))
    if isinstance(o, bitarray):
        return o.to01()
    raise Bad(f'expected bytes/hex/bitarray, got {type(o).__name__}')


def CELL(o):
    from pytoniq_core.boc.cell import Cell
    if not isinstance(o, Cell):
        raise Bad(f'expected Cell, got {type(o).__name__}')
    return V.lib_cell_canon(o)


def NONE(o):
    return None


def MAYBE(sub):
    return lambda o: None if o is None else sub(o)


def rec(*fields):
    """fields: (schema name, library attribute | None = same object, reader)"""
    def rd(o):
        out = {}
        for name, attr, sub in fields:
            if attr is None:
                out[name] = sub(o)
                continue
            if not hasattr(o, attr):
                raise Bad(f'no attribute {attr!r} (schema field {name}) on {type(o).__name__}')
            out[name] = sub(getattr(o, attr))
        return out
    return rd


def F(*names):
    """plain int/bool fields with identical names"""
    return [(n, n, I) for n in names]


def alts(selector, table):
    def rd(o):
        k = selector(o)
        if k not in table:
            raise Bad(f'unknown variant {k!r} on {type(o).__name__}')
        name, sub = table[k]
        return {'$': name, 'v': sub(o)}
    return rd


def by_type(table):
    return alts(lambda o: getattr(o, 'type_', None), table)


def DICT(sub):
    return lambda o: ('dict', {} if o is None else {I(k): sub(v) for k, v in o.items()})


def VALS(sub):
    return lambda o: ('vals', [sub(v) for v in o])


def AUG(xsub, ysub):
    def rd(o):
        if not (isinstance(o, tuple) and len(o) == 2):
            raise Bad(f'expected (dict, extras), got {type(o).__name__}')
        d, extras = o
        # the top-level extra of a HashmapAugE is not part of the result, except for the empty map: ({}, [extra])
        return ('aug', {I(k): xsub(v) for k, v in d.items()}, [ysub(e) for e in extras])
    return rd


def EITHER(sub):
    return lambda o: ('either', sub(o))


def addr_int(o):
    from pytoniq_core.boc.address import Address
    if not isinstance(o, Address):
        raise Bad(f'expected Address, got {type(o).__name__}')
    any_ = None
    if o.anycast is not None:
        any_ = {'depth': I(o.anycast.depth), 'rewrite_pfx': format(I(o.anycast.rewrite_pfx), f'0{o.anycast.depth}b')}
    return {'$': 'addr_std', 'v': {'anycast': any_, 'workchain_id': I(o.wc), 'address': BITS(o.hash_part)}}


def addr_ext(o):
    from pytoniq_core.boc.address import ExternalAddress
    if o is None:
        return {'$': 'addr_none', 'v': None}
    if not isinstance(o, ExternalAddress):
        raise Bad(f'expected ExternalAddress, got {type(o).__name__}')
    ln = I(o.len)
    return {'$': 'addr_extern', 'v': {'len': ln, 'external_address': format(I(o.external_address), f'0{ln}b') if ln else ''}}


R = {}
R['MsgAddressInt'] = addr_int
R['MsgAddressExt'] = addr_ext
R['ExtraCurrencyCollection'] = rec(('dict', 'dict', DICT(I)))
R['CurrencyCollection'] = rec(('grams', 'grams', I), ('other', 'other', R['ExtraCurrencyCollection']))
CC = R['CurrencyCollection']
R['TickTock'] = rec(*F('tick', 'tock'))
R['StateInit'] = rec(('split_depth', 'split_depth', MAYBE(I)), ('special', 'special', MAYBE(R['TickTock'])),
                     ('code', 'code', MAYBE(CELL)), ('data', 'data', MAYBE(CELL)), ('library', 'library', MAYBE(CELL)))
R['CommonMsgInfo'] = alts(lambda o: type(o).__name__, {
    'InternalMsgInfo': ('int_msg_info', rec(*F('ihr_disabled', 'bounce', 'bounced'), ('src', 'src', addr_int), ('dest', 'dest', addr_int),
                                            ('value', 'value', CC), *F('ihr_fee', 'fwd_fee', 'created_lt', 'created_at'))),
    'ExternalMsgInfo': ('ext_in_msg_info', rec(('src', 'src', addr_ext), ('dest', 'dest', addr_int), ('import_fee', 'import_fee', I))),
    'ExternalOutMsgInfo': ('ext_out_msg_info', rec(('src', 'src', addr_int), ('dest', 'dest', addr_ext), *F('created_lt', 'created_at'))),
})
R['Message'] = rec(('info', 'info', R['CommonMsgInfo']), ('init', 'init', MAYBE(EITHER(R['StateInit']))), ('body', 'body', EITHER(CELL)))
MSG = R['Message']
R['MessageRef'] = MSG
R['AccountStatus'] = by_type({'uninitialized': ('acc_state_uninit', NONE), 'frozen': ('acc_state_frozen', NONE),
                              'active': ('acc_state_active', NONE), 'nonexist': ('acc_state_nonexist', NONE)})
R['HashUpdate'] = rec(('old_hash', 'old_hash', BITS), ('new_hash', 'new_hash', BITS))
R['StorageUsed'] = rec(*F('cells', 'bits', 'public_cells'))
R['StorageUsedShort'] = rec(*F('cells', 'bits'))
R['StorageInfo'] = rec(('used', 'used', R['StorageUsed']), ('last_paid', 'last_paid', I), ('due_payment', 'due_payment', MAYBE(I)))
R['AccountState'] = by_type({'account_uninit': ('account_uninit', NONE),
                             'account_active': ('account_active', rec(('_', 'state_init', R['StateInit']))),
                             'account_frozen': ('account_frozen', rec(('state_hash', 'state_hash', BITS)))})
R['AccountStorage'] = rec(('last_trans_lt', 'last_trans_lt', I), ('balance', 'balance', CC), ('state', 'state', R['AccountState']))
_account = rec(('addr', 'addr', addr_int), ('storage_stat', 'storage_stat', R['StorageInfo']), ('storage', 'storage', R['AccountStorage']))
R['Account'] = lambda o: {'$': 'account_none', 'v': None} if o is None else {'$': 'account', 'v': _account(o)}
R['ShardAccount'] = rec(('account', 'account', R['Account']), ('last_trans_hash', 'last_trans_hash', BITS), ('last_trans_lt', 'last_trans_lt', I))
R['DepthBalanceInfo'] = rec(('split_depth', 'split_depth', I), ('balance', 'balance', CC))
R['ShardAccounts'] = AUG(R['ShardAccount'], R['DepthBalanceInfo'])
R['AccStatusChange'] = by_type({'unchanged': ('acst_unchanged', NONE), 'frozen': ('acst_frozen', NONE), 'deleted': ('acst_deleted', NONE)})
R['ComputeSkipReason'] = by_type({'no_state': ('cskip_no_state', NONE), 'bad_state': ('cskip_bad_state', NONE),
                                  'no_gas': ('cskip_no_gas', NONE), 'suspended': ('cskip_suspended', NONE)})
R['TrStoragePhase'] = rec(('storage_fees_collected', 'storage_fees_collected', I), ('storage_fees_due', 'storage_fees_due', MAYBE(I)),
                          ('status_change', 'status_change', R['AccStatusChange']))
R['TrCreditPhase'] = rec(('due_fees_collected', 'due_fees_collected', MAYBE(I)), ('credit', 'credit', CC))
R['TrComputePhase'] = by_type({
    'skipped': ('tr_phase_compute_skipped', rec(('reason', 'reason', R['ComputeSkipReason']))),
    'vm': ('tr_phase_compute_vm', rec(*F('success', 'msg_state_used', 'account_activated', 'gas_fees'), ('_ref1', None, rec(
        *F('gas_used', 'gas_limit'), ('gas_credit', 'gas_credit', MAYBE(I)), *F('mode', 'exit_code'), ('exit_arg', 'exit_arg', MAYBE(I)),
        ('vm_steps', 'vm_steps', I), ('vm_init_state_hash', 'vm_init_state_hash', BITS), ('vm_final_state_hash', 'vm_final_state_hash', BITS)))))})
R['TrActionPhase'] = rec(*F('success', 'valid', 'no_funds'), ('status_change', 'status_change', R['AccStatusChange']),
                         ('total_fwd_fees', 'total_fwd_fees', MAYBE(I)), ('total_action_fees', 'total_action_fees', MAYBE(I)),
                         ('result_code', 'result_code', I), ('result_arg', 'result_arg', MAYBE(I)),
                         *F('tot_actions', 'spec_actions', 'skipped_actions', 'msgs_created'),
                         ('action_list_hash', 'action_list_hash', BITS), ('tot_msg_size', 'tot_msg_size', R['StorageUsedShort']))
R['TrBouncePhase'] = by_type({
    'negfunds': ('tr_phase_bounce_negfunds', NONE),
    'nofunds': ('tr_phase_bounce_nofunds', rec(('msg_size', 'msg_size', R['StorageUsedShort']), ('req_fwd_fees', 'req_fwd_fees', I))),
    'ok': ('tr_phase_bounce_ok', rec(('msg_size', 'msg_size', R['StorageUsedShort']), *F('msg_fees', 'fwd_fees')))})
R['SplitMergeInfo'] = rec(*F('cur_shard_pfx_len', 'acc_split_depth'), ('this_addr', 'this_addr', BITS), ('sibling_addr', 'sibling_addr', BITS))
_sp, _cp, _comp, _act = (('storage_ph', 'storage_ph', R['TrStoragePhase']), ('credit_ph', 'credit_ph', R['TrCreditPhase']),
                         ('compute_ph', 'compute_ph', R['TrComputePhase']), ('action', 'action', MAYBE(R['TrActionPhase'])))
_msp, _mcp = ('storage_ph', 'storage_ph', MAYBE(R['TrStoragePhase'])), ('credit_ph', 'credit_ph', MAYBE(R['TrCreditPhase']))
_si = ('split_info', 'split_info', R['SplitMergeInfo'])
_ptx = ('prepare_transaction', 'prepare_transaction', lambda o: R['Transaction'](o))
R['TransactionDescr'] = by_type({
    'ordinary': ('trans_ord', rec(('credit_first', 'credit_first', I), _msp, _mcp, _comp, _act, ('aborted', 'aborted', I),
                                  ('bounce', 'bounce', MAYBE(R['TrBouncePhase'])), ('destroyed', 'destroyed', I))),
    'storage': ('trans_storage', rec(_sp)),
    'tick_tock': ('trans_tick_tock', rec(('is_tock', 'is_tock', I), _sp, _comp, _act, *F('aborted', 'destroyed'))),
    'split_prepare': ('trans_split_prepare', rec(_si, _msp, _comp, _act, *F('aborted', 'destroyed'))),
    'split_install': ('trans_split_install', rec(_si, _ptx, ('installed', 'installed', I))),
    'merge_prepare': ('trans_merge_prepare', rec(_si, _sp, ('aborted', 'aborted', I))),
    'merge_install': ('trans_merge_install', rec(_si, _ptx, _msp, _mcp, _comp, _act, *F('aborted', 'destroyed')))})
R['Transaction'] = rec(('account_addr', 'account_addr', BITS), ('lt', 'lt', I), ('prev_trans_hash', 'prev_trans_hash', BITS),
                       *F('prev_trans_lt', 'now', 'outmsg_cnt'), ('orig_status', 'orig_status', R['AccountStatus']),
                       ('end_status', 'end_status', R['AccountStatus']),
                       ('_ref1', None, rec(('in_msg', 'in_msg', MAYBE(MSG)), ('out_msgs', 'out_msgs', VALS(MSG)))),
                       ('total_fees', 'total_fees', CC), ('state_update', 'state_update', R['HashUpdate']),
                       ('description', 'description', R['TransactionDescr']))
TX = R['Transaction']
R['AccountBlock'] = rec(('account_addr', 'account_addr', BITS), ('transactions', 'transactions', AUG(TX, CC)),
                        ('state_update', 'state_update', R['HashUpdate']))
R['ShardAccountBlocks'] = AUG(R['AccountBlock'], CC)
R['IntermediateAddress'] = by_type({
    'interm_addr_regular': ('interm_addr_regular', rec(('use_dest_bits', 'use_dest_bits', I))),
    'interm_addr_simple': ('interm_addr_simple', rec(*F('workchain_id', 'addr_pfx'))),
    'interm_addr_ext': ('interm_addr_ext', rec(*F('workchain_id', 'addr_pfx')))})
IA = R['IntermediateAddress']
R['MsgMetadata'] = rec(('depth', 'depth', I), ('initiator_addr', 'initiator_addr', addr_int), ('initiator_lt', 'initiator_lt', I))
_envh = [('cur_addr', 'cur_addr', IA), ('next_addr', 'next_addr', IA), ('fwd_fee_remaining', 'fwd_fee_remaining', I), ('msg', 'msg', MSG)]
R['MsgEnvelope'] = by_type({
    'msg_envelope': ('msg_envelope', rec(*_envh)),
    'msg_envelope_v2': ('msg_envelope_v2', rec(*_envh, ('emitted_lt', 'emitted_lt', MAYBE(I)), ('metadata', 'metadata', MAYBE(R['MsgMetadata']))))})
ENV = R['MsgEnvelope']
_m, _t, _im, _om = ('msg', 'msg', MSG), ('transaction', 'transaction', TX), ('in_msg', 'in_msg', ENV), ('out_msg', 'out_msg', ENV)
R['InMsg'] = by_type({
    'msg_import_ext': ('msg_import_ext', rec(_m, _t)),
    'msg_import_ihr': ('msg_import_ihr', rec(_m, _t, ('ihr_fee', 'ihr_fee', I), ('proof_created', 'proof_created', CELL))),
    'msg_import_imm': ('msg_import_imm', rec(_im, _t, ('fwd_fee', 'fwd_fee', I))),
    'msg_import_fin': ('msg_import_fin', rec(_im, _t, ('fwd_fee', 'fwd_fee', I))),
    'msg_import_tr': ('msg_import_tr', rec(_im, _om, ('transit_fee', 'transit_fee', I))),
    'msg_discard_fin': ('msg_discard_fin', rec(_im, ('transaction_id', 'transaction_id', I), ('fwd_fee', 'fwd_fee', I))),
    'msg_discard_tr': ('msg_discard_tr', rec(_im, ('transaction_id', 'transaction_id', I), ('fwd_fee', 'fwd_fee', I),
                                             ('proof_delivered', 'proof_delivered', CELL))),
    'msg_import_deferred_fin': ('msg_import_deferred_fin', rec(_im, _t, ('fwd_fee', 'fwd_fee', I))),
    'msg_import_deferred_tr': ('msg_import_deferred_tr', rec(_im, _om))})
INM = R['InMsg']
R['ImportFees'] = rec(('fees_collected', 'fees_collected', I), ('value_imported', 'value_imported', CC))
_imp, _reimp = ('imported', 'imported', INM), ('reimport', 'reimport', INM)
R['OutMsg'] = by_type({
    'msg_export_ext': ('msg_export_ext', rec(_m, _t)),
    'msg_export_imm': ('msg_export_imm', rec(_om, _t, _reimp)),
    'msg_export_new': ('msg_export_new', rec(_om, _t)),
    'msg_export_tr': ('msg_export_tr', rec(_om, _imp)),
    'msg_export_deq': ('msg_export_deq', rec(_om, ('import_block_lt', 'import_block_lt', I))),
    'msg_export_deq_short': ('msg_export_deq_short', rec(('msg_env_hash', 'msg_env_hash', BITS),
                                                         *F('next_workchain', 'next_addr_pfx', 'import_block_lt'))),
    'msg_export_tr_req': ('msg_export_tr_req', rec(_om, _imp)),
    'msg_export_deq_imm': ('msg_export_deq_imm', rec(_om, _reimp)),
    'msg_export_new_defer': ('msg_export_new_defer', rec(_om, _t)),
    'msg_export_deferred_tr': ('msg_export_deferred_tr', rec(_om, _imp))})
R['InMsgDescr'] = AUG(INM, R['ImportFees'])
R['OutMsgDescr'] = AUG(R['OutMsg'], CC)
R['ShardIdent'] = rec(*F('shard_pfx_bits', 'workchain_id', 'shard_prefix'))
R['GlobalVersion'] = rec(*F('version', 'capabilities'))
R['ExtBlkRef'] = rec(('end_lt', 'end_lt', I), ('seq_no', 'seqno', I), ('root_hash', 'root_hash', BITS), ('file_hash', 'file_hash', BITS))
EBR = R['ExtBlkRef']
R['BlkMasterInfo'] = rec(('master', 'master', EBR))
R['BlkPrevInfo'] = by_type({'prev_blk_info': ('prev_blk_info', rec(('prev', 'prev', EBR))),
                            'prev_blks_info': ('prev_blks_info', rec(('prev1', 'prev1', EBR), ('prev2', 'prev2', EBR)))})
R['BlkPrevInfo0'] = R['BlkPrevInfo1'] = R['BlkPrevInfo']
R['BlockInfo'] = rec(*F('version', 'not_master', 'after_merge', 'before_split', 'after_split', 'want_split', 'want_merge', 'key_block',
                        'vert_seqno_incr', 'flags'), ('seq_no', 'seqno', I), ('vert_seq_no', 'vert_seqno', I),
                     ('shard', 'shard', R['ShardIdent']),
                     *F('gen_utime', 'start_lt', 'end_lt', 'gen_validator_list_hash_short', 'gen_catchain_seqno', 'min_ref_mc_seqno',
                        'prev_key_block_seqno'),
                     ('gen_software', 'gen_software', MAYBE(R['GlobalVersion'])), ('master_ref', 'master_ref', MAYBE(R['BlkMasterInfo'])),
                     ('prev_ref', 'prev_ref', R['BlkPrevInfo']), ('prev_vert_ref', 'prev_vert_ref', MAYBE(R['BlkPrevInfo'])))
_vf1 = [(n, n, CC) for n in ('from_prev_blk', 'to_next_blk', 'imported', 'exported')]
_vf2 = [(n, n, CC) for n in ('fees_imported', 'recovered', 'created', 'minted')]
R['ValueFlow'] = by_type({
    'value_flow': ('value_flow', rec(('_ref1', None, rec(*_vf1)), ('fees_collected', 'fees_collected', CC), ('_ref2', None, rec(*_vf2)))),
    'value_flow_v2': ('value_flow_v2', rec(('_ref1', None, rec(*_vf1)), ('fees_collected', 'fees_collected', CC), ('burned', 'burned', CC),
                                           ('_ref2', None, rec(*_vf2))))})


def _fsm(o):
    if o is None:
        return {'$': 'fsm_none', 'v': None}
    return by_type({'fsm_split': ('fsm_split', rec(*F('split_utime', 'interval'))), 'fsm_merge': ('fsm_merge', rec(*F('merge_utime', 'interval')))})(o)


R['FutureSplitMerge'] = _fsm
_sd = rec(*F('seq_no', 'reg_mc_seqno', 'start_lt', 'end_lt'), ('root_hash', 'root_hash', BITS), ('file_hash', 'file_hash', BITS),
          *F('before_split', 'before_merge', 'want_split', 'want_merge', 'nx_cc_updated', 'flags', 'next_catchain_seqno', 'next_validator_shard',
             'min_ref_mc_seqno', 'gen_utime'), ('split_merge_at', 'split_merge_at', _fsm), ('fees_collected', 'fees_collected', CC),
          ('funds_created', 'funds_created', CC))
R['ShardDescr'] = lambda o: ('anyctor', _sd(o))          # the parser does not record which of the two layouts it read
R['ShardHashes'] = lambda o: ('dict', {} if o is None else {I(k): ('bintree', [None if x is None else R['ShardDescr'](x) for x in v.list])
                                                             for k, v in o.items()})
R['SigPubKey'] = rec(('pubkey', 'pubkey', BITS))
R['ValidatorDescr'] = by_type({
    'validator': ('validator', rec(('public_key', 'public_key', R['SigPubKey']), ('weight', 'weight', I))),
    'validator_addr': ('validator_addr', rec(('public_key', 'public_key', R['SigPubKey']), ('weight', 'weight', I), ('adnl_addr', 'adnl_addr', BITS)))})
_vs = F('utime_since', 'utime_until', 'total', 'main')
R['ValidatorSet'] = by_type({
    'validators': ('validators', rec(*_vs, ('list', 'list', DICT(R['ValidatorDescr'])))),
    'validators_ext': ('validators_ext', rec(*_vs, ('total_weight', 'total_weight', I), ('list', 'list', DICT(R['ValidatorDescr']))))})
_cc = F('mc_catchain_lifetime', 'shard_catchain_lifetime', 'shard_validators_lifetime', 'shard_validators_num')
R['CatchainConfig'] = by_type({'catchain_config': ('catchain_config', rec(*_cc)),
                               'catchain_config_new': ('catchain_config_new', rec(('flags', None, lambda o: 0), ('shuffle_mc_validators', 'shuffle_mc_validators', I), *_cc))})
_ct = F('next_candidate_delay_ms', 'consensus_timeout_ms', 'fast_attempts', 'attempt_duration', 'catchain_max_deps', 'max_block_bytes', 'max_collated_bytes')
_ch = F('flags', 'new_catchain_ids', 'round_candidates')
R['ConsensusConfig'] = by_type({
    'consensus_config': ('consensus_config', rec(('round_candidates', 'round_candidates', I), *_ct)),
    'consensus_config_new': ('consensus_config_new', rec(*_ch, *_ct)),
    'consensus_config_v3': ('consensus_config_v3', rec(*_ch, *_ct, ('proto_version', 'proto_version', I))),
    'consensus_config_v4': ('consensus_config_v4', rec(*_ch, *_ct, *F('proto_version', 'catchain_max_blocks_coeff')))})
R['ValidatorInfo'] = rec(*F('validator_list_hash_short', 'catchain_seqno', 'nx_cc_updated'))
R['KeyExtBlkRef'] = rec(('key', 'key', I), ('blk_ref', 'blk_ref', EBR))
R['KeyMaxLt'] = rec(*F('key', 'max_end_lt'))
R['OldMcBlocksInfo'] = AUG(R['KeyExtBlkRef'], R['KeyMaxLt'])
R['Counters'] = rec(*F('last_updated', 'total', 'cnt2048', 'cnt65536'))
R['CreatorStats'] = rec(('mc_blocks', 'mc_blocks', R['Counters']), ('shard_blocks', 'shard_blocks', R['Counters']))
R['BlockCreateStats'] = by_type({
    'block_create_stats': ('block_create_stats', rec(('counters', 'counters', DICT(R['CreatorStats'])))),
    'block_create_stats_ext': ('block_create_stats_ext', rec(('counters', 'counters', AUG(R['CreatorStats'], I))))})
R['ConfigParams'] = rec(('config_addr', 'config_addr', BITS),
                        ('config', 'config', lambda o: ('dict', {I(k) % (1 << 32): V.lib_cell_canon(v.to_cell()) for k, v in o.items()})))
R['McStateExtra'] = rec(('shard_hashes', 'shard_hashes', R['ShardHashes']), ('config', 'config', R['ConfigParams']),
                        ('_ref1', None, rec(('flags', 'flags', I), ('validator_info', 'validator_info', R['ValidatorInfo']),
                                            ('prev_blocks', 'prev_blocks', R['OldMcBlocksInfo']), ('after_key_block', 'after_key_block', I),
                                            ('last_key_block', 'last_key_block', MAYBE(EBR)),
                                            ('block_create_stats', 'block_create_stats', MAYBE(R['BlockCreateStats'])))),
                        ('global_balance', 'global_balance', CC))
R['McBlockExtra'] = rec(('key_block', 'key_block', I), ('shard_hashes', 'shard_hashes', R['ShardHashes']),
                        ('shard_fees', 'shard_fees', lambda o: ('augroot', o is not None)),   # kept as the root cell; content not re-read
                        ('_ref1', None, rec(('prev_blk_signatures', 'prev_blk_signatures',
                                             lambda o: ('dict', {} if o is None else {I(k): ('rawslice', v.bits.to01(), v.remaining_refs) for k, v in o.items()})),
                                            ('recover_create_msg', 'recover_create_msg', MAYBE(CELL)), ('mint_msg', 'mint_msg', MAYBE(CELL)))),
                        ('config', 'config', MAYBE(R['ConfigParams'])))
R['BlockExtra'] = rec(('in_msg_descr', 'in_msg_descr', R['InMsgDescr']), ('out_msg_descr', 'out_msg_descr', R['OutMsgDescr']),
                      ('account_blocks', 'account_blocks', R['ShardAccountBlocks']), ('rand_seed', 'rand_seed', BITS),
                      ('created_by', 'created_by', BITS), ('custom', 'custom', MAYBE(R['McBlockExtra'])))
_ssu = rec(('global_id', 'global_id', I), ('shard_id', 'shard_id', R['ShardIdent']), *F('seq_no', 'vert_seq_no', 'gen_utime', 'gen_lt', 'min_ref_mc_seqno'),
           ('out_msg_queue_info', 'out_msg_queue_info', CELL), ('before_split', 'before_split', I), ('accounts', 'accounts', R['ShardAccounts']),
           ('_ref1', None, rec(*F('overload_history', 'underload_history'), ('total_balance', 'total_balance', CC),
                               ('total_validator_fees', 'total_validator_fees', CC),
                               ('libraries', 'libraries', lambda o: ('keys', sorted(I(k) for k in (o or {})))),   # values stay raw slices
                               ('master_ref', 'master_ref', MAYBE(R['BlkMasterInfo'])))),
           ('custom', 'custom', MAYBE(R['McStateExtra'])))
R['ShardStateUnsplit'] = _ssu
R['ShardState'] = by_type({'_': ('_', lambda o: _ssu(o.shard_state_unsplit)),
                           'split_state': ('split_state', rec(('left', 'left', _ssu), ('right', 'right', _ssu)))})
R['Block'] = rec(('global_id', 'global_id', I), ('info', 'info', R['BlockInfo']), ('value_flow', 'value_flow', R['ValueFlow']),
                 ('state_update', None, lambda o: ('skip',)), ('extra', 'extra', R['BlockExtra']))
READERS = R


def parsers():
    from pytoniq_core.tlb import transaction as T, account as A, block as B, config as C, utils as U
    P = {
        'MsgAddressInt': lambda s: s.load_address(), 'MsgAddressExt': lambda s: s.load_address(),
        'CommonMsgInfo': T.CommonMsgInfo.deserialize, 'MessageRef': lambda s: T.MessageAny.deserialize(s.load_ref().begin_parse()),
        'CurrencyCollection': B.CurrencyCollection.deserialize, 'ExtraCurrencyCollection': B.ExtraCurrencyCollection.deserialize,
        'TickTock': A.TickTock.deserialize, 'StateInit': A.StateInit.deserialize,
        'AccountStatus': A.AccountStatus.deserialize, 'HashUpdate': U.HashUpdate.deserialize, 'StorageUsed': A.StorageUsed.deserialize,
        'StorageUsedShort': A.StorageUsedShort.deserialize, 'StorageInfo': A.StorageInfo.deserialize, 'AccountState': A.AccountState.deserialize,
        'AccountStorage': A.AccountStorage.deserialize, 'Account': A.Account.deserialize, 'ShardAccount': A.ShardAccount.deserialize,
        'DepthBalanceInfo': B.DepthBalanceInfo.deserialize, 'ShardAccounts': B.ShardAccounts.deserialize,
        'AccStatusChange': T.AccStatusChange.deserialize, 'ComputeSkipReason': T.ComputeSkipReason.deserialize,
        'TrStoragePhase': T.TrStoragePhase.deserialize, 'TrCreditPhase': T.TrCreditPhase.deserialize, 'TrComputePhase': T.TrComputePhase.deserialize,
        'TrActionPhase': T.TrActionPhase.deserialize, 'TrBouncePhase': T.TrBouncePhase.deserialize, 'SplitMergeInfo': T.SplitMergeInfo.deserialize,
        'TransactionDescr': T.TransactionDescr.deserialize, 'Transaction': T.Transaction.deserialize, 'AccountBlock': A.AccountBlock.deserialize,
        'IntermediateAddress': T.IntermediateAddress.deserialize, 'MsgMetadata': T.MsgMetadata.deserialize, 'MsgEnvelope': T.MsgEnvelope.deserialize,
        'InMsg': T.InMsg.deserialize, 'ImportFees': T.ImportFees.deserialize, 'OutMsg': T.OutMsg.deserialize,
        'ShardIdent': B.ShardIdent.deserialize, 'GlobalVersion': B.GlobalVersion.deserialize, 'ExtBlkRef': B.ExtBlkRef.deserialize,
        'BlkMasterInfo': B.BlkMasterInfo.deserialize,
        'BlkPrevInfo0': lambda s: B.BlkPrevInfo.deserialize(s, 0), 'BlkPrevInfo1': lambda s: B.BlkPrevInfo.deserialize(s, 1),
        'BlockInfo': B.BlockInfo.deserialize, 'ValueFlow': B.ValueFlow.deserialize, 'FutureSplitMerge': B.FutureSplitMerge.deserialize,
        'ShardDescr': B.ShardDescr.deserialize, 'ShardHashes': U.deserialize_shard_hashes,
        'SigPubKey': C.SigPubKey.deserialize, 'ValidatorDescr': C.ValidatorDescr.deserialize, 'ValidatorSet': C.ValidatorSet.deserialize,
        'CatchainConfig': C.CatchainConfig.deserialize, 'ConsensusConfig': C.ConsensusConfig.deserialize,
        'ValidatorInfo': B.ValidatorInfo.deserialize, 'KeyExtBlkRef': B.KeyExtBlkRef.deserialize, 'KeyMaxLt': B.KeyMaxLt.deserialize,
        'OldMcBlocksInfo': B.OldMcBlocksInfo.deserialize, 'Counters': B.Counters.deserialize, 'CreatorStats': B.CreatorStats.deserialize,
        'BlockCreateStats': B.BlockCreateStats.deserialize,
        'ShardAccountBlocks': lambda s: s.load_hashmap_aug_e(256, x_deserializer=A.AccountBlock.deserialize, y_deserializer=B.CurrencyCollection.deserialize),
        'InMsgDescr': lambda s: s.load_hashmap_aug_e(256, x_deserializer=T.InMsg.deserialize, y_deserializer=T.ImportFees.deserialize),
        'OutMsgDescr': lambda s: s.load_hashmap_aug_e(256, x_deserializer=T.OutMsg.deserialize, y_deserializer=B.CurrencyCollection.deserialize),
        'ConfigParams': B.ConfigParams.deserialize, 'McStateExtra': B.McStateExtra.deserialize, 'McBlockExtra': B.McBlockExtra.deserialize,
        'BlockExtra': B.BlockExtra.deserialize, 'Block': B.Block.deserialize,
        'ShardStateUnsplit': B.ShardStateUnsplit.deserialize, 'ShardState': B.ShardState.deserialize,
    }
    return P



# quick / thorough number of generated values per type
WEIGHT = {'TransactionDescr': 6, 'InMsg': 5, 'OutMsg': 5, 'Transaction': 3, 'TrComputePhase': 2, 'BlockInfo': 3, 'ValidatorSet': 2,
          'ConsensusConfig': 2, 'Account': 2, 'ShardDescr': 2, 'ValueFlow': 2, 'MsgEnvelope': 2}


# ----------------------------------------------------------------------------- comparison

def splice(d):
    """merge anonymous ^[ ... ] groups (_ref1, _ref2) into the record"""
    if not any(k.startswith('_ref') for k in d):
        return d
    out = {}
    for k, v in d.items():
        if k.startswith('_ref') and isinstance(v, dict):
            out.update(splice(v))
        else:
            out[k] = v
    return out


def diff(spec, lib, path, ctx_info):
    """first difference between a spec value (driver JSON) and the canonical reading of the library object, or None"""
    if isinstance(lib, tuple):
        kind = lib[0]
        if kind == 'cell':
            if not V.is_cell_json(spec):
                return (path, spec, 'cell')
            return None if V.cell_json_canon(spec) == lib else (path, V.cell_json_canon(spec), lib)
        if kind == 'either':
            if not (isinstance(spec, dict) and spec.get('$') in ('left', 'right')):
                return (path, spec, 'either')
            return diff(spec['v'], lib[1], path, ctx_info)
        if kind == 'anyctor':
            if not (isinstance(spec, dict) and '$' in spec):
                return (path, spec, 'constructor')
            return diff(spec['v'], lib[1], path, ctx_info)
        if kind == 'dict':
            n = ctx_info['keylen'](path)
            return diff_map(V.flatten_hashmap(spec, n), lib[1], path, ctx_info)
        if kind == 'vals':
            n = ctx_info['keylen'](path)
            flat = V.flatten_hashmap(spec, n)
            svals = [flat[k] for k in sorted(flat)]
            if len(svals) != len(lib[1]):
                return (path + '.#', len(svals), len(lib[1]))
            for i, (a, b) in enumerate(zip(svals, lib[1])):
                d = diff(a, b, f'{path}[{i}]', ctx_info)
                if d:
                    return d
            return None
        if kind == 'aug':
            n = ctx_info['keylen'](path)
            flat, extras = V.flatten_hashmap_aug(spec, n)
            if isinstance(spec, dict) and spec.get('$') == 'ahme_empty':
                extras = [spec['v']['extra']]
            d = diff_map(flat, lib[1], path, ctx_info)
            if d:
                return d
            if len(extras) != len(lib[2]):
                return (path + '.extras#', len(extras), len(lib[2]))
            for i, (a, b) in enumerate(zip(extras, lib[2])):
                d = diff(a, b, f'{path}[].extra', ctx_info)
                if d:
                    return d
            return None
        if kind == 'bintree':
            leaves = V.flatten_bintree(spec)
            if len(leaves) != len(lib[1]):
                return (path + '.leaves#', len(leaves), len(lib[1]))
            for i, (a, b) in enumerate(zip(leaves, lib[1])):
                d = diff(a, b, f'{path}[].leaf', ctx_info)
                if d:
                    return d
            return None
        if kind == 'firstref':
            return diff(spec, lib[1], path, ctx_info)
        if kind == 'keys':
            flat = V.flatten_hashmap(spec, ctx_info['keylen'](path))
            return None if sorted(flat) == lib[1] else (path + '.keys', sorted(flat), lib[1])
        if kind == 'skip':
            return None
        if kind == 'augroot':
            return None if (spec.get('$') == 'ahme_root') == lib[1] else (path, spec.get('$'), lib)
        if kind == 'rawslice':      # an un-deserialised CryptoSignaturePair leaf
            want = spec['node_id_short'] + '0101' + spec['sign']['R'] + spec['sign']['s']
            return None if (want, 0) == (lib[1], lib[2]) else (path, want, lib)
        if kind == 'present':
            return None if (spec is not None) == lib[1] else (path, spec, lib)
        return (path, spec, lib)
    if isinstance(spec, dict) and '$' in spec and '$cell' not in spec:
        if not (isinstance(lib, dict) and lib.get('$') == spec['$']):
            return (path + '.$', spec['$'], lib.get('$') if isinstance(lib, dict) else lib)
        return diff(spec['v'], lib['v'], path, ctx_info)
    if isinstance(spec, dict) and '$cell' not in spec:
        if not isinstance(lib, dict):
            return (path, 'record', lib)
        s, l = splice(spec), splice(lib)
        if list(s) != list(l):
            return (path + '.fields', list(s), list(l))
        for k in s:
            d = diff(s[k], l[k], f'{path}.{k}' if path else k, ctx_info)
            if d:
                return d
        return None
    if spec is None or lib is None:
        return None if spec is None and lib is None else (path, spec, lib)
    if isinstance(spec, (bool, int)) and isinstance(lib, (bool, int)):
        if 'leaf' in ctx_info:
            ctx_info['leaf'](path, lib)
        return None if int(spec) == int(lib) else (path, spec, lib)
    if isinstance(spec, str) and isinstance(lib, str):
        if 'leaf' in ctx_info:
            ctx_info['leaf'](path, lib)
        return None if spec == lib else (path, spec, lib)
    return (path, spec, lib)


def diff_map(flat, libmap, path, ctx_info):
    if sorted(flat) != sorted(libmap):
        return (path + '.keys', sorted(flat), sorted(libmap))
    for k in sorted(flat):
        d = diff(flat[k], libmap[k], f'{path}[]', ctx_info)
        if d:
            return d
    return None


KEYLEN = [(r'libraries', 256), (r'accounts', 256), (r'prev_blk_signatures', 16), (r'in_msg_descr', 256), (r'out_msg_descr', 256), (r'account_blocks', 256), (r'out_msgs', 15), (r'other\.dict', 32), (r'dict$', 32), (r'transactions', 64), (r'list', 16), (r'counters', 256),
          (r'prev_blocks', 32), (r'shard_hashes', 32), (r'config$', 32)]
TOPKEYLEN = {'ShardAccounts': 256, 'ShardAccountBlocks': 256, 'InMsgDescr': 256, 'OutMsgDescr': 256, 'OldMcBlocksInfo': 32,
             'ShardHashes': 32, 'ExtraCurrencyCollection': 32}


def keylen_for(ty):
    def f(path):
        last = re.sub(r'\[\d*\]', '', path).split('.')[-1] if path else ''
        tail = re.sub(r'\[\d*\]', '', path)
        if not path or path == ty:
            return TOPKEYLEN.get(ty, 32)
        for pat, n in KEYLEN:
            if re.search(pat, last) or re.search(pat + '$', tail):
                return n
        return TOPKEYLEN.get(ty, 32)
    return f


def short(x, n=400):
    s = json.dumps(x, default=str) if not isinstance(x, str) else x
    return s if len(s) <= n else s[:n] + '...'


def dag_str(nodes):
    return '|'.join(f"{k},{b or '-'},{'.'.join(map(str, r)) or '-'}" for k, b, r in nodes)


def evaluate(P, ty, g):
    """Parse the cell of `g` (a parsed tlbgen / tlbgent answer) with the library. Returns (failure | None, trace mismatches, stats);
    failure = (key, what, observed, expected): the parsed value / consumption differs from the encoded value."""
    cells = V.build(g['nodes'])
    root = cells[-1]
    if root is None:
        return ('build', None, None, None), [], {}
    top = g['value'].get('$') if isinstance(g['value'], dict) and '$' in g['value'] else ''
    traced = g.get('trace') is not None
    tracer = TR.Tracer()
    with tracer:
        sl = tracer.root(root) if traced else root.begin_parse()
        try:
            obj = P[ty](sl)
        except Exception as e:
            return (f'raise:{ty}:{top}', f'{ty}.deserialize raised {type(e).__name__} on a valid encoding ({top or "value"})',
                    f'{type(e).__name__}: {e}', 'parsed value'), [], {}
        if traced:
            sl.finish()
    try:
        lib = READERS[ty](obj)
    except Bad as e:
        return (f'shape:{ty}:{top}', f'{ty}: parsed object lacks a schema field: {e}', str(e), 'all schema fields present'), [], {}
    mism, prov, stats, locs = [], {}, {}, {}
    if traced:
        mism = TR.compare(TR.parse_spec_trace(g['trace']), tracer.top, 'top', True, prov, stats, None, locs)
    info = {'keylen': keylen_for(ty)}
    if traced:
        def leaf(path, libval):
            ev = getattr(libval, '_ev', None)
            if ev is None or '[' in path or ev not in prov:
                return
            stats['prov_checked'] = stats.get('prov_checked', 0) + 1
            src, where, lo, hi = prov[ev]
            if src != path:
                ranges = [(lo, hi)] + ([locs[path][1:]] if path in locs and locs[path][0] == where else [])
                mism.append(dict(kind='order', cell=where, path=path, reads=src, ev=ev, ranges=ranges,
                                 detail=f'the value returned as field {path} was read from the position of schema field {src}'))
        info['leaf'] = leaf
    d = diff(g['value'], lib, '', info)
    if d:
        path, want, got = d
        return (f'field:{ty}:{re.sub(r"\[[0-9]*\]", "", path)}', f'{ty}: field {path} differs from the encoded value', short(got), short(want)), mism, stats
    rb, rr = sl.bits.to01(), sl.remaining_refs
    want_b, want_r = g['tbits'], g['trefs']
    if rb != want_b or rr != want_r:
        return (f'consume:{ty}:{top}', f'{ty}.deserialize did not consume exactly the encoded bits/refs',
                {'remaining_bits': rb, 'remaining_refs': rr}, {'remaining_bits': want_b, 'remaining_refs': want_r}), mism, stats
    return None, mism, stats


def exhibit(ctx, P, ty, g, m):
    """A trace mismatch on a value that happened to parse equally: look for a value of the same shape on which the parsed
    fields differ — overwrite the bits of the mismatching reads (all ones / top bit / random), let the SPEC decoder say what
    value that encoding denotes, parse it with the library."""
    import random
    if 'lo' not in m and m.get('kind') != 'order':
        return None
    if m.get('kind') in ('overread', 'overread_refs'):
        return None
    rng = random.Random(f"{ty}:{m.get('cell')}:{m.get('lo')}:{m.get('path')}")
    nodes = list(g['nodes'])
    try:
        ci = TR.node_path_to_dag(nodes, m.get('cell', 'top'))
    except Exception:
        return None
    kind, bits, refs = nodes[ci]
    if m.get('kind') == 'order':
        ranges = m.get('ranges') or []
    else:
        lim = m.get('spec_bits', len(bits))
        ranges = [(min(m['lo'], m['lib_lo']), min(max(m['hi'], m['lib_hi']), lim))]
    if not ranges:
        return None
    pats = ['1', 'top', 'low', '10', '01'] + ['rnd'] * 8
    lines, cands = [], []
    for pat in pats:
        b = list(bits)
        for (lo, hi) in ranges:
            w = hi - lo
            if pat == '1':
                seg = '1' * w
            elif pat == 'top':
                seg = '1' + '0' * (w - 1)
            elif pat == 'low':
                seg = '0' * (w - 1) + '1'
            elif pat in ('10', '01'):
                seg = (pat * w)[:w]
            else:
                seg = ''.join(rng.choice('01') for _ in range(w))
            if m.get('kind') != 'order' and m.get('spec_kind') == 'v':
                # keep the length prefix of a VarUInteger
                seg = bits[lo:lo + m.get('lenbits', 4)] + seg[m.get('lenbits', 4):]
            b[lo:hi] = seg
        nb = ''.join(b)
        if nb == bits:
            continue
        n2 = list(nodes)
        n2[ci] = (kind, nb, refs)
        cands.append(n2)
        lines.append(f'tlbtrace {ty} {dag_str(n2)} {len(n2) - 1}')
    if not lines:
        return None
    for n2, ans in zip(cands, ctx.model.run(lines)):
        d = V.parse_trace_answer(ans)
        if d is None or d['rbits'] != g['tbits'] or d['rrefs'] != g['trefs']:
            continue
        g2 = dict(value=d['value'], nodes=n2, tbits=d['rbits'], trefs=d['rrefs'], rt=True, trace=d['trace'])
        f, _, _ = evaluate(P, ty, g2)
        if f is not None and f[0] != 'build':
            return g2, f
    return None


def check_value(ctx, P, ty, seed, g, tag='gen'):
    """g = parsed tlbgen answer. Parse the cell with the library and compare (fields, consumption, read trace)."""
    def inp_of(g):
        return {'type': ty, 'seed': seed, 'value': g['value'], 'dag': dag_str(g['nodes']), 'trailer_bits': g['tbits'], 'trailer_refs': g['trefs']}
    for c in V.ctor_names(g['value']):
        ctx.count('ctor:' + c)
    f, mism, stats = evaluate(P, ty, g)
    for k, v in stats.items():
        if k.startswith('where:'):
            # what the library leaves unparsed (kept as a cell / raw slice), by type and first schema field concerned
            w = ctx.stats.setdefault('trace_unparsed', {})
            kind_, _, pth_ = k[6:].partition(':')
            kk = f"{ty}:{kind_}:{'(inside a dictionary)' if pth_ == 'None' else pth_.split('.')[-1]}"
            if kk in w or len(w) < 200:
                w[kk] = w.get(kk, 0) + v
        else:
            ctx.count('trace:' + k, v)
    if mism:
        ctx.count(f'trace_mismatch_values:{ty}')
    if f is not None:
        if f[0] == 'build':
            ctx.corr_broken(f'library could not build the cell of {ty} seed {seed}')
            return False
        ctx.fail(f[0], f[1], inp_of(g), f[2], f[3])
        return False
    if g.get('trace') is None:
        return True
    ctx.count('trace_compared')
    if not mism:
        return True
    m = mism[0]
    ctx.count('trace_mismatch:' + m['kind'])
    pth = re.sub(r'\[[0-9]*\]', '', str(m.get('path')))
    done = ctx.stats.setdefault('trace_exhibited', {})
    key = f'trace:{ty}:{m["kind"]}:{pth}'
    if done.get(key, 0) >= 2:
        return False                      # this mismatch already has its concrete failing values
    tried = ctx.stats.setdefault('trace_exhibit_attempts', {})
    tried[key] = tried.get(key, 0) + 1
    ex = exhibit(ctx, P, ty, g, m) if tried[key] <= 4 else None
    if ex is not None:
        done[key] = done.get(key, 0) + 1
    if ex is not None:
        g2, f2 = ex
        ctx.fail(key, f'{ty}: read trace differs from the schema ({m["detail"]}); on this value of the same shape: {f2[1]}',
                 inp_of(g2), f2[2], f2[3])
    else:
        ctx.corr_broken(f'read trace of {ty}.deserialize differs from the spec codec on {ty} seed {seed} ({tag}): {m["kind"]}: {m["detail"]} '
                        f'[cell {m.get("cell")}] (no value found on which a parsed field differs)')
    return False


def run_types(ctx, P, types, per_type):
    rng = ctx.rng
    reqs = []
    for ty in types:
        for _ in range(per_type * WEIGHT.get(ty, 1)):
            reqs.append((ty, rng.randrange(1 << 30)))
    outs = ctx.model.run([f'tlbgent {ty} {seed}' for ty, seed in reqs])
    for (ty, seed), ans in zip(reqs, outs):
        if ans == 'bad-op':
            ctx.corr_broken(f'driver does not know type {ty}')
            continue
        g = V.parse_gent_answer(ans)
        if g is None:
            ctx.case((ty, seed), nontrivial=False)
            ctx.count('unencodable:' + ty)
            continue
        ctx.case((ty, seed), sample={'type': ty, 'seed': seed})
        ctx.count('type:' + ty)
        if not g['rt']:
            ctx.corr_broken(f'spec decoder did not invert spec encoder: {ty} seed {seed}')
        if not g['rp']:
            ctx.corr_broken(f'spec read trace is not a read script of the spec encoding: {ty} seed {seed}')
        check_value(ctx, P, ty, seed, g)


# types whose FULL path enumeration (all nested types enumerated too) is attempted in the quick tier; the others have far more
# than PATH_CAP paths (products over nested types) and get LOCAL path coverage (own branch structure; nested types sampled)
HEAVY = {'Message', 'TransactionDescr', 'Transaction', 'MsgEnvelope', 'InMsg', 'OutMsg', 'ValueFlow', 'ShardStateUnsplit', 'ShardState',
         'BlockExtra', 'Block'}
PATH_CAP = 300
LOC_ROUNDS = 3


def run_paths(ctx, P, types):
    """one generated value per PATH of the schema term of every type, parsed and trace-compared.  The enumeration order of the
    paths of a type is fixed by its term, so a path is identified by its index; a path whose value does not fit a cell
    (> 1023 bits / > 4 refs for the drawn field values) is retried with other field values in later rounds."""
    rng = ctx.rng
    cap_full = ctx.n(PATH_CAP, 3000)
    jobs = {}        # (ty, mode) -> dict(cap, total, more, covered=set(), failed=set())
    for ty in types:
        if ty not in HEAVY or ctx.thorough:
            jobs[(ty, 'full')] = dict(cap=cap_full if ty not in HEAVY else 600, total=None, more=False, covered=set(), failed=set())
        jobs[(ty, 'loc')] = dict(cap=cap_full, total=None, more=False, covered=set(), failed=set())
    rounds = {'full': ctx.n(3, 6), 'loc': ctx.n(8, 16)}
    for rnd in range(max(rounds.values())):
        reqs = [(ty, mode, rng.randrange(1 << 30)) for (ty, mode), j in jobs.items()
                if rnd < rounds[mode] and (j['total'] is None or len(j['covered']) + len(j['failed']) < j['total'])]
        if not reqs:
            break
        outs = ctx.model.run([f"tlbpaths {ty} {seed} {jobs[(ty, mode)]['cap']} {mode}" for ty, mode, seed in reqs])
        for (ty, mode, seed), ans in zip(reqs, outs):
            j = jobs[(ty, mode)]
            pa = V.split_paths_answer(ans)
            if pa is None:
                ctx.corr_broken(f'driver could not enumerate the paths of {ty} ({mode})')
                j['total'] = 0
                continue
            n, more, raw = pa
            if j['total'] is not None and j['total'] != n:
                ctx.corr_broken(f'number of paths of {ty} ({mode}) is not stable: {j["total"]} / {n}')
            j['total'], j['more'] = n, more
            for i, txt in enumerate(raw):
                if i in j['covered'] or i in j['failed']:
                    continue
                g = V.parse_gent_answer(txt)
                if g is None:
                    ctx.case((ty, mode, seed, i), nontrivial=False)
                    ctx.count('unencodable-path')
                    continue
                ctx.case((ty, mode, seed, i))
                ctx.count('path-values')
                if not g['rt'] or not g['rp']:
                    ctx.corr_broken(f'spec decoder / read trace does not invert the spec encoder: {ty} path {i} seed {seed}')
                if check_value(ctx, P, ty, f'{mode}:{seed}:{i}', g, f'path {mode} #{i}'):
                    j['covered'].add(i)
                else:
                    j['failed'].add(i)
    table = ctx.stats.setdefault('paths', {})
    for ty in types:
        full, loc = jobs.get((ty, 'full')), jobs[(ty, 'loc')]

        def tot(j):
            return f">{j['cap']}" if j['more'] else j['total']
        table[ty] = dict(
            paths_total=tot(full) if full else f'> {PATH_CAP} (enumerated in the thorough tier only)', paths_covered=len(full['covered']) if full else 0,
            local_paths_total=tot(loc), local_paths_covered=len(loc['covered']),
            path_complete=bool(full and not full['more'] and full['total'] and len(full['covered']) == full['total']),
            local_path_complete=bool(not loc['more'] and loc['total'] and len(loc['covered']) == loc['total']))
    pc = sorted(t for t, v in table.items() if v['path_complete'])
    lc = sorted(t for t, v in table.items() if not v['path_complete'] and v['local_path_complete'])
    rest = sorted(t for t, v in table.items() if not v['path_complete'] and not v['local_path_complete'])
    ctx.notes.append(f'path-complete trace agreement (every path of the schema term, nested types included): {len(pc)} types: {" ".join(pc)}')
    ctx.notes.append(f'local path-complete trace agreement (every path of the type\'s own branch structure; nested named types and '
                     f'dictionary shapes sampled): {len(lc)} types: {" ".join(lc)}')
    ctx.notes.append('paths not all exercised in this run (value does not fit a cell for the drawn field values): '
                     + (' '.join(f"{t}({table[t]['local_paths_covered']}/{table[t]['local_paths_total']} local)" for t in rest) or 'none'))


def run(ctx):
    P = parsers()
    # source tie: c16_src_* evaluated on generated values (search mode: the values on which a broken obligation is false go to
    # the oracle first), then translator validation (regenerated Lean reader vs the real deserialize on the same cells)
    SRC.theorem_check(ctx, check_value, P)
    SRCTX.theorem_check(ctx, check_value, P)
    SRCBLK.theorem_check(ctx, check_value, P)
    if ctx.search and ctx.failures:
        return        # a broken c16_src_* obligation already has its concrete failing input
    SRC.validate(ctx)
    SRCTX.validate(ctx)
    SRCBLK.validate(ctx)
    late = ['TransactionDescr', 'Transaction', 'MsgEnvelope', 'InMsg', 'OutMsg', 'AccountBlock', 'InMsgDescr', 'OutMsgDescr', 'ShardAccountBlocks',
            'McBlockExtra', 'McStateExtra', 'BlockExtra', 'Block', 'ShardStateUnsplit', 'ShardState']
    order = sorted(t for t in P if t not in late) + late
    run_types(ctx, P, order, ctx.n(100, 1500))
    run_paths(ctx, P, order)
    mainnet(ctx)


def bundled_block_boc():
    import os
    from ..paths import REPO
    src = open(os.path.join(REPO, 'tests', 'test_cell.py')).read()
    m = re.search(r"block_boc = '([^']+)'", src)
    return m.group(1) if m else None


def count_txs(v):
    """transactions reachable in extra.account_blocks of a spec Block value"""
    ab = v['extra']['account_blocks']
    blocks, _ = V.flatten_hashmap_aug(ab, 256)
    n = 0
    for b in blocks.values():
        n += len(V.flatten_hashmap_aug(b['transactions'], 64)[0])
    return len(blocks), n


def mainnet(ctx):
    """the bundled main-net block: spec decoder (Lean) vs library, field by field"""
    from pytoniq_core.boc import Cell
    from pytoniq_core.tlb.block import Block
    boc = bundled_block_boc()
    if boc is None:
        ctx.notes.append('bundled block not found in tests/test_cell.py')
        return
    root = Cell.one_from_boc(boc)
    dag, ri = V.dag_of_cell(root)
    inp = {'block': 'tests/test_cell.py block_boc', 'root_hash': root.hash.hex()}
    ctx.case(('mainnet', root.hash.hex()), sample=inp)
    d = V.parse_trace_answer(ctx.model.run([f'tlbtrace Block {dag} {ri}'])[0])
    if d is None or d['rbits'] or d['rrefs']:
        ctx.corr_broken('spec decoder does not read the bundled main-net block exactly (spec too strict or wrong)')
        return
    nb, nt = count_txs(d['value'])
    ctx.count('mainnet_account_blocks', nb)
    ctx.count('mainnet_transactions', nt)
    tracer = TR.Tracer()
    with tracer:
        sl = tracer.root(root)
        try:
            obj = Block.deserialize(sl)
            sl.finish()
            err = None
        except Exception as e:
            err = e
    if err is not None:
        e = err
        ctx.fail('raise:mainnet-block', f'Block.deserialize raised {type(e).__name__} on the bundled main-net block', inp, f'{type(e).__name__}: {e}', 'parsed')
        return
    try:
        lib = READERS['Block'](obj)
    except Bad as e:
        ctx.fail('shape:mainnet-block', f'bundled block: parsed object lacks a schema field: {e}', inp, str(e), 'all schema fields present')
        return
    # piecewise, so that each part is reported on its own
    sv = d['value']
    parts = [('info', sv['info'], lib['info']), ('value_flow', sv['value_flow'], lib['value_flow']),
             ('extra.custom.shard_hashes', (sv['extra']['custom'] or {}).get('shard_hashes'), (lib['extra']['custom'] or {}).get('shard_hashes')),
             ('extra.account_blocks', sv['extra']['account_blocks'], lib['extra']['account_blocks']),
             ('', sv, lib)]
    for name, a, b in parts:
        ctx.case(('mainnet', name))
        df = diff(a, b, name, {'keylen': keylen_for('Block')})
        if df:
            path, want, got = df
            ctx.fail(f'field:mainnet-block:{re.sub(r"\[[0-9]*\]", "", path)}', f'bundled main-net block: field {path} differs from what the spec decoder reads',
                     inp, short(got), short(want))
            return
    if sl.remaining_bits or sl.remaining_refs:
        ctx.fail('consume:mainnet-block', 'Block.deserialize left bits/refs of the bundled block unread', inp,
                 [sl.remaining_bits, sl.remaining_refs], [0, 0])
        return
    # read trace of the library on the real block vs the spec codec's trace of the decoded value (all cells the library parses)
    stats = {}
    mism = TR.compare(TR.parse_spec_trace(d['trace']), tracer.top, 'top', True, {}, stats)
    ctx.case(('mainnet', 'trace'))
    ctx.count('mainnet_trace_typed_reads', stats.get('typed_ok', 0) + stats.get('raw_ok', 0))
    if mism:
        m = mism[0]
        ctx.corr_broken(f'bundled main-net block: read trace of Block.deserialize differs from the spec codec: {m["kind"]}: {m["detail"]} [cell {m.get("cell")}]')


def unjson(x):
    """inverse of core.jsonable for spec values (big ints are stored as {'int': '...'})"""
    if isinstance(x, dict):
        if set(x) == {'int'} and isinstance(x['int'], str):
            return int(x['int'])
        return {k: unjson(v) for k, v in x.items()}
    if isinstance(x, list):
        return [unjson(v) for v in x]
    return x


def replay(ctx, payload):
    inp = unjson(payload.get('input') or {})
    if 'block' in inp:
        mainnet(ctx)
    elif 'type' in inp and 'dag' in inp and 'value' in inp:
        # the recorded encoding itself (independent of the generators' seed streams)
        g = dict(value=inp['value'], nodes=V.parse_dag(inp['dag']), tbits=inp.get('trailer_bits', ''), trefs=inp.get('trailer_refs', 0), rt=True)
        ctx.case((inp['type'], inp.get('seed'), 'replay'))
        # the spec decoder must still read the recorded cell as the recorded value
        d = V.parse_trace_answer(ctx.model.run([f"tlbtrace {inp['type']} {inp['dag']} {len(g['nodes']) - 1}"])[0])
        if d is None or d['value'] != inp['value'] or d['rbits'] != g['tbits'] or d['rrefs'] != g['trefs']:
            ctx.corr_broken(f"spec decoder no longer reads the recorded {inp['type']} encoding as the recorded value")
        else:
            g['trace'] = d['trace']
        check_value(ctx, parsers(), inp['type'], inp.get('seed'), g, 'replay')


# ----------------------------------------------------------------------------- appended by builder bssrc2
# `S.load_address()` of the regenerated TL-B parsers is `Rd.loadAddress`; Properties/C16Addr.lean (`c16_src_load_address`) proves it equal to
# the REGENERATED `Slice.load_address` (Generated/SliceOps.lean, harness/translate/bsops.py).  The tie is re-made on every C16 run; a broken
# obligation sends the address types through the oracle first (search mode).
from ..translate import bsops as _BS

SPEC['property_modules'] = list(SPEC.get('property_modules', [])) + ['C16Addr']
SPEC['translators'] = list(SPEC['translators']) + [('slice.py load_address->Generated/SliceOps.lean', _BS.regenerator('SliceOps'))]
_run_before_addr = run


def run(ctx):
    if ctx.search:
        P = parsers()
        run_types(ctx, P, ['MsgAddressExt', 'MsgAddressInt', 'CommonMsgInfo'], 200)
        if ctx.failures:
            return
    _run_before_addr(ctx)


# ----------------------------------------------------------------------------- appended by strengthener st-nfif (round 10)
# Class "every legal NON-CANONICAL encoding of the same value": the spec encoder (like every value-driven encoder) writes each
# VarUInteger / Grams with the minimal `len`; block.tlb allows every len < n with value < 2^(8 len).  The spec-encoded cells are
# rewritten (harness/gen/noncanon.py: every VarUInteger the spec trace locates - top cell, referenced cells, dictionary leaves and
# fork extras - gets a len in minimal..n-1), the SPEC DECODER (tlbtrace) must read the rewritten cells as the SAME value with the
# same trailer (it does, for every len: Codec.varUInt.dec), and the library parser must return every field with that value and
# leave exactly the trailer.
from ..gen import noncanon as NC


def noncanon_stream(ctx, P, types, per_type, variants_per_value=3):
    rng = ctx.rng
    reqs = [(ty, rng.randrange(1 << 30)) for ty in types for _ in range(per_type * min(WEIGHT.get(ty, 1), 2))]
    outs = ctx.model.run([f'tlbgent {ty} {seed}' for ty, seed in reqs])
    jobs, lines = [], []
    novar = set(types)
    for (ty, seed), ans in zip(reqs, outs):
        if ans == 'bad-op':
            continue
        g = V.parse_gent_answer(ans)
        if g is None or g.get('trace') is None:
            continue
        strace = TR.parse_spec_trace(g['trace'])
        for plan, nodes2, changes in NC.variants(rng, g['nodes'], strace, variants_per_value):
            novar.discard(ty)
            jobs.append((ty, seed, plan, g, nodes2, changes))
            lines.append(f'tlbtrace {ty} {dag_str(nodes2)} {len(nodes2) - 1}')
    for (ty, seed, plan, g, nodes2, changes), ans in zip(jobs, ctx.model.run(lines) if lines else []):
        d = V.parse_trace_answer(ans)
        if d is None or d['value'] != g['value'] or d['rbits'] != g['tbits'] or d['rrefs'] != g['trefs']:
            # the spec decoder does not read the rewritten cells as the same value: not a legal re-encoding (n of this VarUInteger
            # is not in noncanon.VAR_K); nothing is claimed about it
            ctx.count('noncanon-not-same-value-per-spec')
            ctx.case((ty, seed, plan, 'noncanon-rejected'), nontrivial=False)
            continue
        ctx.case((ty, seed, plan, 'noncanon'), sample={'type': ty, 'seed': seed, 'noncanonical': plan, 'rewritten': len(changes)})
        ctx.count('noncanon-encodings')
        ctx.count('noncanon:' + ty)
        ctx.count('noncanon-varuints-rewritten', len(changes))
        for _, _, ln, nl in changes:
            ctx.count('noncanon-extra-bytes:%s' % (nl - ln if nl - ln < 4 else '4+'))
        g2 = dict(value=g['value'], nodes=nodes2, tbits=g['tbits'], trefs=g['trefs'], rt=True, trace=None)
        f, _, _ = evaluate(P, ty, g2)
        if f is None:
            continue
        if f[0] == 'build':
            ctx.corr_broken(f'library could not build the cells of a non-canonical {ty} encoding (seed {seed})')
            continue
        inp = {'type': ty, 'seed': seed, 'value': g['value'], 'dag': dag_str(nodes2), 'trailer_bits': g['tbits'], 'trailer_refs': g['trefs'],
               'noncanonical': {'plan': plan, 'varuints': [{'field': p_, 'minimal_len': a, 'len': b} for _, p_, a, b in changes[:12]]}}
        ctx.fail(f[0], f[1] + ' (VarUInteger written with a non-minimal len, legal per var_uint$_ len:(#< n) value:(uint (len * 8)))', inp, f[2], f[3])
    ctx.stats['noncanon-types-without-varuint'] = len(novar)


_run_before_noncanon = run
_replay_before_noncanon = replay


def run(ctx):
    P = parsers()
    late = ['TransactionDescr', 'Transaction', 'MsgEnvelope', 'InMsg', 'OutMsg', 'AccountBlock', 'InMsgDescr', 'OutMsgDescr', 'ShardAccountBlocks',
            'McBlockExtra', 'McStateExtra', 'BlockExtra', 'Block', 'ShardStateUnsplit', 'ShardState']
    order = sorted(t for t in P if t not in late) + late
    if ctx.search:
        state = ctx.rng.getstate()      # the search streams that follow keep their own draws
        noncanon_stream(ctx, P, order, 10)
        ctx.rng.setstate(state)
        if ctx.failures:
            return
        _run_before_noncanon(ctx)
        return
    _run_before_noncanon(ctx)
    noncanon_stream(ctx, P, order, 6)


def replay(ctx, payload):
    inp = unjson(payload.get('input') or {})
    if isinstance(inp, dict) and inp.get('noncanonical') and 'dag' in inp:
        nodes = V.parse_dag(inp['dag'])
        ty = inp['type']
        ctx.case((ty, inp.get('seed'), 'replay-noncanon'))
        d = V.parse_trace_answer(ctx.model.run([f"tlbtrace {ty} {inp['dag']} {len(nodes) - 1}"])[0])
        if d is None or d['value'] != inp['value'] or d['rbits'] != inp.get('trailer_bits', '') or d['rrefs'] != inp.get('trailer_refs', 0):
            ctx.corr_broken(f'spec decoder no longer reads the recorded non-canonical {ty} encoding as the recorded value')
            return
        g = dict(value=inp['value'], nodes=nodes, tbits=inp.get('trailer_bits', ''), trefs=inp.get('trailer_refs', 0), rt=True, trace=None)
        f, _, _ = evaluate(parsers(), ty, g)
        if f is not None and f[0] != 'build':
            ctx.fail(f[0], f[1], inp, f[2], f[3])
        return
    _replay_before_noncanon(ctx, payload)

# the spec decoder on every legal (also non-minimal) VarUInteger / Grams encoding: Properties/C16NonCanon.lean
SPEC['property_modules'] = list(SPEC.get('property_modules', [])) + ['C16NonCanon']
SPEC['manifest']['text'] += (' NON-CANONICAL VarUInteger / Grams: the spec encoder writes the minimal len; Properties/C16NonCanon.lean proves that the spec decoder '
                             'reads EVERY legal len (len < n, value < 2^(8 len)) as the value and consumes exactly len field + len bytes (c16_var_uint_any_len, '
                             'c16_grams_any_len; len >= n refused: c16_var_uint_len_bound). Every run rewrites the VarUIntegers the spec trace locates in generated '
                             'values of every type (top cell, referenced structures, dictionary leaves and fork extras) with len in minimal..n-1, lets the spec '
                             'decoder confirm the same value and trailer, and compares the library parser field by field and on the remaining bits/refs (sampled).')
SPEC['rule'] += ('; non-canonical encodings: 6 values per type x <= 3 rewrites (all VarUIntegers +1 byte / all maximal / one site / random slack), '
                 'confirmed by the spec decoder')
