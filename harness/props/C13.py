"""C13: address text forms round-trip and the friendly form's checksum is enforced.

Oracle (property evaluated on the library): for every generated (wc, hash) and each of the 8 friendly variants
+ the raw form: the text equals an independent transcription of the TON address format (own CRC-16, own base64),
`Address(text)` equals the original address with the same flags, `Address(Address)`/tuple forms agree, `==` and
`hash()` agree; ALL 48 x 63 single-character substitutions of friendly texts must raise.
Correspondence: every text produced and every parse result is also compared with the Lean model (driver ops
addrstr / addrparse / addrcopy / addrhash / addreq / b64enc / b64dec), plus lenient/odd inputs (white space,
underscores, padding, dropped characters, out-of-range workchains, 4300-digit integers)."""

STD = 'ABCDEFGHIJKLMNOPQRSTUVWXYZabcdefghijklmnopqrstuvwxyz0123456789+/'
URL = STD[:62] + '-_'


def _lib():
    from pytoniq_core.boc.address import Address
    return Address


# ---------------------------------------------------------------- independent transcription of the format

def bit16(data: bytes) -> bytes:
    c = 0
    for b in data:
        c ^= b << 8
        for _ in range(8):
            c = ((c << 1) ^ 0x1021) & 0xFFFF if c & 0x8000 else (c << 1) & 0xFFFF
    return bytes([c >> 8, c & 0xFF])


def spec_b64(data: bytes, url: bool) -> str:
    alpha = URL if url else STD
    bits = ''.join(f'{b:08b}' for b in data)
    pad = (-len(bits)) % 6
    bits += '0' * pad
    out = ''.join(alpha[int(bits[i:i + 6], 2)] for i in range(0, len(bits), 6))
    return out + '=' * ((-len(out)) % 4)


def spec_friendly(wc, hp, url, bounce, test):
    tag = (0x11 if bounce else 0x51) | (0x80 if test else 0)
    body = bytes([tag, wc & 0xFF]) + hp
    return spec_b64(body + bit16(body), url)


def spec_raw(wc, hp):
    return f'{wc}:' + ''.join('%02x' % b for b in hp)


SPEC = dict(
    manifest=dict(
        category='proof',
        text="Lean proves over a hand model of Address.__init__/is_hex/is_b64/to_str/__eq__/__hash__ and of Python's base64 "
             "(encoder and the non-strict binascii decoder state machine): base64 decode(encode(bs)) = bs for EVERY byte string "
             "(all lengths, both alphabets); parse(to_str) = the same workchain, hash and flags for every workchain in -128..127, "
             "every 32-byte hash and all 8 friendly variants; the raw form round-trips for every integer workchain whose str() "
             "exists (4300-digit limit) and every non-empty hash; equal addresses have equal __hash__; and EVERY single-character "
             "substitution by another character of the same alphabet in ANY friendly text is rejected - by xor-linearity of CRC-16 "
             "(derived from the C18 step lemmas, over the crc16 code translated from crc.py on every run) the question reduces to "
             "the 48 x 63 error patterns, whose syndromes are all shown non-zero by kernel evaluation. "
             "The WHOLE class is re-translated from address.py on every run (Generated/AddrFull.lean): Address.to_str (raw form and the 8 friendly "
             "variants: tag, signed workchain byte, hash, CRC16, both base64 alphabets), is_b64 (base64 decode, tag/flag decoding, signed workchain "
             "byte, hash slice, CRC comparison), is_hex (split(':') into exactly two parts, int(hash,16), int(wc), bytes.fromhex), the constructor "
             "__init__ for a str / (int, bytes) tuple / Address argument (flags reset, dispatch is_hex -> is_b64 -> raise), __eq__ and __hash__; all "
             "are proved equal to the hand model for ALL addresses, flags and texts (c13_src_fn_methods, c13_src_fn_init), and the property is "
             "restated for the regenerated code itself: c13_src_friendly_roundtrip (regenerated Address(regenerated to_str(..)) = the same workchain, "
             "hash and requested flags, all 8 variants), c13_src_raw_roundtrip / c13_src_raw_exists, c13_src_substitution_rejected (every same-alphabet "
             "substitution makes the regenerated constructor raise), c13_src_rerender, c13_src_eq_hash, c13_src_copy_eq.",
        level_note='Trusted: Lean kernel (propext, Classical.choice, Quot.sound only); the translator harness/translate/pyobj.py + addrfull.py for '
                   '__init__ / is_hex / is_b64 / to_str / __eq__ / __hash__ (declared reading: the constructor argument is a str, an (int, bytes) tuple or an '
                   'Address - isinstance is resolved by that declared type; is_b64 returning False and raising are one outcome, accepted only because '
                   '__init__ raises after it; inside is_hex only ValueError can be raised - the translator refuses any other raising operation there - and '
                   'after its False result the attributes it touched are unreadable; self.anycast is not part of the text forms; lean/TonVerif/PyStr.lean '
                   'for the signed byte conversions; validated against the running class on ~1400 renderings / texts / constructor calls / pairs whenever '
                   'source or translator change) - all methods of Model/Address.lean are proved equal to the regenerated ones; still hand-written and '
                   'trusted are the BUILT-IN models used by both sides of every equation: '
                   'Model/Base64.lean and the text built-ins of Model/Address.lean (str.split, int(str[,16]), bytes.fromhex, str(int), bytes.hex, '
                   'base64/binascii are modelled by hand for ASCII text) - tied to the library only by sampled differential correspondence '
                   '(~200k model requests quick, ~6M thorough: every text produced, every parse result, all 3024 substitutions of 50/2000 '
                   'addresses, lenient and malformed inputs; among the addresses ~300 are SOLVED FOR from their text: every str literal of the current '
                   'address.py planted into the friendly text at start / inside / end / twice and into the raw form, friendly texts over sub-alphabets '
                   '(hex digits only, letters only, alphanumeric only ...), int literals +-1 as workchain; ~80 RAW texts whose colon-stripped base64 reading carries a correct CRC-16 at the friendly position, account id solved by GF(2) elimination; ~1000 PAIRS that collide under a wrong packing width - (wc, id) next to (wc + k, id - k * 2^s), s in 0..256 - judged by == / != / hash / set and dict membership); crc16 itself is the C18 translation of crc.py (re-proved each run). The tag '
                   'arithmetic is regenerated from address.py on every run (Generated/AddrTags.lean): the statements of to_str computing the tag '
                   'byte (0x11 / 0x51, |0x80) and the statements of is_b64 decoding it (test flag = bit 7, bounceable iff the rest is 0x11) are '
                   'proved equal to the model for all flag values and all 256 byte values (c13_src_tag, c13_src_b64_flags) and the hand model '
                   'is proved to write / read exactly these values (c13_src_model_to_str, c13_src_model_b64); trusted there: the translator '
                   'harness/translate/pyarith.py.',
        technique='Lean 4 proof (hand model + translated CRC) + differential correspondence with the library + independent format oracle '
                  '+ methods regenerated from the source on every run and proved equal to the hand model',
    ),
    translators=[],
    design_ref='DESIGN.md §6 C13',
    rule='pairs (wc, id) / (wc + k, id - k * 2^s) for s in {0, 1, 8, 16, 31, 32, 33, 64, 128, 255, 256} and small k of both signs (exact and mod 2^256), one-field neighbours, one address through two routes; raw texts wc:hex64 that are also CRC-correct under the friendly (base64) reading, for every 4 / 8 character workchain text; addresses solved for from their text: every str literal of the current address.py planted into the friendly text (start / inside / end / twice, '
         'all offsets mod 4) and into the raw form, friendly texts over sub-alphabets (hex only, letters only, alphanumeric ...), int literals +-1 as workchain; '
         'addresses: wc in {-128,-1,0,1,127} u random in -128..127, hash in {00..,ff..,random 32 bytes}; each rendered in 8 friendly variants '
         '+ raw and parsed back; all 48x63 substitutions for 40 (quick) / 2000 (thorough) friendly texts; lenient/malformed texts; '
         'distinct = distinct (operation, address, variant or text); non-trivial = every case except the empty text',
    trusted_base=['Model/Address.lean + Model/Base64.lean mirror address.py and the used part of base64/binascii/int()/bytes.fromhex by hand (ASCII texts)',
                  'Model.crc16 = translated crc.py (C18 tie)',
                  'harness/translate/pyarith.py + arith.py/arith2.py (Python statements -> Lean) for the c13_src_* theorems',
                  'harness/props/C13.py: independent transcription of the friendly/raw format (own CRC-16, own base64)'],
    assumptions=['correspondence is sampled differential testing', 'texts are ASCII (non-ASCII digits/white space accepted by int() are outside the model)',
                 "CPython's default int<->str limit of 4300 digits"],
)


def _translators():
    from ..translate import crc as tr
    from ..translate import arith2
    from ..translate import addrfull
    return [('crc.py->Generated/Crc.lean', tr.regenerate),
            ('address.py tag arithmetic of to_str / is_b64->Generated/AddrTags.lean', arith2.regenerator('AddrTags')),
            ('address.py Address.__init__ / is_hex / is_b64 / to_str / __eq__ / __hash__ (whole methods)->Generated/AddrFull.lean', addrfull.regenerate)]


SPEC['translators'] = _translators()

VARIANTS = [(u, b, t) for u in (True, False) for b in (True, False) for t in (True, False)]


def thex(text: str) -> str:
    return text.encode('ascii').hex() or '-'


def hx(b: bytes) -> str:
    return b.hex() or '-'


def parse_lib(text):
    """canonical result of Address(text): 'ok wc hash b t' | 'err'"""
    Address = _lib()
    try:
        a = Address(text)
    except Exception:
        return 'err', None
    # the constructor RETURNED: whatever it built is the parse result (an object without workchain / hash is not "an error")
    if not isinstance(a.wc, int) or not isinstance(a.hash_part, (bytes, bytearray)):
        return f'ok-unusable wc={a.wc!r} hash={a.hash_part!r}', a
    return f'ok {a.wc} {hx(a.hash_part)} {int(bool(a.is_bounceable))} {int(bool(a.is_test_only))}', a


def fl(uf, url, b, t):
    return ''.join('1' if x else '0' for x in (uf, url, b, t))


# ---------------------------------------------------------------- one address: all text forms

def check_addr(ctx, wc, hp, tag='gen', wcs=None):
    Address = _lib()
    wcs = wcs if wcs is not None else str(wc)          # decimal text of wc (given for integers beyond the str() limit)
    over = len(wcs.lstrip('-')) > 4300
    inp0 = {'kind': 'addr', 'wc': wcs, 'hash': hp.hex()}
    a = Address((wc, hp))
    in_range = -128 <= wc <= 127
    for var in VARIANTS + [None]:
        url, b, t = var if var else (None, None, None)
        friendly = var is not None
        name = f'friendly-url{int(url)}b{int(b)}t{int(t)}' if friendly else 'raw'
        inp = dict(inp0, variant=name)
        ctx.case(('str', wcs, hp, name), sample={'wc': wcs[:40], 'hash': hp.hex()[:16] + '..', 'variant': name})
        ctx.count('variant:' + name)
        try:
            s = a.to_str(True, url, b, t) if friendly else a.to_str(False)
        except Exception as e:
            s = None
        line = f'addrstr {wcs} {hx(hp)} {fl(friendly, bool(url), bool(b), bool(t))}'
        if friendly and not in_range:
            # no 1-byte form exists: the library must refuse (and so must the model)
            if s is not None:
                ctx.fail('text:out-of-range-wc', 'friendly form produced for a workchain outside -128..127', inp, s, 'exception')
            else:
                ctx.expect_model(line, 'err', tag)
            continue
        if over:
            # str(wc) does not exist under CPython's 4300-digit limit: the raw form raises (not a property failure)
            ctx.expect_model(line, 'err' if s is None else 'ok ' + s, tag)
            continue
        want = spec_friendly(wc, hp, url, b, t) if friendly else spec_raw(wc, hp)
        if s != want:
            ctx.fail('text:' + name, f'to_str ({name}) is not the TON text form of the address', inp, s, want)
            continue
        ctx.expect_model(line, 'ok ' + s, tag)
        got, back = parse_lib(s)
        if friendly and len(hp) != 32:
            # not an account id: the friendly form of a non-32-byte hash is outside the property (correspondence only)
            ctx.expect_model(f'addrparse {thex(s)}', got, tag)
            continue
        exp = f'ok {wcs} {hx(hp)} {int(bool(b)) if friendly else 0} {int(bool(t)) if friendly else 0}'
        if got != exp:
            ctx.fail('roundtrip:' + name, f'Address(to_str(..)) differs from the original ({name})', dict(inp, text=s), got, exp)
            continue
        ctx.expect_model(f'addrparse {thex(s)}', got, tag)
        try:
            ok_eq = (back == a) and (a == back) and hash(back) == hash(a) and back.__hash__() == a.__hash__()
        except Exception as e:
            ok_eq = False
        if not ok_eq:
            ctx.fail('eqhash:' + name, 'parsed address is not == the original or hashes differently', dict(inp, text=s), 'unequal', 'equal')
        # Address(Address): wc/hash copied, flags dropped
        try:
            c = Address(back)
            cg = f'ok {c.wc} {hx(c.hash_part)} {int(bool(c.is_bounceable))} {int(bool(c.is_test_only))}'
            if not (c == a and hash(c) == hash(a)):
                ctx.fail('copy:' + name, 'Address(Address(text)) is not equal to the original', dict(inp, text=s), cg, exp)
        except Exception:
            cg = 'err'
            ctx.fail('copy:' + name, 'Address(Address(text)) raised', dict(inp, text=s), 'err', exp)
        ctx.expect_model(f'addrcopy {thex(s)}', cg, tag)
        # re-rendering: the object that came out of the parser (it carries the parsed flags) and its copy, rendered in
        # every variant, must give the text of the (wc, hash) address in THAT variant - to_str depends on its arguments only
        if len(hp) == 32 and in_range:
            check_rerender(ctx, back, s, wc, hp, name, inp, tag)
            check_rerender(ctx, c if cg != 'err' else None, None, wc, hp, name + '/copy', inp, tag)
    # __hash__ / __eq__ through the tuple form
    try:
        hv = a.__hash__()
        if len(wcs) < 200:
            ctx.expect_model(f'addrhash {wcs} {hx(hp)}', f'ok {hv}', tag)
        a2 = Address((wc, bytes(hp)))
        if not (a2 == a) or hash(a2) != hash(a):
            ctx.fail('eqhash:tuple', 'two addresses built from the same (wc, hash) are unequal or hash differently', inp0, 'unequal', 'equal')
    except Exception as e:
        ctx.fail('eqhash:raise', f'__hash__/__eq__ raised {type(e).__name__}', inp0, 'err', 'value')


def check_rerender(ctx, obj, text, wc, hp, origin, inp, tag):
    """obj = an Address obtained through route `origin` (parsed from `text`, or a copy): all 8 friendly variants + raw."""
    if obj is None:
        return
    for var2 in VARIANTS + [None]:
        n2 = (f'friendly-url{int(var2[0])}b{int(var2[1])}t{int(var2[2])}' if var2 else 'raw')
        ctx.case(('restr', wc, hp, origin, n2))
        ctx.count('rerender')
        try:
            s2 = obj.to_str(True, *var2) if var2 else obj.to_str(False)
        except Exception:
            s2 = None
        want2 = spec_friendly(wc, hp, *var2) if var2 else spec_raw(wc, hp)
        if s2 != want2:
            ctx.fail('rerender:' + n2, f'to_str({n2}) of an address obtained from its {origin} form is not the {n2} text of that address '
                     '(the object\'s history leaks into the text)', dict(inp, origin=origin, text=text, variant2=n2), s2, want2)
            continue
        if text is not None:
            ctx.expect_model(f'addrrestr {thex(text)} {fl(var2 is not None, bool(var2 and var2[0]), bool(var2 and var2[1]), bool(var2 and var2[2]))}',
                             'ok ' + s2, tag)
        if var2:
            got2, _ = parse_lib(s2)
            exp2 = f'ok {wc} {hx(hp)} {int(bool(var2[1]))} {int(bool(var2[2]))}'
            if got2 != exp2:
                ctx.fail('rerender-parse:' + n2, f'parsing the re-rendered text does not give the requested flags', dict(inp, origin=origin, text=s2), got2, exp2)
    # default arguments: to_str() = friendly, url-safe, bounceable, not test-only - whatever the object was parsed from
    try:
        d = obj.to_str()
    except Exception:
        d = None
    if d != spec_friendly(wc, hp, True, True, False):
        ctx.fail('rerender:default', f'to_str() with default arguments of an address obtained from its {origin} form is not the bounceable '
                 'url-safe main-net text', dict(inp, origin=origin, text=text), d, spec_friendly(wc, hp, True, True, False))


def build_via(via, wc, hp):
    """an Address for (wc, hp) obtained through route `via`: 'tuple' | 'raw' (parsed raw text) | 'friendly-url?b?t?' (parsed friendly text
    carrying those flags; only for a 1-byte workchain and a 32-byte id, else the tuple form)."""
    Address = _lib()
    if via == 'raw':
        return Address(spec_raw(wc, hp))
    if via.startswith('friendly-') and -128 <= wc <= 127 and len(hp) == 32:
        url, b, t = (via[12] == '1'), (via[14] == '1'), (via[16] == '1')
        return Address(spec_friendly(wc, hp, url, b, t))
    return Address((wc, hp))


def check_pair(ctx, wc1, h1, wc2, h2, via=('tuple', 'tuple'), tag='pair'):
    """== / != / hash / set and dict membership on two addresses, judged by the property: a == b iff same workchain and same id bytes
    (whatever flags / route they came from); equal => equal hash; != is the negation; membership agrees.  Also vs the model."""
    inp = {'kind': 'pair', 'a': [wc1, h1.hex()], 'b': [wc2, h2.hex()], 'via': list(via), 'class': tag}
    ctx.case(('eq', wc1, h1, wc2, h2, tuple(via)))
    same = (wc1, h1) == (wc2, h2)
    try:
        a, b = build_via(via[0], wc1, h1), build_via(via[1], wc2, h2)
        e, e2 = a == b, b == a
        ne = a != b
        ha, hb = hash(a), hash(b)
        in_set = b in {a}
        in_dict = {a: 1}.get(b) == 1
        both = len({a, b})
    except Exception as ex:
        ctx.fail('eq:raise', f'comparing / hashing two addresses raised {type(ex).__name__}', inp, 'err', f'equal={same}')
        return
    if e is not True and e is not False:
        ctx.fail('eq:not-bool', '== on two addresses is not a bool', inp, repr(e), same)
        return
    ctx.expect_model(f'addreq {wc1} {hx(h1)} {wc2} {hx(h2)}', f'ok {int(e)}', 'pair')
    if e != same or e2 != same:
        ctx.fail('eq:wrong', '== differs from equality of (workchain, account id)', inp, f'a==b {e}, b==a {e2}', same)
    if ne is not (not same):
        ctx.fail('eq:ne', '!= is not the negation of equality of (workchain, account id)', inp, repr(ne), not same)
    if (e or same) and ha != hb:
        ctx.fail('eqhash:pair', 'equal addresses hash differently', inp, f'{ha} / {hb}', 'equal hashes')
    if in_set != same or in_dict != same or both != (1 if same else 2):
        ctx.fail('eq:membership', 'set / dict membership of two addresses disagrees with equality of (workchain, account id)', inp,
                 f'b in {{a}}: {in_set}, {{a: 1}}.get(b): {in_dict}, len({{a, b}}): {both}', f'{same}, {same}, {1 if same else 2}')


def pair_cases(ctx):
    """Round 11 class (harness/gen/packpairs.py): pairs of addresses that COLLIDE UNDER A WRONG PACKING WIDTH - (wc, id) next to
    (wc + k, id - k * 2^s) for every s in {0, 1, 8, 16, 31, 32, 33, 64, 128, 255, 256} and small k of both signs (exact in the integers and
    mod 2^256) - plus the one-field neighbours (only the workchain, only one id byte / bit) and the same address through two routes with
    different flags (tuple / raw text / the 8 friendly variants).  s = 0 is the packing __hash__ uses: those pairs hash equally and must
    still be unequal."""
    from ..gen import packpairs as pp
    rng = ctx.rng
    routes = ['tuple', 'raw'] + [f'friendly-url{int(u)}b{int(b)}t{int(t)}' for u, b, t in VARIANTS]
    bases = [(0, pp.collision_base(rng, 256)), (-1, pp.collision_base(rng, 256)), (rng.randrange(-120, 120), pp.collision_base(rng, 256)),
             (rng.randrange(-120, 120), rng.getrandbits(256)), (rng.choice([127, -128]), pp.collision_base(rng, 256)), (0, 0), (-1, (1 << 256) - 1)]
    for _ in range(ctx.n(2, 20)):
        bases.append((rng.randrange(-120, 120), pp.collision_base(rng, 256)))
    for wc, lo in bases:
        h = lo.to_bytes(32, 'big')
        for label, wc2, lo2 in pp.packing_collisions(rng, wc, lo, 256):
            ctx.count('pairs:packing-' + label.split('k')[0])
            check_pair(ctx, wc, h, wc2, lo2.to_bytes(32, 'big'), (rng.choice(routes), rng.choice(routes)), 'packing-' + label)
        for label, wc2, lo2 in pp.field_neighbours(rng, wc, lo, 256):
            ctx.count('pairs:one-field')
            check_pair(ctx, wc, h, wc2, lo2.to_bytes(32, 'big'), (rng.choice(routes), rng.choice(routes)), 'one-field-' + label)
        for _ in range(4):
            ctx.count('pairs:same-two-routes')
            check_pair(ctx, wc, h, wc, bytes(h), tuple(rng.sample(routes, 2)), 'two-routes')


# ---------------------------------------------------------------- substitutions

def check_subst(ctx, wc, hp, url, b, t, positions=None):
    Address = _lib()
    a = Address((wc, hp))
    try:
        s = a.to_str(True, url, b, t)
    except Exception:
        return
    if len(s) != 48:
        return        # reported by check_addr as text:...
    alpha = URL if url else STD
    n = 0
    for i in (positions if positions is not None else range(48)):
        for c in alpha:
            if c == s[i]:
                continue
            s2 = s[:i] + c + s[i + 1:]
            got, _ = parse_lib(s2)
            n += 1
            if got != 'err':
                ctx.fail(f'subst-accepted:pos{i}', f'friendly address with character {i} replaced ({s[i]!r}->{c!r}) is accepted',
                         {'kind': 'subst', 'wc': wc, 'hash': hp.hex(), 'url': url, 'b': b, 't': t, 'pos': i, 'char': c, 'text': s2}, got, 'exception')
            ctx.expect_model(f'addrparse {thex(s2)}', got, 'subst')
    ctx.case(('subst', wc, hp, url, b, t, None if positions is None else tuple(positions)))
    ctx.count('substitutions', n)


# ---------------------------------------------------------------- arbitrary texts (correspondence only)

def check_text(ctx, text, tag='text'):
    got, _ = parse_lib(text)
    ctx.case(('parse', text), nontrivial=bool(text))
    ctx.count('parse:' + ('ok' if got != 'err' else 'err'))
    ctx.expect_model(f'addrparse {thex(text)}', got, tag)


def check_b64(ctx, data, tag='b64'):
    import base64
    ctx.case(('b64', data), nontrivial=bool(data))
    for url in (0, 1):
        enc = (base64.urlsafe_b64encode if url else base64.b64encode)(data).decode()
        if enc != spec_b64(data, bool(url)):
            ctx.corr_broken(f'python base64 != harness spec_b64 on {data.hex()}')
        ctx.expect_model(f'b64enc {url} {hx(data)}', 'ok ' + (enc or '-'), tag)
        ctx.expect_model(f'b64dec {url} {thex(enc)}', 'ok ' + hx(data), tag)


def check_b64_text(ctx, text, tag='b64text'):
    import base64
    ctx.case(('b64dec', text), nontrivial=bool(text))
    for url in (0, 1):
        try:
            d = 'ok ' + hx((base64.urlsafe_b64decode if url else base64.b64decode)(text))
        except Exception:
            d = 'err'
        ctx.expect_model(f'b64dec {url} {thex(text)}', d, tag)


WS = [' ', '\t', '\n', '\r', '\x0b', '\x0c', '\x1c', '\x1f', '\x00', '\x7f']


def odd_texts(ctx, rng, wc, hp):
    """lenient / malformed variants around a valid address (correspondence of the parsers)."""
    Address = _lib()
    a = Address((wc, hp))
    raw = a.to_str(False)
    fr = a.to_str(True, rng.random() < .5, rng.random() < .5, rng.random() < .5)
    w, h = raw.split(':')
    out = [raw.upper(), w + ':' + h.upper(), ' ' + raw, raw + '\n', w + ' :' + h, w + ': ' + h, w + ':' + h[:32] + ' ' + h[32:],
           w + ':' + h[:31] + ' ' + h[31:], w + ':0x' + h, w + ':' + h[:-1], w + ':' + h + '0', w + ':' + h + '00', w + ':', ':' + h, w + h,
           w + '::' + h, raw + ':', '+' + w.lstrip('-') + ':' + h, '0x1:' + h, '1_0:' + h, '1__0:' + h, '_1:' + h, '1_:' + h, w + ':' + h[:2] + '_' + h[2:],
           w + ':+' + h, w + ':-' + h, '0' * 3 + w.lstrip('-') + ':' + h, '-0:' + h, '- 1:' + h, w + ':' + 'g' + h[1:], w + ':' + h[:10],
           w + ':' + 'ab' * 40, '1e3:' + h, '1.0:' + h, w + ':' + h + ' ', w + ':\t' + h + '\r\n', w + ':0X' + h, w + ':0x_' + h, w + ':0x__' + h]
    for c in WS:
        out += [c + raw, raw + c, w + c + ':' + h, w + ':' + c + h, w + ':' + h[:2] + c + h[2:], fr[:7] + c + fr[7:], c + fr, fr + c]
    # friendly: padding / dropped characters / alphabets mixed / truncated / extended
    other = fr.replace('-', '+').replace('_', '/') if ('-' in fr or '_' in fr) else fr.replace('+', '-').replace('/', '_')
    out += [fr + '=', fr + '==', fr + '====', '=' + fr, fr[:20] + '=' + fr[20:], fr[:22] + '==' + fr[22:], fr[:23] + '=' + fr[23:], fr[:47], fr[:46] + '==', fr[:44],
            fr + 'A', fr + 'AAAA', fr + fr, fr[:10] + '!' + fr[10:], fr[:10] + '.:' + fr[10:], fr[:10] + ':' + fr[10:], other, fr[::-1], fr.swapcase(), fr[1:], 'A' + fr, fr[:-1] + '=',
            fr[:-2] + '==', '', 'A', 'AA', 'AA==', '====', ':', '::', '0:', ':00', '0:00', '-1:' + '00' * 32, 'EQ', raw + fr, fr + ':' + h]
    # tag / length variants with a correct checksum (accepted as coded: any tag, only 36 bytes)
    import base64
    for tag in (0x00, 0x11, 0x51, 0x91, 0xD1, 0x12, 0x80, 0xFF, rng.randrange(256)):
        for n in (0, 1, 2, 31, 32, 33):
            body = bytes([tag, wc & 0xFF]) + hp[:n] + bytes(max(0, n - 32))
            body = body[:2 + n]
            out.append(base64.urlsafe_b64encode(body + bit16(body)).decode())
            out.append(base64.b64encode(body + bit16(body)).decode())
    return out


def big_wcs():
    lim = 10 ** 4300
    small = [128, -129, 255, 256, -256, 2 ** 31, -2 ** 31, 2 ** 64, -(2 ** 200) + 12345, 10 ** 639, 10 ** 640, lim - 1, -(lim - 1)]
    return [(w, str(w)) for w in small] + [(lim, '1' + '0' * 4300), (-lim, '-1' + '0' * 4300), (lim * 10 + 7, '1' + '0' * 4300 + '7')]


def addresses(ctx, n_random):
    rng = ctx.rng
    for wc in (-128, -1, 0, 1, 127):
        for hp in (bytes(32), b'\xff' * 32, rng.randbytes(32)):
            yield wc, hp
    for _ in range(n_random):
        r = rng.random()
        hp = rng.randbytes(32)
        if r < 0.1:
            hp = bytes([rng.choice([0, 0xff, 0x80, 1])]) * 32
        elif r < 0.2:
            k = rng.randrange(32)
            hp = bytes(k) + bytes([rng.randrange(1, 256)]) + bytes(31 - k)
        yield rng.randrange(-128, 128), hp


def src_search(ctx):
    """Search mode only: the points where the regenerated tag arithmetic (Generated/AddrTags.lean) differs from the model's: every
    variant of a few addresses (round trip with flags = the property), and the friendly text carrying each differing tag byte.
    True = a concrete failing input was found."""
    from ..translate import arith2
    found = arith2.search_points(ctx, ['AddrTags'])
    n0 = len(ctx.failures)
    rng = ctx.rng
    # the whole regenerated methods vs the hand model on the boundary grid: the differing renderings / texts go to the oracle first
    from ..translate import addrfull
    for line in addrfull.diff_lines(ctx)[:60]:
        p = line.split(' ')
        unh = lambda x: b'' if x == '-' else bytes.fromhex(x)
        if p[0] == 'str':
            check_addr(ctx, int(p[1]), unh(p[2]), 'src-fn')
        elif p[0] == 'b64':
            check_text(ctx, unh(p[1]).decode('latin-1'), 'src-fn')
            if not getattr(ctx, '_c13_src_subst', False):      # the text reader differs: all 48 x 63 substitutions of two friendly texts
                ctx._c13_src_subst = True
                check_subst(ctx, 0, rng.randbytes(32), True, True, False)
                check_subst(ctx, -1, rng.randbytes(32), False, False, True)
        elif p[0] == 'eqh':
            check_addr(ctx, int(p[1]), unh(p[2]), 'src-fn')
        elif p[0] in ('hexs', 'ini'):
            # the constructor / is_hex differ from the hand model on this text: the text itself, then the round trips (raw form of
            # boundary workchains and hashes, friendly variants) - the property is "every rendered text parses back"
            check_text(ctx, unh(p[1]).decode('latin-1'), 'src-fn')
            if not getattr(ctx, '_c13_src_init', False):
                ctx._c13_src_init = True
                for wc in (0, -1, 127, -128, 5):
                    for hp in (bytes(32), b'\xff' * 32, rng.randbytes(32)):
                        check_addr(ctx, wc, hp, 'src-fn')
                for wc, wcs in big_wcs()[:8]:
                    check_addr(ctx, wc, rng.randbytes(32), 'src-fn', wcs)
        elif p[0] in ('itu', 'iad'):
            check_addr(ctx, int(p[1]), unh(p[2]), 'src-fn')
    if len(ctx.failures) > n0:
        return True
    for wc in (0, -1, 127):
        check_addr(ctx, wc, rng.randbytes(32), 'src')
    tags = sorted({pt['tag0'] for k in ('b64TestOnly', 'b64Bounceable') for pt in (found.get(k) or [])})[:16]
    for tag in tags:
        body = bytes([tag, 0]) + rng.randbytes(32)
        check_text(ctx, spec_b64(body + bit16(body), True), 'src-tag')
    return len(ctx.failures) > n0


ADDR_FILES = ['pytoniq_core/boc/address.py']
HEXL = '0123456789abcdef'


def special_text_cases(ctx):
    """Round 10 classes (harness/gen/addrtexts.py, harness/gen/literals.py) - addresses SOLVED FOR from their text:
    A. every str literal of the CURRENT address.py (its runs over the base64 alphabets) planted into the friendly text: at the start (if a
       legal tag / workchain nibble spells it), at the first and last place inside the hash-only characters 3..44, at the very end (through
       the checksum, by CRC linearity), at every offset mod 4, at arbitrary places, and twice in one text;
    B. friendly texts over a sub-alphabet (hex digits only, lower-case hex only, letters only, alphanumeric only ...): texts that are also
       well-formed in ANOTHER form's alphabet (a bare hex number, both base64 alphabets at once);
    C. the raw form with the literals inside: hex literals in the hash, digit literals inside the workchain number, int literals +-1 as
       workchain and as hash bytes.
    Each goes through check_addr (all 8 friendly variants + raw: text == format transcription, Address(text) == the address with the flags
    it was rendered with, model correspondence); sub-alphabet texts also through ALL 48 x 63 substitutions."""
    from ..gen import addrtexts as at
    from ..gen.literals import source_literals, plantable
    rng = ctx.rng
    lits = source_literals(ADDR_FILES)
    ctx.count('special:source-str-literals', len(lits.strs))
    # A
    runs = []
    for url in (False, True):
        for lit in plantable(lits.strs, URL if url else STD, 45):
            if all(c in STD[:62] for c in lit):
                if lit not in [r[0] for r in runs]:
                    runs.append((lit, None))
            else:
                runs.append((lit, url))
    if len(runs) > 60:
        runs = sorted(runs, key=lambda r: -len(r[0]))[:20] + rng.sample(sorted(runs, key=lambda r: -len(r[0]))[20:], 40)
    for lit, url in runs:
        url = (rng.random() < .5) if url is None else url
        for tag, wc, hp, offs in at.planted(lit, url, rng):
            b, t = at.tag_flags(tag)
            text = spec_friendly(wc, hp, url, b, t)
            if any(text[o:o + len(lit)] != lit for o in offs):
                raise AssertionError(f'harness: planted literal {lit!r} not in {text!r} at {offs}')
            ctx.count('special:planted-' + ('start' if offs[0] == 0 else 'end' if offs[-1] + len(lit) == 48 else 'twice' if len(offs) > 1 else 'inside'))
            check_addr(ctx, wc, hp, 'planted-literal')
    # B
    for k, (name, sub) in enumerate(at.SUBALPHABETS):
        for url in (True, False):
            for j in range(ctx.n(2, 6)):
                r = at.subalphabet_text(sub, url, rng)
                if r is None:
                    ctx.count('special:subalphabet-infeasible')
                    break
                tag, wc, hp = r
                b, t = at.tag_flags(tag)
                text = spec_friendly(wc, hp, url, b, t)
                if not all(c in sub for c in text):
                    raise AssertionError(f'harness: {text!r} is not over the sub-alphabet {name}')
                ctx.count('special:subalphabet:' + name)
                check_addr(ctx, wc, hp, 'subalphabet-' + name)
                if j == 0 and (k + int(url)) % 2 == 0:
                    check_subst(ctx, wc, hp, url, b, t)
    # C
    for lit in plantable(lits.strs, HEXL, 64)[:40]:
        n = len(lit)
        for o in {0, 64 - n, rng.randrange(0, 65 - n), rng.randrange(0, 65 - n) | 1 if 64 - n >= 1 else 0}:
            if o + n > 64:
                continue
            h = ''.join(rng.choice(HEXL) for _ in range(64))
            ctx.count('special:raw-hex-literal')
            check_addr(ctx, rng.randrange(-128, 128), bytes.fromhex(h[:o] + lit + h[o + n:]), 'raw-literal')
    for lit in plantable(lits.strs, '0123456789', 30)[:20]:
        for txt in ('1' + lit, '-1' + lit, '9' + lit + '7', lit.lstrip('0') or '0'):
            ctx.count('special:raw-wc-literal')
            check_addr(ctx, int(txt), rng.randbytes(32), 'raw-literal')
    small = [v for v in lits.ints if abs(v) < 1 << 64]
    for v in (small if len(small) <= 40 else rng.sample(small, 40)):
        for w in {v - 1, v, v + 1, -v}:
            ctx.count('special:int-literal-wc')
            check_addr(ctx, w, rng.randbytes(32), 'int-literal')
        if 0 <= v < 256:
            k = rng.randrange(32)
            hp = rng.randbytes(32)
            check_addr(ctx, rng.randrange(-128, 128), bytes([v]) * 32, 'int-literal')
            check_addr(ctx, rng.randrange(-128, 128), hp[:k] + bytes([v]) + hp[k + 1:], 'int-literal')


def raw_also_friendly_cases(ctx):
    """Round 11 class D (harness/gen/addrtexts.py): RAW texts that are ALSO well-formed under the FRIENDLY reading - `wc:hex64` whose colon-stripped
    characters, base64-decoded (the lenient decoders drop the colon), carry a correct CRC-16 at bytes 34..35 over bytes 0..33; the account id is
    solved for by GF(2) elimination.  For every workchain whose raw text has a base64 reading at all (4 / 8 character decimal texts: all of
    -128..-100 and a sample of the others).  Each must parse as the raw address it spells (check_addr: all forms of that address)."""
    from ..gen import addrtexts as at
    rng = ctx.rng
    for wc in at.friendly_reading_workchains(rng, ctx.n(10, 60)):
        for wc_, hp, text in at.raw_also_friendly(rng, wc, ctx.n(2, 6)):
            if text != spec_raw(wc, hp):
                raise AssertionError(f'harness: {text!r} is not the raw text of ({wc}, {hp.hex()})')
            ctx.count('special:raw-also-friendly' + ('' if -128 <= wc <= 127 else '-wide-wc'))
            check_text(ctx, text, 'raw-also-friendly')
            check_addr(ctx, wc, hp, 'raw-also-friendly')


def run(ctx):
    rng = ctx.rng
    if ctx.search and src_search(ctx):
        return
    # 0. addresses solved for from their text (source literals planted, sub-alphabet texts)
    n0 = len(ctx.failures)
    special_text_cases(ctx)
    if ctx.search and len(ctx.failures) > n0:
        return
    raw_also_friendly_cases(ctx)
    if ctx.search and len(ctx.failures) > n0:
        return
    # 0b. pairs that collide under a wrong packing width, one-field neighbours, one address through two routes
    pair_cases(ctx)
    if ctx.search and len(ctx.failures) > n0:
        return
    # 1. all text forms of structured + random addresses
    addrs = list(addresses(ctx, ctx.n(400, 3000)))
    for wc, hp in addrs:
        check_addr(ctx, wc, hp)
    # 2. every workchain byte once
    for wc in range(-128, 128):
        hp = rng.randbytes(32)
        check_addr(ctx, wc, hp, 'all-wc')
    # 3. raw form / tuple form beyond the friendly range: other hash lengths, big workchains
    for wc, wcs in big_wcs():
        check_addr(ctx, wc, rng.randbytes(32), 'big-wc', wcs)
    for n in (1, 2, 31, 33, 64):
        check_addr(ctx, rng.randrange(-128, 128), rng.randbytes(n), 'hash-len')
    # 4. == / hash on pairs
    for _ in range(ctx.n(100, 2000)):
        wc1, h1 = rng.choice(addrs)
        r = rng.random()
        if r < .3:
            wc2, h2 = wc1, bytes(h1)
        elif r < .5:
            wc2, h2 = wc1 + rng.choice([-1, 1, 256]), h1
        elif r < .7:
            k = rng.randrange(32)
            wc2, h2 = wc1, h1[:k] + bytes([h1[k] ^ (1 << rng.randrange(8))]) + h1[k + 1:]
        else:
            wc2, h2 = rng.choice(addrs)
        check_pair(ctx, wc1, h1, wc2, h2)
    # 5. ALL 48 x 63 substitutions
    nsub = ctx.n(40, 2000)
    for k in range(nsub):
        if k < 8:
            wc, hp = rng.choice([-128, -1, 0, 1, 127]), rng.choice([bytes(32), b'\xff' * 32, rng.randbytes(32)])
        else:
            wc, hp = rng.randrange(-128, 128), rng.randbytes(32)
        url, b, t = VARIANTS[k % 8]
        check_subst(ctx, wc, hp, url, b, t)
    # 6. lenient / malformed texts (correspondence of the two parsers)
    for k in range(ctx.n(30, 150)):
        wc, hp = rng.choice(addrs)
        for txt in odd_texts(ctx, rng, wc, hp):
            check_text(ctx, txt)
    for d in ('9' * 4300, '9' * 4301, '-' + '9' * 4300, '0' * 4301, '1_' * 2150 + '1', ' ' * 10 + '9' * 4300 + '\n'):
        check_text(ctx, d + ':' + 'ab' * 32, 'digits-limit')
    for _ in range(ctx.n(300, 5000)):
        n = rng.choice([0, 1, 2, 3, 4, 5, 8, 47, 48, 49, 52, rng.randrange(0, 80)])
        pool = rng.choice([URL, STD, URL + '=', STD + '=:', URL + STD + '= \n:x!', '0123456789abcdefABCDEF:-+_ x'])
        check_text(ctx, ''.join(rng.choice(pool) for _ in range(n)), 'random-text')
    # 7. base64 itself (also usable by the BoC text forms)
    for n in list(range(0, 40)) + [rng.randrange(40, 400) for _ in range(ctx.n(20, 300))]:
        check_b64(ctx, rng.randbytes(n))
    for _ in range(ctx.n(300, 5000)):
        n = rng.randrange(0, 24)
        pool = rng.choice([STD, STD + '=', URL + '==', STD + URL + '=\n .'])
        check_b64_text(ctx, ''.join(rng.choice(pool) for _ in range(n)))


def replay(ctx, payload):
    inp = payload.get('input') or {}
    if not isinstance(inp, dict):
        return
    k = inp.get('kind')
    if k == 'addr':
        import sys
        old = sys.get_int_max_str_digits()
        sys.set_int_max_str_digits(0)
        try:
            wc = int(inp['wc'])
        finally:
            sys.set_int_max_str_digits(old)
        check_addr(ctx, wc, bytes.fromhex(inp['hash']), 'replay', inp['wc'])
    elif k == 'subst':
        check_subst(ctx, inp['wc'], bytes.fromhex(inp['hash']), inp['url'], inp['b'], inp['t'], [inp['pos']])
    elif k == 'pair':
        check_pair(ctx, inp['a'][0], bytes.fromhex(inp['a'][1]), inp['b'][0], bytes.fromhex(inp['b'][1]), tuple(inp.get('via') or ('tuple', 'tuple')),
                   inp.get('class') or 'pair')
    elif k == 'text':
        check_text(ctx, inp['text'], 'replay')
