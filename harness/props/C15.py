"""C15: messages, state-inits and currency values serialise per block.tlb and round-trip."""
from ..gen import cells as G
from ..gen import scripts as S
from ..gen import msgs as M
from ..gen import wrappers as W
from ..translate import arith2
from ..translate import msgsrc
from ..translate import wrapsrc

SPEC = dict(
    manifest=dict(
        category='proof',
        text='Lean theorems over a hand model of MessageAny/CommonMsgInfo/StateInit/CurrencyCollection serialize+deserialize '
             '(Model/Message.lean, built on the Builder/Slice model) against an independent block.tlb reading (Spec/Tlb/Message.lean): '
             'serialisation never runs out of room when the header leaves 3 bits (bound shown tight; no bound needed at all for '
             'Message X proper without anycast in an internal header: header <= 1007 bits), the cell decodes under the spec '
             'to the same message, the parser agrees with the spec decoder on every valid encoding (all four Either choices), and the '
             'strict reader (address classes of Message X) is sound/complete w.r.t. the union reader. '
             'The same three theorems (serialize = spec encoding and never fails for fields in range; spec decoder inverts it; own '
             'parser = spec decoder on every cell the decoder accepts) for every stand-alone wrapper: StateInit, CurrencyCollection, '
             'WalletV3Data, WalletV4Data, HashUpdate, NftItemData, NftItemSaleFees, NftItemSaleData (Spec/Tlb/Wrappers.lean from the '
             'contracts\' storage layouts, Model/Wrappers.lean from the code), and also for HighloadWalletData and WalletMessage after '
             'the repair of F23 (serialize dropped old_queries; WalletMessage.deserialize was a stub): full round trip with queries '
             'present (c15_highload_round_trip) and own parser = spec decoder (c15_wallet_message_own_parser). '
             'Model = library is checked differentially on a boundary sweep of the joint bit/ref budget and on boundary values of '
             'every wrapper field; the property itself is evaluated on the library against a second, Python transcription of the '
             'schemas (library serialize -> spec decoder; spec encoding -> library parser). The two layout decisions of MessageAny.serialize '
             '(init inline vs reference: the statements computing bits_left / refs_left / body_fits and the test `bits_left >= 0 and body_fits` of '
             'fix F17; body inline vs reference) are additionally re-translated from tlb/transaction.py on every run (Generated/MsgLayout.lean) and '
             'proved, for ALL integer budgets and sizes, to be the model\'s conditions (c15_src_layout_tests); initB / bodyB of the hand model are '
             'proved to branch by exactly these regenerated decisions (c15_src_model_layout). '
             'The WHOLE serialize AND deserialize methods of MessageAny, CommonMsgInfo, InternalMsgInfo, ExternalMsgInfo, ExternalOutMsgInfo, StateInit, TickTock, '
             'CurrencyCollection, ExtraCurrencyCollection are regenerated from transaction.py / account.py / block.py on every run (Generated/MsgSrc.lean, '
             'translator pytlb.py) and proved for ALL inputs to BE the hand model: the parsers on every slice (c15_src_deserialize), the serialisers for every '
             'message / state-init / currency value / header under Lawful + Total (c15_src_serialize: the code calls end_cell() on every piece, the model appends '
             'its bits and refs; bridged by the builder size invariant SrcMsgSer.Safe + sub_bridge). Hence c15_src_never_overflows (the regenerated '
             'MessageAny.serialize returns under the tight bound; mBig shows tightness on the regenerated code), c15_src_roundtrip (regenerated serialize then '
             'regenerated deserialize = identity on the property\'s domain), c15_src_layout_connected (the whole method branches by the regenerated decision lines), '
             'c15_src_header_roundtrip / c15_src_address_roundtrip (C06 level: every encodable header / address goes through the regenerated writer and reader '
             'unchanged, nothing left unread). '
             'The wrappers of tlb/custom/wallet.py and tlb/custom/nft.py (WalletV3Data, WalletV4Data, HighloadWalletData, WalletMessage, NftItemData, '
             'NftItemSaleFees, NftItemSaleData) are regenerated too (Generated/WrapSrc.lean, wrapsrc.py): constructors (wallet_id None -> 698983191, any int kept, '
             '0 included; public_key None raises: c15_src_wrapper_defaults), serialize and deserialize = Model/Wrappers.lean for all inputs (c15_src_wrappers), '
             'constructor -> serialize -> deserialize round trips on the regenerated code (c15_src_wallet_v3_roundtrip, c15_src_highload_roundtrip with old '
             'queries, c15_src_wallet_message_roundtrip); HashUpdate of tlb/utils.py likewise (c15_src_hash_update).',
        level_note='the hand models of the message classes and of the custom wrappers are proved equal to definitions regenerated from the source on every run '
                   '(trusted: the translator pytlb.py / wrapsrc.py / msgsrc.py with its declared interface -- Builder / Slice methods = BOp / SOp of Model/Builder.lean, '
                   'value domains, opaque HashMap calls -- validated against CPython on every change); Builder / Slice, HashMap, Cell stay hand model + sampled correspondence. Dictionaries '
                   '(extra currencies, library, plugins, old_queries) are optional root references (dictionary contents are C09/C10). '
                   'bits256 fields must be 32 bytes: the library does not check the length (a shorter key serialises to a cell that is '
                   'not a valid value; shown as an example, outside the property). The dictionary a HighloadWalletData cell holds is compared '
                   'semantically (HashMap.parse for the structure, the spec decoder per value), its root cell being opaque to the theorems.',
        technique='Lean 4 proof; message classes and custom wrappers regenerated from the source (whole methods) and proved equal to the hand model; differential correspondence with the library for the rest'),
    translators=[('transaction.py MessageAny.serialize inline/reference decisions->Generated/MsgLayout.lean', arith2.regenerator('MsgLayout')),
                 ('transaction.py / account.py / block.py whole message serialize / deserialize methods->Generated/MsgSrc.lean', msgsrc.regenerate),
                 ('custom/wallet.py / custom/nft.py / utils.py HashUpdate constructors + whole serialize / deserialize methods->Generated/WrapSrc.lean', wrapsrc.regenerate)],
    lean_targets=['TonVerif.Proofs.SrcMsg', 'TonVerif.Proofs.SrcMsgSer', 'TonVerif.Proofs.SrcWrap'],
    design_ref='DESIGN.md §6 C15',
    rule='boundary sweep: header kind (internal / ext-in / ext-out) x extra-currency dict (0/1/many entries) x state-init shape '
         '(absent, 0..3 refs, split_depth, tick-tock) x body bits {0, 1, each exact inline limit -1/0/+1, 1023} x body refs 0..4, plus '
         'exact-fill sweep: per header family (Message-X internal; relaxed internal / ext-in / ext-out) x dictionary x init shape the free sizes (anycast depths, extern lengths, byte lengths of the amounts) are solved '
         'so that header + init bits hit every total 1000..1023, bodies at room-2..room+2 of both layouts x 0..4 refs; '
         'seeded random messages (addresses none/extern/std/anycast, boundary amounts); every message: library serialize -> Python spec '
         'decoder + Lean spec decoder (+ strict reader) + Lean model (cell hash); the spec encodings for all four Either choices -> library '
         'deserialize + Lean model parser. Wrappers: per class the boundary values of every field (0, 1, 2^n-1, default wallet id; '
         'addr_none / std / anycast / extern 0,9,511 bits; Grams per byte length; empty / non-empty dictionaries; cells that exactly fill or '
         'overflow 1023 bits), seeded random values, out-of-range values (model error points) and truncated / extended / re-tagged cells '
         '(parsers on foreign cells): library serialize -> Python spec decoder, Python spec encoding -> library deserialize, Lean model '
         'serialize/parse and Lean spec encode/decode on the same cells; distinct = distinct (value, check); non-trivial = every case',
    trusted_base=['Spec/Tlb/Message.lean is the reading of block.tlb (Message X, CommonMsgInfo, StateInit, CurrencyCollection)',
                  'Spec/Tlb/Wrappers.lean is the reading of the wallet v3/v4/highload-v2, NFT item (TEP-62) and getgems fix-price sale '
                  'storage layouts and of update_hashes#72',
                  'Model/Message.lean, Model/Wrappers.lean mirror tlb/transaction.py, tlb/account.py, tlb/block.py (currency), tlb/utils.py '
                  '(HashUpdate), tlb/custom/*.py by hand',
                  'harness/gen/msgs.py, harness/gen/wrappers.py: second transcription of the schemas (oracle), canonical strings, library '
                  'object construction',
                  'dictionaries are serialised/parsed by the library HashMap (C09/C10) and treated as opaque root cells',
                  'harness/translate/pytlb.py + msgsrc.py + wrapsrc.py (whole serialize / deserialize methods and constructors -> Lean; declared interface in '
                  'design/translators-tlb.md), lean/TonVerif/PyTlb.lean',
                  'harness/translate/pyarith.py + arith.py/arith2.py (Python statements -> Lean) for the c15_src_* theorems; builder.available_bits / '
                  'available_refs are read as integer inputs (their definitions 1023 - used_bits, 4 - len(refs) are instantiated in c15_src_model_layout)'],
    assumptions=['correspondence is sampled differential testing', 'referenced cells (code/data/library/body/dict root/content) are ordinary cells',
                 'cells of depth > 1023 (Cell constructor raises) are outside "lack of room"'],
)


def info_bits(info):
    return len(M.enc_info(info)[0])


def must_fit(msg):
    """the bound of c15_never_overflows: header bits + 3 <= 1023 (with init) / + 2 (without)"""
    ib = info_bits(msg['info'])
    return ib + (3 if msg['init'] is not None else 2) <= 1023


def conforms(info):
    """Message X proper (block.tlb): int_msg_info src,dest:MsgAddressInt; ext_in src:MsgAddressExt dest:MsgAddressInt; ext_out the converse"""
    is_int = lambda a: a[0] == 's'
    if info[0] == 'I':
        return is_int(info[4]) and is_int(info[5])
    if info[0] == 'X':
        return not is_int(info[1]) and is_int(info[2])
    return is_int(info[1]) and not is_int(info[2])


def short(msg):
    c = M.canon_msg(msg)
    return c if len(c) < 400 else c[:400] + '...'


def replay_input(msg, dag=None):
    """self-contained description for the replay file"""
    d = M.Dag()
    tok = M.tok_msg(msg, d)
    return {'msg': tok, 'dag': d.line(), 'canon': short(msg)}


def msg_from_replay(inp):
    """rebuild the logical message from replay_input()"""
    nodes = []
    if inp['dag'] != '-':
        for part in inp['dag'].split('|'):
            k, b, r = part.split(',')
            nodes.append((int(k), '' if b == '-' else b, tuple(int(x) for x in r.split('.')) if r != '-' else ()))
    cells = G.lib_build(nodes, 'builder')
    i, ini, body = inp['msg'].split('/')
    f = i.split(';')

    def addr(s):
        p = s.split(':')
        if p[0] == 's':
            return ['s', int(p[1]), p[2]] + [int(x) for x in p[3:]]
        return [p[0]] + [int(x) for x in p[1:]]

    def cell(s):
        return None if s == '-' else cells[int(s)]
    if f[0] == 'I':
        extra = M.parse_dict_root(cell(f[7])) or {}
        info = ('I', f[1] == '1', f[2] == '1', f[3] == '1', addr(f[4]), addr(f[5]), int(f[6]), extra, int(f[8]), int(f[9]), int(f[10]), int(f[11]))
    elif f[0] == 'X':
        info = ('X', addr(f[1]), addr(f[2]), int(f[3]))
    else:
        info = ('O', addr(f[1]), addr(f[2]), int(f[3]), int(f[4]))
    init = None
    if ini != '-':
        g = ini.split(';')
        init = dict(sd=None if g[0] == '-' else int(g[0]), tt=None if g[1] == '-' else (g[1][0] == '1', g[1][1] == '1'),
                    code=cell(g[2]), data=cell(g[3]), lib=cell(g[4]))
    return dict(info=info, init=init, body=cells[int(body)])


def shape(msg):
    si = msg['init']
    k = msg['info'][0]
    ex = len(msg['info'][7]) if k == 'I' else 0
    return (k, min(ex, 2), None if si is None else sum(si[x] is not None for x in ('code', 'data', 'lib')),
            len(msg['body'].refs))


def check_msg(ctx, msg, tag, all_choices=True):
    """every C15 check on one logical message"""
    from pytoniq_core.tlb.transaction import MessageAny
    want = M.canon_msg(msg)
    inp = replay_input(msg)
    sh = shape(msg)
    ctx.case((tag, want), sample={'msg': short(msg)[:200]})
    ctx.count(f'kind:{sh[0]}')
    ctx.count(f'extra:{sh[1]}')
    ctx.count(f'init_refs:{sh[2]}')
    ctx.count(f'body_refs:{sh[3]}')
    fit = must_fit(msg)
    # ---- direction 1: library serialize
    try:
        c = M.lib_msg(msg).serialize()
    except Exception as e:
        c = None
        if fit:
            ctx.fail(f'ser-raises:{sh[0]}:extra{sh[1]}:init{sh[2]}:bodyrefs{sh[3]}',
                     'MessageAny.serialize raised although the header leaves room (init/body can always go into references)',
                     inp, repr(e), 'a cell')
    d = M.Dag()
    mtok = M.tok_msg(msg, d)
    ctx.expect_model(f'msgser {d.line()} {mtok}', M.show_cell(c) if c is not None else 'err', f'{tag} serialize')
    if c is not None:
        ctx.count('ser_ok')
        try:
            ctx.count('placement:' + placement(msg, c))
        except Exception:
            ctx.count('placement:unreadable')
        try:
            got = M.dec_message(c)
        except Exception as e:
            got = f'not a Message: {e}'
        if got != want:
            ctx.fail(f'ser-spec:{sh[0]}:extra{sh[1]}:init{sh[2]}', 'the serialised message does not decode (block.tlb reading) to the same message',
                     inp, got, want)
        else:
            dc = M.Dag()
            ci = dc.add(c)
            ctx.expect_model(f'msgdec {dc.line()} {ci}', 'ok ' + want, f'{tag} spec-decode of library cell')
            conf = conforms(msg['info'])
            ctx.count('message-x-proper' if conf else 'relaxed-address-classes')
            ctx.expect_model(f'msgdecs {dc.line()} {ci}', 'ok ' + want if conf else 'err', f'{tag} strict reader (Message X proper: {conf})')
        own = lib_parse(c)
        if own != want:
            ctx.fail(f'ser-own:{sh[0]}:extra{sh[1]}:init{sh[2]}', 'MessageAny.deserialize(serialize(m)) is a different message', inp, own, want)
    else:
        ctx.count('ser_err_expected')
    # ---- direction 2: every valid encoding -> library parser
    if not all_choices:
        return
    for ir in ((False, True) if msg['init'] is not None else (False,)):
        for br in (False, True):
            e = M.enc_message(msg, ir, br)
            ch = M.b01(ir) + M.b01(br)
            d2 = M.Dag()
            t2 = M.tok_msg(msg, d2)
            if e is None:
                ctx.expect_model(f'msgenc {d2.line()} {t2} {ch}', 'err', f'{tag} spec-encode {ch} (does not fit)')
                continue
            ec = M.mk_cell(e[0], e[1])
            ctx.count('enc:' + ch)
            ctx.expect_model(f'msgenc {d2.line()} {t2} {ch}', M.show_cell(ec), f'{tag} spec-encode {ch}')
            got = lib_parse(ec)
            if got != want:
                ctx.fail(f'parse:{ch}:{sh[0]}:extra{sh[1]}:init{sh[2]}',
                         f'MessageAny.deserialize of a valid encoding (init {"^" if ir else "inline"}, body {"^" if br else "inline"}) is a different message',
                         inp, got, want)
            de = M.Dag()
            ei = de.add(ec)
            ctx.expect_model(f'msgpar {de.line()} {ei}', 'ok ' + want, f'{tag} model parser on encoding {ch}')


def lib_parse(cell):
    from pytoniq_core.tlb.transaction import MessageAny
    try:
        return M.canon_lib_msg(MessageAny.deserialize(cell.begin_parse()))
    except Exception as e:
        return f'raised {type(e).__name__}'


def placement(msg, c):
    """which Either sides the library chose (read from the cell)"""
    ib = info_bits(msg['info'])
    bits = c.bits.to01()
    if msg['init'] is None:
        return '-' + bits[ib + 1]
    ir = bits[ib + 1]
    if ir == '1':
        return 'r' + bits[ib + 2]
    return 'i' + bits[ib + 2 + len(M.enc_state_init(msg['init'])[0])]


# ----------------------------------------------------------------------------- stand-alone wrappers

def check_state_init(ctx, si, tag):
    from pytoniq_core.tlb.account import StateInit
    want = M.canon_init(si)
    inp = {'state_init': want}
    ctx.case(('si', want))
    ctx.count('wrapper:StateInit')
    sb, sr = M.enc_state_init(si)
    try:
        c = M.lib_state_init(si).serialize()
    except Exception as e:
        ctx.fail('si-raises', 'StateInit.serialize raised', inp, repr(e), 'a cell')
        return
    if (c.bits.to01(), [r.hash for r in c.refs]) != (sb, [r.hash for r in sr]):
        ctx.fail('si-spec', 'StateInit.serialize is not the block.tlb encoding', inp, M.show_cell(c), M.show_cell(M.mk_cell(sb, sr)))
        return
    try:
        back = M.canon_lib_init(StateInit.deserialize(c.begin_parse()))
    except Exception as e:
        back = repr(e)
    if back != want:
        ctx.fail('si-parse', 'StateInit.deserialize(serialize(s)) differs', inp, back, want)
    d = M.Dag()
    tok = M.tok_init(si, d)
    ctx.expect_model(f'siser {d.line()} {tok}', M.show_cell(c), f'{tag} StateInit.serialize')
    ctx.expect_model(f'sienc {d.line()} {tok}', M.show_cell(c), f'{tag} StateInit spec encoder')
    dc = M.Dag()
    ci = dc.add(c)
    ctx.expect_model(f'sidec {dc.line()} {ci}', 'ok ' + want, f'{tag} StateInit spec decoder')
    ctx.expect_model(f'sipar {dc.line()} {ci}', 'ok ' + want, f'{tag} StateInit model parser')


def check_currency(ctx, grams, extra, tag):
    from pytoniq_core.tlb.block import CurrencyCollection
    root = M.dict_root(extra)
    want = f'{grams};{M.hx(root)}'
    inp = {'grams': grams, 'extra': {str(k): str(v) for k, v in extra.items()}}
    ctx.case(('cc', want))
    ctx.count('wrapper:CurrencyCollection')
    ctx.count(f'cc_extra:{min(len(extra), 2)}')
    cb, cr = M.enc_currency(grams, extra)
    try:
        c = M.lib_currency(grams, extra).serialize()
    except Exception as e:
        ctx.fail('cc-raises', 'CurrencyCollection.serialize raised', inp, repr(e), 'a cell')
        return
    if (c.bits.to01(), [r.hash for r in c.refs]) != (cb, [r.hash for r in cr]):
        ctx.fail('cc-spec', 'CurrencyCollection.serialize is not the block.tlb encoding', inp, M.show_cell(c), M.show_cell(M.mk_cell(cb, cr)))
        return
    try:
        p = CurrencyCollection.deserialize(c.begin_parse())
        back = (p.grams, dict(p.other.dict or {}))
    except Exception as e:
        back = repr(e)
    if back != (grams, dict(extra)):
        ctx.fail('cc-parse', 'CurrencyCollection.deserialize(serialize(v)) differs ({} and None are alike)', inp, back, (grams, extra))
    d = M.Dag()
    rn = '-' if root is None else str(d.add(root))
    ctx.expect_model(f'ccser {d.line()} {grams} {rn}', M.show_cell(c), f'{tag} CurrencyCollection.serialize')
    ctx.expect_model(f'ccenc {d.line()} {grams} {rn}', M.show_cell(c), f'{tag} CurrencyCollection spec encoder')
    dc = M.Dag()
    ci = dc.add(c)
    ctx.expect_model(f'ccdec {dc.line()} {ci}', 'ok ' + want, f'{tag} CurrencyCollection spec decoder')
    ctx.expect_model(f'ccpar {dc.line()} {ci}', 'ok ' + want, f'{tag} CurrencyCollection model parser')


def lib_parse_wrapper(kind, cell, v):
    """<Wrapper>.deserialize(cell.begin_parse()) -> canonical string | 'None' | 'raised <E>' ; for hl also the parsed values"""
    try:
        o = W.lib_class(kind).deserialize(cell.begin_parse())
    except Exception as e:
        return f'raised {type(e).__name__}', None
    try:
        vals = None
        if kind == 'hl' and o is not None and o.old_queries is not None:
            vals = {k: W.canon_lib('wm', x) for k, x in o.old_queries.items()}
        return W.canon_lib(kind, o, root=v.get('root') if kind == 'hl' else None), vals
    except Exception as e:
        return f'unreadable result: {type(e).__name__}', None


def check_wrapper(ctx, kind, v, tag):
    """every C15 check on one value of one stand-alone wrapper"""
    name = W.NAMES[kind]
    want = W.canon(kind, v)
    inp = W.to_replay(kind, v)
    ctx.case((kind, want, tag), sample={'wrapper': name, 'value': want[:160]})
    ctx.count('wrapper:' + name)
    choices = [(False, False)]
    if kind == 'wm':
        choices = [(ir, br) for ir in ((False, True) if v['msg']['init'] is not None else (False,)) for br in (False, True)]
    encs = {ch: W.enc(kind, v, ch) for ch in choices}
    valid = any(e is not None for e in encs.values())
    if kind == 'wm':
        valid = valid and must_fit(v['msg']) and 0 <= v['mode'] < 256
    ctx.count(f'{kind}:' + ('valid' if valid else 'out-of-range-or-too-big'))
    # a highload wallet's logical dictionary: {query id: wallet message}; its root cell depends on the Either choices inside
    qvals = None if kind != 'hl' else {k: W.canon('wm', x) for k, x in (v['q'] or {}).items()}
    if qvals:
        ctx.count('hl:with-queries')
    # ---- (a) library serialize -> independent spec decoder
    try:
        c = W.lib_obj(kind, v).serialize()
    except Exception as e:
        c, err = None, repr(e)
    vm = v
    if qvals:
        try:
            vm = dict(v, root=W.queries_root_lib(v['q']))       # the root as HashMap + WalletMessage.serialize build it
        except Exception:
            vm = None
    if vm is not None:
        d = M.Dag()
        t = W.tok(kind, vm, d)
        ctx.expect_model(f'{"wmser" if kind == "wm" else "wser"} {d.line()} {t}', M.show_cell(c) if c is not None else 'err',
                         f'{name}.serialize ({tag})')
    if valid and c is None:
        ctx.fail(f'{kind}-raises', f'{name}.serialize raised on a value whose fields are in range and whose encoding fits a cell', inp, err, 'a cell')
    if valid and c is not None:
        croot = None
        try:
            got = W.dec(kind, c)
            if kind == 'hl':
                croot = c.refs[0] if c.refs else None
                gq = W.parse_queries(croot)
                got_cmp, want_cmp = (got.rsplit(';', 1)[0], gq), (want.rsplit(';', 1)[0], qvals)
            else:
                got_cmp, want_cmp = got, want
        except Exception as e:
            got_cmp, want_cmp = f'not a {name}: {e}', want
        if got_cmp != want_cmp:
            ctx.fail(f'{kind}-spec', f'{name}.serialize does not decode (layout of the contract / TL-B declaration) to the same value', inp,
                     got_cmp, want_cmp)
        else:
            dc = M.Dag()
            ci = dc.add(c)
            ctx.expect_model(f'wdec {dc.line()} {ci} {kind}', 'ok ' + got, f'{name}: Lean spec decoder on the library cell')
            if kind != 'wm' and not qvals:
                e0 = encs[(False, False)]
                if (M.bits_of(c), [r.hash for r in c.refs]) != (e0[0], [r.hash for r in e0[1]]):
                    ctx.fail(f'{kind}-enc', f'{name}.serialize is not THE encoding of the value (the layout has a single one)', inp,
                             M.show_cell(c), M.show_cell(M.mk_cell(*e0)))
            own, vals = lib_parse_wrapper(kind, c, dict(v, root=croot) if kind == 'hl' else v)
            if own != got or (qvals and vals != qvals):
                ctx.fail(f'{kind}-own', f'{name}.deserialize(serialize(v)) is a different value', inp, (own, vals), (got, qvals))
    # ---- (b) every spec encoding -> library deserialize ; (c) Lean spec encoder / model parser
    for ch, e in encs.items():
        d2 = M.Dag()
        t2 = W.tok(kind, v, d2)
        op = f'wmenc {d2.line()} {t2} {M.b01(ch[0]) + M.b01(ch[1])}' if kind == 'wm' else f'wenc {d2.line()} {t2}'
        if e is None:
            ctx.expect_model(op, 'err', f'{name}: Lean spec encoder (no encoding)')
            continue
        ec = M.mk_cell(e[0], e[1])
        ctx.expect_model(op, M.show_cell(ec), f'{name}: Lean spec encoder')
        got, vals = lib_parse_wrapper(kind, ec, v)
        de = M.Dag()
        ei = de.add(ec)
        ctx.expect_model(f'wpar {de.line()} {ei} {kind}', 'err' if got.startswith('raised') else 'ok ' + got,
                         f'{name}: model parser on the spec encoding')
        ctx.expect_model(f'wdec {de.line()} {ei} {kind}', 'ok ' + want, f'{name}: Lean spec decoder on the spec encoding')
        if got != want:
            ctx.fail(f'{kind}-parse', f'{name}.deserialize of the valid encoding is a different value', inp, got, want)
        elif qvals and vals != qvals:
            ctx.fail('hl-parse', 'HighloadWalletData.deserialize: old_queries differ from the dictionary the cell holds', inp, vals, qvals)


def check_out_of_range(ctx, pool):
    """model = library on values OUTSIDE the types (error points of the model); nothing is claimed about the library here
    except that a value without an encoding must not round-trip silently as something else of full width"""
    pk = b'\x05' * 32
    bad = [('v3', dict(seqno=1 << 32, wid=0, pk=pk)), ('v3', dict(seqno=-1, wid=0, pk=pk)), ('v3', dict(seqno=0, wid=1 << 32, pk=pk)),
           ('v3', dict(seqno=0, wid=0, pk=pk[:31])), ('v3', dict(seqno=0, wid=0, pk=pk + b'\x01')), ('v3', dict(seqno=0, wid=0, pk=b'')),
           ('v4', dict(seqno=1 << 32, wid=0, pk=pk, plugins=pool[0])), ('v4', dict(seqno=0, wid=0, pk=pk[:1], plugins=None)),
           ('hl', dict(wid=1 << 32, lc=0, pk=pk, q=None, root=None)), ('hl', dict(wid=0, lc=1 << 64, pk=pk, q=None, root=None)),
           ('hl', dict(wid=0, lc=-1, pk=pk, q=None, root=None)),
           ('wm', dict(mode=256, msg=W.simple_msg(ctx.rng, pool))), ('wm', dict(mode=-1, msg=W.simple_msg(ctx.rng, pool))),
           ('hu', dict(old=pk[:31], new=pk)), ('hu', dict(old=pk, new=pk + pk)),
           ('nft', dict(index=1 << 64, coll=['n'], owner=['n'], content=pool[0])), ('nft', dict(index=-1, coll=['n'], owner=['n'], content=pool[0])),
           ('fees', dict(a=['n'], f=1 << 120, b=['n'], r=0)), ('fees', dict(a=['n'], f=0, b=['n'], r=-1)),
           ('sale', dict(c=True, t=1 << 32, m=['n'], n=['n'], o=['n'], p=0, fees=dict(a=['n'], f=0, b=['n'], r=0), e=False)),
           ('sale', dict(c=True, t=0, m=['n'], n=['n'], o=['n'], p=1 << 120, fees=dict(a=['n'], f=0, b=['n'], r=0), e=False)),
           ('sale', dict(c=True, t=0, m=['n'], n=['n'], o=['n'], p=0, fees=dict(a=['n'], f=1 << 120, b=['n'], r=0), e=False)),
           ('sale', dict(c=True, t=0, m=['n'], n=['n'], o=['n'], p=0, fees=dict(a=W.ADDRS[6], f=0, b=W.ADDRS[6], r=0), e=False))]
    for kind, v in bad:
        check_wrapper(ctx, kind, v, 'out-of-range')


def check_foreign_cells(ctx, pool):
    """cells that are NOT such a value (truncated / extended encodings, wrong tag): the Lean spec decoder, the Python spec
    decoder and the model parser are compared with the library parser (model = library; no claim on the library: its
    parsers ignore trailing data)"""
    rng = ctx.rng
    for kind, v in W.boundary_values(rng, pool)[::7]:
        if kind == 'wm':
            continue
        e = W.enc(kind, v)
        if e is None:
            continue
        variants = [(e[0][:-1], e[1]), (e[0] + '1', e[1]), (e[0], e[1] + [pool[0]]), (e[0], e[1][:-1]), (e[0][:8][::-1] + e[0][8:], e[1])]
        for vb, vr in variants:
            if len(vb) > 1023 or len(vr) > 4:
                continue
            ec = M.mk_cell(vb, vr)
            ctx.case(('foreign', kind, vb[:64], len(vb), len(vr)))
            ctx.count('foreign-cells')
            got, _ = lib_parse_wrapper(kind, ec, dict(v, root=(vr[0] if vr else None)) if kind == 'hl' else v)
            de = M.Dag()
            ei = de.add(ec)
            ctx.expect_model(f'wpar {de.line()} {ei} {kind}', 'err' if got.startswith('raised') else 'ok ' + got,
                             f'{W.NAMES[kind]}: model parser on a foreign cell')
            try:
                sd = 'ok ' + W.dec(kind, ec)
            except Exception:
                sd = 'err'
            ctx.expect_model(f'wdec {de.line()} {ei} {kind}', sd, f'{W.NAMES[kind]}: Lean spec decoder = Python spec decoder on a foreign cell')
            if sd != 'err' and got != sd[3:]:
                ctx.fail(f'{kind}-parse', f'{W.NAMES[kind]}.deserialize differs from the spec decoder on a cell the decoder accepts',
                         {'wrapper': kind, 'cell_bits': vb, 'cell_refs': len(vr)}, got, sd[3:])


def check_wrappers(ctx, pool):
    rng = ctx.rng
    for kind, v in W.boundary_values(rng, pool):
        check_wrapper(ctx, kind, v, 'boundary')
    for _ in range(ctx.n(12, 150)):
        for kind in W.KINDS:
            k, v = W.rand_value(rng, pool, kind)
            check_wrapper(ctx, k, v, 'rand')
    check_out_of_range(ctx, pool)
    check_foreign_cells(ctx, pool)


# ----------------------------------------------------------------------------- run

INIT_SHAPES = [None, (0, False, False), (1, False, False), (2, True, False), (3, False, False), (3, True, True), (0, True, True), (2, False, True)]


def sweep(ctx, pool):
    rng = ctx.rng
    combos = [('I', 0), ('I', 1), ('I', 7), ('X', 0), ('O', 0)]
    k = 0
    for kind, ex in combos:
        for sh in INIT_SHAPES:
            info = M.rand_info(rng, kind, strict=True, extra_size=ex)
            ib = info_bits(info)
            si = None if sh is None else M.rand_state_init(rng, pool, nrefs=sh[0], sd=sh[1], tt=sh[2])
            limits = set()
            if si is None:
                limits.add(1023 - ib - 2)
            else:
                s = len(M.enc_state_init(si)[0])
                limits.add(1023 - ib - 3 - s)       # init inline, body inline
                limits.add(1023 - ib - 3)           # init by reference, body inline
            lens = {0, 1, 1023}
            for L in limits:
                lens |= {L - 1, L, L + 1}
            lens = sorted(x for x in lens if 0 <= x <= 1023)
            for nb in lens:
                for nr in range(5):
                    msg = dict(info=info, init=si, body=M.body_cell(rng, nb, nr, pool))
                    k += 1
                    check_msg(ctx, msg, 'sweep', all_choices=ctx.thorough or k % 2 == 0 or nb in limits)


def exact_fill(ctx, pool):
    """THE CLASS "exact-fill sweeps of the joint budget": for every header family (internal with Message-X address classes: anycast depths
    and the byte lengths of value / ihr_fee / fwd_fee are the free sizes; internal / ext-in / ext-out with relaxed address classes: also
    addr_none and addr_extern of every length), with and without an extra-currency dictionary (a root reference), and every init shape
    (split_depth x tick-tock x 0..3 of code / data / library; no init), the free sizes are SOLVED (gen/msgs.py fill_info, exact: the
    lengths are counted by the block.tlb transcription) so that header bits + init bits hit EVERY value 1000..1023 - i.e. the room
    behind an inline init, 1023 - 3 - header - init, takes every value from 20 down to -3 - and the body takes sizes from
    room-2 .. room+2 of BOTH layouts (behind an inline init / behind an init reference) with 0..4 references.  Every (family, dictionary,
    init shape, total) gets bodies from that grid in rotation (an offset drawn per run), the Message-X family the whole grid where the room
    behind the init changes sign; the thorough tier takes the whole grid everywhere."""
    rng = ctx.rng
    rot = rng.randrange(1000)
    idx = 0

    def one(fam, ex, sh, total, full):
        nonlocal idx
        si = None if sh is None else M.rand_state_init(rng, pool, nrefs=sh[0], sd=sh[1], tt=sh[2])
        sbits = 0 if si is None else len(M.enc_state_init(si)[0])
        hb = total - sbits
        info = M.fill_info(rng, fam, ex, hb)
        if info is None:
            ctx.count('exact-fill:no-such-header')
            return
        rooms = [1023 - hb - 2] if si is None else [1023 - 3 - total, 1023 - 3 - hb]
        sizes = sorted({min(1023, max(0, r + o)) for r in rooms for o in (-2, -1, 0, 1, 2)})
        grid = [(nb, nr) for nb in sizes for nr in range(5)]
        take = grid if full else [grid[(rot + idx * 7) % len(grid)]]
        idx += 1
        ctx.count(f'exact-fill:{fam}')
        ctx.count(f'exact-fill-total:{total}')
        for nb, nr in take:
            msg = dict(info=info, init=si, body=M.body_cell(rng, nb, nr, pool))
            ctx.count('exact-fill-msgs')
            check_msg(ctx, msg, f'fill{total}', all_choices=ctx.thorough)
            if ctx.search and ctx.failures:
                return

    # (1) every family x dictionary x init shape x total 1000..1023
    for fam in M.FILL_FAMILIES:
        for ex in ((0, 1) if fam[0] == 'I' else (0,)):
            for sh in [None] + [(nr, sd, tt) for sd in (False, True) for tt in (False, True) for nr in range(4)]:
                for total in range(1000, 1024):
                    one(fam, ex, sh, total, ctx.thorough)
                    if ctx.search and ctx.failures:
                        return
    # (2) where the room behind an inline init changes sign (1021 - total = 2 .. -2): the WHOLE body grid for every count of free
    # references (dictionary x 0..3 init references), Message-X address classes, split_depth / tick-tock drawn per cell
    if not ctx.thorough:
        for total in range(1019, 1024):
            for ex in (0, 1):
                for nr in range(4):
                    one('I-strict', ex, (nr, rng.random() < .5, rng.random() < .5), total, True)
                    if ctx.search and ctx.failures:
                        return


def random_msgs(ctx, pool, n):
    rng = ctx.rng
    for t in range(n):
        info = M.rand_info(rng)
        si = M.rand_state_init(rng, pool) if rng.random() < 0.6 else None
        nb = rng.choice([0, 1, 8, 32, 256, 500, 1023, G.rand_len(rng)])
        body = M.body_cell(rng, nb, rng.randrange(5), pool)
        check_msg(ctx, dict(info=info, init=si, body=body), 'rand')


def header_limit(ctx, pool):
    """headers at the exact bound of c15_never_overflows: info bits 1019..1023 via a long addr_extern source (relaxed address classes)"""
    rng = ctx.rng
    for target in (1018, 1019, 1020, 1021, 1022, 1023, 1024):
        for with_init in (False, True):
            # internal header: 4 + src + dest + grams + 1 + 2 grams + 96 ; choose src extern of the needed length
            dest = ['s', -1, 'ab' * 32, 30, 5]
            fixed = 4 + len(S.enc_addr(dest)) + 4 + 1 + 4 + 4 + 96
            need = target - fixed - 11
            g = 0
            while need > 511:
                g = (g << 8) | 0xff
                need -= 8
            if not 0 <= need <= 511:
                continue
            src = ['e', need, (1 << need) - 1 if need else 0]
            info = ('I', True, False, True, src, dest, g, {}, 0, 0, 5, 6)
            if info_bits(info) != target:
                continue
            si = M.rand_state_init(rng, pool, nrefs=3) if with_init else None
            for nb, nr in ((0, 0), (5, 1), (1023, 4)):
                check_msg(ctx, dict(info=info, init=si, body=M.body_cell(rng, nb, nr, pool)), f'header{target}')


def src_search(ctx):
    """Search mode only: logs the (budget, size) points where a regenerated layout decision (Generated/MsgLayout.lean) differs from the
    model's; the boundary sweep that follows in `run` places bodies at every exact inline limit -1/0/+1 with 0..4 references behind
    every init shape, which is where such a difference shows as a message that does not serialise / decode."""
    arith2.search_points(ctx, ['MsgLayout'])
    # the whole regenerated methods (Generated/MsgSrc.lean) against the hand model, evaluated by Lean on the requests of the boundary
    # sweep / random messages / state-inits / currency collections; the differing requests are logged (the sweep that follows in
    # `run` judges exactly these inputs with the property's oracle)
    try:
        reqs = [l for l, _ in msgsrc.harness_requests()]
        diff = msgsrc.diff_requests(ctx, reqs)
        for l in diff[:5]:
            ctx.notes.append('regenerated != hand model on: ' + l[:40] + ' .. ' + l[-120:])
    except Exception as e:
        ctx.notes.append(f'source-diff search (MsgSrc) failed: {type(e).__name__}: {e}')
    # the regenerated wrappers (Generated/WrapSrc.lean: constructors, serialize, deserialize) against the hand model on the wrapper
    # requests of check_wrappers + the constructor requests; when they differ the wrapper values are judged FIRST in `run`
    wdiff = []
    try:
        wreqs = [l for l, _ in wrapsrc.harness_requests()]
        wdiff = wrapsrc.diff_requests(ctx, wreqs)
        for l in wdiff[:5]:
            ctx.notes.append('regenerated wrapper != hand model on: ' + l[:60] + ' .. ' + l[-120:])
    except Exception as e:
        ctx.notes.append(f'source-diff search (WrapSrc) failed: {type(e).__name__}: {e}')
    return bool(wdiff)


def run(ctx):
    rng = ctx.rng
    pool = M.leaf_pool(rng)
    if ctx.search:
        if src_search(ctx):
            check_wrappers(ctx, pool)
            if ctx.failures:
                return
    # the F17 input first
    f17 = dict(info=('I', True, False, False, ['s', 0, '11' * 32], ['s', 0, '11' * 32], 5, {1: 5}, 0, 0, 0, 0),
               init=dict(sd=None, tt=None, code=pool[1], data=pool[1], lib=pool[1]), body=M.mk_cell('', [pool[1]]))
    check_msg(ctx, f17, 'F17')
    sweep(ctx, pool)
    if ctx.search and ctx.failures:
        return                       # search mode only needs one concrete failing input
    header_limit(ctx, pool)
    exact_fill(ctx, pool)
    if ctx.search and ctx.failures:
        return
    random_msgs(ctx, pool, ctx.n(700, 10000))
    for t in range(ctx.n(40, 400)):
        check_state_init(ctx, M.rand_state_init(rng, pool), 'si')
    for nr in range(4):
        for sd in (False, True):
            for tt in (False, True):
                check_state_init(ctx, M.rand_state_init(rng, pool, nrefs=nr, sd=sd, tt=tt), 'si-shape')
    for t in range(ctx.n(40, 400)):
        check_currency(ctx, M.rand_grams(rng), M.rand_extra(rng), 'cc')
    for nb in range(0, 16):
        for v in S.varint_values(nb)[0]:
            check_currency(ctx, v, M.rand_extra(rng, rng.choice([0, 1, 3])), 'cc-grams')
    check_wrappers(ctx, pool)


def replay(ctx, payload):
    inp = payload.get('input') or {}
    if 'msg' in inp and 'dag' in inp:
        check_msg(ctx, msg_from_replay(inp), 'replay')
    elif inp.get('wrapper') in W.KINDS and 'value' in inp:
        kind, v = W.from_replay(inp)
        check_wrapper(ctx, kind, v, 'replay')
    elif 'state_init' in inp or 'grams' in inp or 'wrapper' in inp:
        pool = M.leaf_pool(ctx.rng)
        if 'grams' in inp:
            check_currency(ctx, int(inp['grams']), {int(k): int(v) for k, v in inp['extra'].items()}, 'replay')
        elif 'wrapper' in inp:
            check_wrappers(ctx, pool)
        else:
            for nr in range(4):
                check_state_init(ctx, M.rand_state_init(ctx.rng, pool, nrefs=nr), 'replay')
