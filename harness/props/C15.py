"""C15: messages, state-inits and currency values serialise per block.tlb and round-trip."""
from ..gen import cells as G
from ..gen import scripts as S
from ..gen import msgs as M

SPEC = dict(
    manifest=dict(
        category='proof',
        text='Lean theorems over a hand model of MessageAny/CommonMsgInfo/StateInit/CurrencyCollection serialize+deserialize '
             '(Model/Message.lean, built on the Builder/Slice model) against an independent block.tlb reading (Spec/Tlb/Message.lean): '
             'serialisation never runs out of room when the header leaves 3 bits (bound shown tight), the cell decodes under the spec '
             'to the same message, and the parser agrees with the spec decoder on every valid encoding (all four Either choices). '
             'Model = library is checked differentially on a boundary sweep of the joint bit/ref budget; the property itself is '
             'evaluated on the library against a second, Python transcription of the schema.',
        level_note='theorems are about the hand model; model = pytoniq-core only on the generated inputs (sampled). The extra-currency '
                   'dictionary and the library field are optional root references (dictionary contents are C09/C10). '
                   'HighloadWalletData.old_queries is a recorded finding (F23).',
        technique='Lean 4 proof (hand model) + differential correspondence with the library'),
    design_ref='DESIGN.md §6 C15',
    rule='boundary sweep: header kind (internal / ext-in / ext-out) x extra-currency dict (0/1/many entries) x state-init shape '
         '(absent, 0..3 refs, split_depth, tick-tock) x body bits {0, 1, each exact inline limit -1/0/+1, 1023} x body refs 0..4, plus '
         'seeded random messages (addresses none/extern/std/anycast, boundary amounts); every message: library serialize -> Python spec '
         'decoder + Lean spec decoder + Lean model (cell hash); the spec encodings for all four Either choices -> library deserialize + '
         'Lean model parser; distinct = distinct (message, check); non-trivial = every case',
    trusted_base=['Spec/Tlb/Message.lean is the reading of block.tlb (Message X, CommonMsgInfo, StateInit, CurrencyCollection)',
                  'Model/Message.lean mirrors tlb/transaction.py, tlb/account.py, tlb/block.py (currency), tlb/custom/*.py by hand',
                  'harness/gen/msgs.py: second transcription of the schema (oracle), canonical strings, library object construction',
                  'extra-currency dictionaries are serialised/parsed by the library HashMap (C09/C10) and treated as opaque root cells'],
    assumptions=['correspondence is sampled differential testing', 'referenced cells (code/data/library/body/dict root) are ordinary cells',
                 'cells of depth > 1023 (Cell constructor raises) are outside "lack of room"'],
)


def info_bits(info):
    return len(M.enc_info(info)[0])


def must_fit(msg):
    """the bound of c15_never_overflows: header bits + 3 <= 1023 (with init) / + 2 (without)"""
    ib = info_bits(msg['info'])
    return ib + (3 if msg['init'] is not None else 2) <= 1023


def short(msg):
    c = M.canon_msg(msg)
    return c if len(c) < 400 else c[:400] + '...'


def replay_input(msg, dag=None):
    """self-contained description for the replay file"""
    d = M.Dag()
    tok = M.tok_msg(msg, d)
    return {'msg': tok, 'dag': d.line(), 'canon': short(msg)}


def msg_from_replay(inp):
    """rebuild the logical message from replay_input()"""
    nodes = []
    if inp['dag'] != '-':
        for part in inp['dag'].split('|'):
            k, b, r = part.split(',')
            nodes.append((int(k), '' if b == '-' else b, tuple(int(x) for x in r.split('.')) if r != '-' else ()))
    cells = G.lib_build(nodes, 'builder')
    i, ini, body = inp['msg'].split('/')
    f = i.split(';')

    def addr(s):
        p = s.split(':')
        if p[0] == 's':
            return ['s', int(p[1]), p[2]] + [int(x) for x in p[3:]]
        return [p[0]] + [int(x) for x in p[1:]]

    def cell(s):
        return None if s == '-' else cells[int(s)]
    if f[0] == 'I':
        extra = M.parse_dict_root(cell(f[7])) or {}
        info = ('I', f[1] == '1', f[2] == '1', f[3] == '1', addr(f[4]), addr(f[5]), int(f[6]), extra, int(f[8]), int(f[9]), int(f[10]), int(f[11]))
    elif f[0] == 'X':
        info = ('X', addr(f[1]), addr(f[2]), int(f[3]))
    else:
        info = ('O', addr(f[1]), addr(f[2]), int(f[3]), int(f[4]))
    init = None
    if ini != '-':
        g = ini.split(';')
        init = dict(sd=None if g[0] == '-' else int(g[0]), tt=None if g[1] == '-' else (g[1][0] == '1', g[1][1] == '1'),
                    code=cell(g[2]), data=cell(g[3]), lib=cell(g[4]))
    return dict(info=info, init=init, body=cells[int(body)])


def shape(msg):
    si = msg['init']
    k = msg['info'][0]
    ex = len(msg['info'][7]) if k == 'I' else 0
    return (k, min(ex, 2), None if si is None else sum(si[x] is not None for x in ('code', 'data', 'lib')),
            len(msg['body'].refs))


def check_msg(ctx, msg, tag, all_choices=True):
    """every C15 check on one logical message"""
    from pytoniq_core.tlb.transaction import MessageAny
    want = M.canon_msg(msg)
    inp = replay_input(msg)
    sh = shape(msg)
    ctx.case((tag, want), sample={'msg': short(msg)[:200]})
    ctx.count(f'kind:{sh[0]}')
    ctx.count(f'extra:{sh[1]}')
    ctx.count(f'init_refs:{sh[2]}')
    ctx.count(f'body_refs:{sh[3]}')
    fit = must_fit(msg)
    # ---- direction 1: library serialize
    try:
        c = M.lib_msg(msg).serialize()
    except Exception as e:
        c = None
        if fit:
            ctx.fail(f'ser-raises:{sh[0]}:extra{sh[1]}:init{sh[2]}:bodyrefs{sh[3]}',
                     'MessageAny.serialize raised although the header leaves room (init/body can always go into references)',
                     inp, repr(e), 'a cell')
    d = M.Dag()
    mtok = M.tok_msg(msg, d)
    ctx.expect_model(f'msgser {d.line()} {mtok}', M.show_cell(c) if c is not None else 'err', f'{tag} serialize')
    if c is not None:
        ctx.count('ser_ok')
        try:
            ctx.count('placement:' + placement(msg, c))
        except Exception:
            ctx.count('placement:unreadable')
        try:
            got = M.dec_message(c)
        except Exception as e:
            got = f'not a Message: {e}'
        if got != want:
            ctx.fail(f'ser-spec:{sh[0]}:extra{sh[1]}:init{sh[2]}', 'the serialised message does not decode (block.tlb reading) to the same message',
                     inp, got, want)
        else:
            dc = M.Dag()
            ci = dc.add(c)
            ctx.expect_model(f'msgdec {dc.line()} {ci}', 'ok ' + want, f'{tag} spec-decode of library cell')
        own = lib_parse(c)
        if own != want:
            ctx.fail(f'ser-own:{sh[0]}:extra{sh[1]}:init{sh[2]}', 'MessageAny.deserialize(serialize(m)) is a different message', inp, own, want)
    else:
        ctx.count('ser_err_expected')
    # ---- direction 2: every valid encoding -> library parser
    if not all_choices:
        return
    for ir in ((False, True) if msg['init'] is not None else (False,)):
        for br in (False, True):
            e = M.enc_message(msg, ir, br)
            ch = M.b01(ir) + M.b01(br)
            d2 = M.Dag()
            t2 = M.tok_msg(msg, d2)
            if e is None:
                ctx.expect_model(f'msgenc {d2.line()} {t2} {ch}', 'err', f'{tag} spec-encode {ch} (does not fit)')
                continue
            ec = M.mk_cell(e[0], e[1])
            ctx.count('enc:' + ch)
            ctx.expect_model(f'msgenc {d2.line()} {t2} {ch}', M.show_cell(ec), f'{tag} spec-encode {ch}')
            got = lib_parse(ec)
            if got != want:
                ctx.fail(f'parse:{ch}:{sh[0]}:extra{sh[1]}:init{sh[2]}',
                         f'MessageAny.deserialize of a valid encoding (init {"^" if ir else "inline"}, body {"^" if br else "inline"}) is a different message',
                         inp, got, want)
            de = M.Dag()
            ei = de.add(ec)
            ctx.expect_model(f'msgpar {de.line()} {ei}', 'ok ' + want, f'{tag} model parser on encoding {ch}')


def lib_parse(cell):
    from pytoniq_core.tlb.transaction import MessageAny
    try:
        return M.canon_lib_msg(MessageAny.deserialize(cell.begin_parse()))
    except Exception as e:
        return f'raised {type(e).__name__}'


def placement(msg, c):
    """which Either sides the library chose (read from the cell)"""
    ib = info_bits(msg['info'])
    bits = c.bits.to01()
    if msg['init'] is None:
        return '-' + bits[ib + 1]
    ir = bits[ib + 1]
    if ir == '1':
        return 'r' + bits[ib + 2]
    return 'i' + bits[ib + 2 + len(M.enc_state_init(msg['init'])[0])]


# ----------------------------------------------------------------------------- stand-alone wrappers

def check_state_init(ctx, si, tag):
    from pytoniq_core.tlb.account import StateInit
    want = M.canon_init(si)
    inp = {'state_init': want}
    ctx.case(('si', want))
    ctx.count('wrapper:StateInit')
    sb, sr = M.enc_state_init(si)
    try:
        c = M.lib_state_init(si).serialize()
    except Exception as e:
        ctx.fail('si-raises', 'StateInit.serialize raised', inp, repr(e), 'a cell')
        return
    if (c.bits.to01(), [r.hash for r in c.refs]) != (sb, [r.hash for r in sr]):
        ctx.fail('si-spec', 'StateInit.serialize is not the block.tlb encoding', inp, M.show_cell(c), M.show_cell(M.mk_cell(sb, sr)))
        return
    try:
        back = M.canon_lib_init(StateInit.deserialize(c.begin_parse()))
    except Exception as e:
        back = repr(e)
    if back != want:
        ctx.fail('si-parse', 'StateInit.deserialize(serialize(s)) differs', inp, back, want)
    d = M.Dag()
    tok = M.tok_init(si, d)
    ctx.expect_model(f'siser {d.line()} {tok}', M.show_cell(c), f'{tag} StateInit.serialize')
    ctx.expect_model(f'sienc {d.line()} {tok}', M.show_cell(c), f'{tag} StateInit spec encoder')
    dc = M.Dag()
    ci = dc.add(c)
    ctx.expect_model(f'sidec {dc.line()} {ci}', 'ok ' + want, f'{tag} StateInit spec decoder')
    ctx.expect_model(f'sipar {dc.line()} {ci}', 'ok ' + want, f'{tag} StateInit model parser')


def check_currency(ctx, grams, extra, tag):
    from pytoniq_core.tlb.block import CurrencyCollection
    root = M.dict_root(extra)
    want = f'{grams};{M.hx(root)}'
    inp = {'grams': grams, 'extra': {str(k): str(v) for k, v in extra.items()}}
    ctx.case(('cc', want))
    ctx.count('wrapper:CurrencyCollection')
    ctx.count(f'cc_extra:{min(len(extra), 2)}')
    cb, cr = M.enc_currency(grams, extra)
    try:
        c = M.lib_currency(grams, extra).serialize()
    except Exception as e:
        ctx.fail('cc-raises', 'CurrencyCollection.serialize raised', inp, repr(e), 'a cell')
        return
    if (c.bits.to01(), [r.hash for r in c.refs]) != (cb, [r.hash for r in cr]):
        ctx.fail('cc-spec', 'CurrencyCollection.serialize is not the block.tlb encoding', inp, M.show_cell(c), M.show_cell(M.mk_cell(cb, cr)))
        return
    try:
        p = CurrencyCollection.deserialize(c.begin_parse())
        back = (p.grams, dict(p.other.dict or {}))
    except Exception as e:
        back = repr(e)
    if back != (grams, dict(extra)):
        ctx.fail('cc-parse', 'CurrencyCollection.deserialize(serialize(v)) differs ({} and None are alike)', inp, back, (grams, extra))
    d = M.Dag()
    rn = '-' if root is None else str(d.add(root))
    ctx.expect_model(f'ccser {d.line()} {grams} {rn}', M.show_cell(c), f'{tag} CurrencyCollection.serialize')
    ctx.expect_model(f'ccenc {d.line()} {grams} {rn}', M.show_cell(c), f'{tag} CurrencyCollection spec encoder')
    dc = M.Dag()
    ci = dc.add(c)
    ctx.expect_model(f'ccdec {dc.line()} {ci}', 'ok ' + want, f'{tag} CurrencyCollection spec decoder')
    ctx.expect_model(f'ccpar {dc.line()} {ci}', 'ok ' + want, f'{tag} CurrencyCollection model parser')


def check_wrappers(ctx, pool):
    from pytoniq_core.tlb.custom.wallet import WalletV3Data, WalletV4Data, HighloadWalletData, WalletMessage
    from pytoniq_core.tlb.custom.nft import NftItemData
    from pytoniq_core.tlb.utils import HashUpdate
    rng = ctx.rng
    u32 = lambda: rng.choice([0, 1, (1 << 32) - 1, rng.getrandbits(32)])

    def one(kind, tok, obj, spec_bits, spec_refs, parse, want_fields):
        inp = {'wrapper': kind, 'value': tok}
        ctx.case((kind, tok))
        ctx.count('wrapper:' + kind)
        try:
            c = obj.serialize()
        except Exception as e:
            ctx.fail(kind + '-raises', f'{kind}.serialize raised', inp, repr(e), 'a cell')
            return
        if (c.bits.to01(), [r.hash for r in c.refs]) != (spec_bits, [r.hash for r in spec_refs]):
            ctx.fail(kind + '-spec', f'{kind}.serialize is not the encoding of its TL-B declaration', inp, M.show_cell(c),
                     M.show_cell(M.mk_cell(spec_bits, spec_refs)))
            return
        d = M.Dag()
        t = tok(d)
        ctx.expect_model(f'wser {d.line()} {t}', M.show_cell(c), f'{kind}.serialize')
        if parse is None:
            return
        try:
            back = parse(c)
        except Exception as e:
            back = repr(e)
        if back != want_fields:
            ctx.fail(kind + '-parse', f'{kind}.deserialize(serialize(v)) differs', inp, back, want_fields)
        dc = M.Dag()
        ci = dc.add(c)
        ctx.expect_model(f'wpar {dc.line()} {ci} {t.split(";")[0]}', 'ok ' + want_fields, f'{kind}.deserialize')

    for _ in range(ctx.n(12, 100)):
        pk = rng.randbytes(32)
        sq, wid = u32(), u32()
        base = S.enc_uint(sq, 32) + S.enc_uint(wid, 32) + G.bytes_to_bits(pk)
        one('WalletV3Data', lambda d: f'v3;{sq};{wid};{pk.hex()}', WalletV3Data(sq, wid, pk), base, [],
            lambda c: (lambda p: f'{p.seqno};{p.wallet_id};{p.public_key.hex()}')(WalletV3Data.deserialize(c.begin_parse())),
            f'{sq};{wid};{pk.hex()}')
        pl = rng.choice([None] + pool)
        one('WalletV4Data', lambda d: f'v4;{sq};{wid};{pk.hex()};{"-" if pl is None else d.add(pl)}', WalletV4Data(sq, wid, pk, pl),
            base + ('0' if pl is None else '1'), [] if pl is None else [pl],
            lambda c: (lambda p: f'{p.seqno};{p.wallet_id};{p.public_key.hex()};{M.hx(p.plugins)}')(WalletV4Data.deserialize(c.begin_parse())),
            f'{sq};{wid};{pk.hex()};{M.hx(pl)}')
        lc = rng.choice([0, (1 << 64) - 1, rng.getrandbits(64)])
        # HighloadWalletData: serialise (empty old_queries) vs. its declaration and the model
        one('HighloadWalletData', lambda d: f'hl;{wid};{lc};{pk.hex()}', HighloadWalletData(wid, lc, pk, None),
            S.enc_uint(wid, 32) + S.enc_uint(lc, 64) + G.bytes_to_bits(pk) + '0', [], None, None)
        o, n = rng.randbytes(32), rng.randbytes(32)
        one('HashUpdate', lambda d: f'hu;{o.hex()};{n.hex()}', HashUpdate(o, n), '01110010' + G.bytes_to_bits(o) + G.bytes_to_bits(n), [],
            lambda c: (lambda p: f'{p.old_hash.hex()};{p.new_hash.hex()}')(HashUpdate.deserialize(c.begin_parse())), f'{o.hex()};{n.hex()}')
        idx = rng.choice([0, (1 << 64) - 1, rng.getrandbits(64)])
        ca, oa = M.rand_addr(rng), M.rand_addr(rng)
        content = rng.choice(pool)
        A = lambda p: S.mk_addr([str(x) for x in p])
        one('NftItemData', lambda d: f'nft;{idx};{M.canon_addr(ca)};{M.canon_addr(oa)};{d.add(content)}',
            NftItemData(idx, A(ca), A(oa), content), S.enc_uint(idx, 64) + S.enc_addr(ca) + S.enc_addr(oa), [content],
            lambda c: (lambda p: f'{p.index};{S.show_addr(p.collection_address)};{S.show_addr(p.owner_address)};{M.hx(p.content)}')(NftItemData.deserialize(c.begin_parse())),
            f'{idx};{M.canon_addr(ca)};{M.canon_addr(oa)};{M.hx(content)}')
    # F23: HighloadWalletData with old queries -- the dictionary must be written (HashmapE 64 WalletMessage)
    pk = b'\x07' * 32
    body = pool[1]
    wm = WalletMessage(3, M.lib_msg(dict(info=('X', ['n'], ['s', 0, '11' * 32], 0), init=None, body=body)))
    ctx.case(('highload-old-queries',))
    ctx.count('wrapper:HighloadWalletData+old_queries')
    try:
        c = HighloadWalletData(1, 2, pk, {1: wm}).serialize()
        ok = len(c.refs) == 1 and c.bits.to01()[-1] == '1'
    except Exception:
        ok = False
    if not ok:
        ctx.fail('highload-old-queries-dropped', 'HighloadWalletData.serialize does not write old_queries (and WalletMessage.deserialize is a stub)',
                 {'wrapper': 'HighloadWalletData', 'old_queries': '{1: WalletMessage(3, ext-in message)}'}, 'no dictionary reference', 'hme_root$1 + reference')


# ----------------------------------------------------------------------------- run

INIT_SHAPES = [None, (0, False, False), (1, False, False), (2, True, False), (3, False, False), (3, True, True), (0, True, True), (2, False, True)]


def sweep(ctx, pool):
    rng = ctx.rng
    combos = [('I', 0), ('I', 1), ('I', 7), ('X', 0), ('O', 0)]
    k = 0
    for kind, ex in combos:
        for sh in INIT_SHAPES:
            info = M.rand_info(rng, kind, strict=True, extra_size=ex)
            ib = info_bits(info)
            si = None if sh is None else M.rand_state_init(rng, pool, nrefs=sh[0], sd=sh[1], tt=sh[2])
            limits = set()
            if si is None:
                limits.add(1023 - ib - 2)
            else:
                s = len(M.enc_state_init(si)[0])
                limits.add(1023 - ib - 3 - s)       # init inline, body inline
                limits.add(1023 - ib - 3)           # init by reference, body inline
            lens = {0, 1, 1023}
            for L in limits:
                lens |= {L - 1, L, L + 1}
            lens = sorted(x for x in lens if 0 <= x <= 1023)
            for nb in lens:
                for nr in range(5):
                    msg = dict(info=info, init=si, body=M.body_cell(rng, nb, nr, pool))
                    k += 1
                    check_msg(ctx, msg, 'sweep', all_choices=ctx.thorough or k % 2 == 0 or nb in limits)


def random_msgs(ctx, pool, n):
    rng = ctx.rng
    for t in range(n):
        info = M.rand_info(rng)
        si = M.rand_state_init(rng, pool) if rng.random() < 0.6 else None
        nb = rng.choice([0, 1, 8, 32, 256, 500, 1023, G.rand_len(rng)])
        body = M.body_cell(rng, nb, rng.randrange(5), pool)
        check_msg(ctx, dict(info=info, init=si, body=body), 'rand')


def header_limit(ctx, pool):
    """headers at the exact bound of c15_never_overflows: info bits 1019..1023 via a long addr_extern source (relaxed address classes)"""
    rng = ctx.rng
    for target in (1018, 1019, 1020, 1021, 1022, 1023, 1024):
        for with_init in (False, True):
            # internal header: 4 + src + dest + grams + 1 + 2 grams + 96 ; choose src extern of the needed length
            dest = ['s', -1, 'ab' * 32, 30, 5]
            fixed = 4 + len(S.enc_addr(dest)) + 4 + 1 + 4 + 4 + 96
            need = target - fixed - 11
            g = 0
            while need > 511:
                g = (g << 8) | 0xff
                need -= 8
            if not 0 <= need <= 511:
                continue
            src = ['e', need, (1 << need) - 1 if need else 0]
            info = ('I', True, False, True, src, dest, g, {}, 0, 0, 5, 6)
            if info_bits(info) != target:
                continue
            si = M.rand_state_init(rng, pool, nrefs=3) if with_init else None
            for nb, nr in ((0, 0), (5, 1), (1023, 4)):
                check_msg(ctx, dict(info=info, init=si, body=M.body_cell(rng, nb, nr, pool)), f'header{target}')


def run(ctx):
    rng = ctx.rng
    pool = M.leaf_pool(rng)
    # the F17 input first
    f17 = dict(info=('I', True, False, False, ['s', 0, '11' * 32], ['s', 0, '11' * 32], 5, {1: 5}, 0, 0, 0, 0),
               init=dict(sd=None, tt=None, code=pool[1], data=pool[1], lib=pool[1]), body=M.mk_cell('', [pool[1]]))
    check_msg(ctx, f17, 'F17')
    sweep(ctx, pool)
    header_limit(ctx, pool)
    random_msgs(ctx, pool, ctx.n(700, 10000))
    for t in range(ctx.n(40, 400)):
        check_state_init(ctx, M.rand_state_init(rng, pool), 'si')
    for nr in range(4):
        for sd in (False, True):
            for tt in (False, True):
                check_state_init(ctx, M.rand_state_init(rng, pool, nrefs=nr, sd=sd, tt=tt), 'si-shape')
    for t in range(ctx.n(40, 400)):
        check_currency(ctx, M.rand_grams(rng), M.rand_extra(rng), 'cc')
    for nb in range(0, 16):
        for v in S.varint_values(nb)[0]:
            check_currency(ctx, v, M.rand_extra(rng, rng.choice([0, 1, 3])), 'cc-grams')
    check_wrappers(ctx, pool)


def replay(ctx, payload):
    inp = payload.get('input') or {}
    if 'msg' in inp and 'dag' in inp:
        check_msg(ctx, msg_from_replay(inp), 'replay')
    elif 'state_init' in inp or 'grams' in inp or 'wrapper' in inp:
        pool = M.leaf_pool(ctx.rng)
        if 'grams' in inp:
            check_currency(ctx, int(inp['grams']), {int(k): int(v) for k, v in inp['extra'].items()}, 'replay')
        else:
            check_wrappers(ctx, pool)
            for nr in range(4):
                check_state_init(ctx, M.rand_state_init(ctx.rng, pool, nrefs=nr), 'replay')
