"""C03: bag-of-cells serialisation round-trips for every DAG and option set, through three input forms and three
entry points.

Oracle (the property itself): to_boc -> {bytes, hex str, base64 str} -> {Cell, Slice, Builder}.one_from_boc and a
structural comparison (hash, data bits, type, references, recursively over the DAG) with the original root.
Correspondence: the Lean model of the input-form detection of `Boc.__init__` (Model/BocForms.lean, driver op bocinput)
against `Boc(data).data`; the emitter model is tied byte-for-byte in C04 (same generators); the parser + entry-point model
(driver op bocone: Model/BocEntry.lean over Model/BocParse.lean) is run on every emitted bag <= 1500 bytes in all three input forms
and must return the original root / its slice / builder image (the statement of c03_roundtrip across the model/library boundary).
"""
import base64

from ..gen import cells as G
from ..gen import bocdags as D
from ..translate import boccells, bocemit

SPEC = dict(
    manifest=dict(
        category='proof',
        text='Lean proves THE ROUND TRIP for ALL inputs (c03_roundtrip): for every spec-valid typed tree of cells t (any kinds incl. pruned/library/Merkle cells, any nesting and sharing; C02\'s TreeWF), '
             'the object graph p that Cell.__init__ builds, under the local no-collision hypothesis on the hashes of its sub-cells, every fuel for which the model of Cell.order returns, each of the 6 valid '
             'option sets (index, CRC, cache bits with the index) and within the format\'s own limits (< 2^32 cells, doubled payload < 2^64): the model of to_boc returns bytes bs, and the model of Cell.from_boc '
             '(header, cell records, rebuild loop, cell constructor) on bs, on bs.hex() and on b64encode(bs) - input-form detection modelled twice (Model/BocForms.lean with CPython\'s non-strict base64 decoder, '
             'and Model/BocParse.lean) and proved to agree on these texts - returns exactly ONE root (t\', i\') with t\' = t (identical data bits, cell types and references, recursively) and i\' = p.info '
             '(identical cached hashes, depths, level mask: identical hash). Route: the emitted bytes are shown to BE the parser-side spec encoder Spec.BocEncode.encodeWith for the freedoms the library uses '
             '(generic magic, minimal size width, minimal offset width from the doubled length with cache bits, no stored hashes, one root) on a Valid listing that denotes the unfoldings of the ordered cells, '
             'then C05\'s c05_accepts applies. Entry points (Model/BocEntry.lean): c03_entry_cell - Cell.one_from_boc returns that root; c03_entry_slice - Slice.one_from_boc returns the slice holding all '
             'data bits and references of the root; c03_entry_builder - Builder.one_from_boc returns the builder holding exactly the root\'s bits and references when the root is ordinary and RAISES when the root is '
             'exotic (known finding builder-entry:exotic-root-refused, proved to be the only failure). Non-vacuity: a DAG with a leaf shared by three parents meets all hypotheses (toy hash id). Also kept: '
             'c03_emit_denotes (= c04_conforms, independent strict reader), c03_forms* (fromhex(b.hex()) = b, b64decode(b64encode(b)) = b, the base64 text of a BoC magic is never valid hex) for every byte string. '
             'Every run additionally round-trips generated DAGs through the LIBRARY alone (6 option sets x 3 input forms x 3 entry points, structural comparison of the whole DAG) and runs the Lean '
             'parser/entry model on the library\'s emitted bytes (all three forms and entries), which must return the original root. '
             'TIE TO THE SOURCE, parser half: c03_src_parser / c03_roundtrip_src - Boc.deserialize, deserialize_cell and deserialize_boc_header are regenerated from deserialize.py on every run '
             '(harness/translate/pyloops.py, pybytes.py) and proved equal, for all byte lists, to Model/BocParse.lean (C05: c05_src_header, c05_src_deserialize_cell, c05_src_deserialize); hence the round trip '
             'holds with the regenerated parser in place of the hand model (cell constructor and Boc.__init__ stay hand models). A change of any line of those functions breaks a proof obligation; the check '
             'then round-trips boundary DAGs (every data length around the byte boundaries, 1-4 references, exotic cells) first. '
             'TIE TO THE SOURCE, emitter half and input forms: Cell.serialize / order / to_boc (cell.py) and Boc.__init__ (deserialize.py) are regenerated on every run '
             '(harness/translate/bocemit.py, pydict.py -> Generated/BocEmitSrc.lean) and proved, for all cell objects / option sets / iteration budgets / texts: Boc.__init__ = BocForms.inputBytes (c03_src_forms); the regenerated Cell.order returns a valid order by its own loop '
             'invariant and the regenerated to_boc is the lookup + layout of exactly these cells (C04: c04_src_order_valid_any, c04_src_to_boc_any); c03_roundtrip_src2: regenerated emitter, regenerated '
             'input-form detection and regenerated parser compose to the identity on every spec-valid DAG and all 6 valid option sets (bytes, hex and base64 form) - proved through the round trip for ANY '
             'valid order (Proofs/BocRoundTripAny.lean), not through the hand model of the traversal; the equality regenerated to_boc = PCell.toBoc (c03_src_emitter) is the separate module '
             'Properties/C04Model.lean (if only it breaks: traversal tie = valid-order-only, see C04). bytes.fromhex / base64.b64decode, the cell constructor (C01/C02 tie) and the entry points stay hand models.',
        level_note='Trusted: Lean kernel (propext, Classical.choice, Quot.sound); the hand models Model/BocEmit.lean (proved equal to the emitter regenerated from cell.py: translator pydict.py / pyobj.py + declared interface in bocemit.py + PyDict.lean trusted, validated against the library on every change; also tied byte-for-byte in C04), Model/BocParse.lean (header parser, cell reader and the loops of deserialize: proved equal to the functions regenerated from the source, translator harness/translate/pyloops.py + pybytes.py trusted and validated against CPython on every change; Boc.__init__: tied differentially in C05 and here on '
                   'every emitted bag <= 1500 bytes), Model/BocForms.lean (bocinput correspondence), Model/BocEntry.lean (bocone correspondence) and Model/Cell.lean (constructor, C01/C02); '
                   'base64/binascii/bytes.fromhex behave as modelled; SHA-256 abstract (arbitrary H) with the local NoCollision hypothesis; bounds 2^32 cells / 2^63 payload bytes are the format\'s. '
                   'Sampled only: model <-> library agreement (~15k model round trips + ~16k library round trips per quick run incl. 255/256/257 cells, payload 127..65536 bytes, depth-1023 chains, exotic cells, '
                   'maximal sharing; thorough: 65535/65536/70000 cells).',
        technique='Lean 4 proof (hand models of emitter and parser composed through the spec encoder; the parser model is proved equal to the parser regenerated from the source on every run) '
                  '+ full round trip through the library as oracle + differential correspondence of every model',
    ),
    translators=[('deserialize.py deserialize_boc_header, deserialize_cell, deserialize->Generated/BocHeader.lean, BocCells.lean', boccells.regenerate),
                 (bocemit.TIE_NAME, bocemit.regenerate_tied)],
    lean_targets=['TonVerif.Proofs.SrcBocDeser', 'TonVerif.Proofs.SrcBocEmit', 'TonVerif.Proofs.SrcOrderAny', 'TonVerif.Proofs.SrcBocAny'],
    design_ref='DESIGN.md §6 C03',
    rule='same DAG generators as C04; each DAG x 6 option sets x {bytes, hex, base64} x {Cell, Slice, Builder}.one_from_boc (large DAGs: all option sets through Cell/bytes, one option set '
         'through all forms and entry points); distinct = distinct (dag, root, option set, form, entry); non-trivial = more than one cell or non-empty data',
    trusted_base=['Model/BocForms.lean mirrors the bytes / hex / base64 detection of Boc.__init__ by hand (bocinput correspondence)',
                  'Model/BocEmit.lean: Cell.order / serialize / to_boc proved equal to the functions regenerated from cell.py (c03_src_emitter; trusted: translator pydict.py + interface in bocemit.py + PyDict.lean); Model/BocForms.inputBytes proved equal to the regenerated Boc.__init__ (c03_src_forms; fromhex / b64decode stay hand models)',
                  'Model/BocParse.lean: deserialize_boc_header / deserialize_cell / deserialize are proved equal to the functions regenerated from the source (c03_src_parser; trusted: the translator pyloops.py / pybytes.py and PyBytes.lean); Boc.__init__ by correspondence',
                  'Model/BocEntry.lean mirrors the three one_from_boc class methods, begin_parse and to_builder (bocone correspondence)'],
    assumptions=['bytes.fromhex / base64.b64decode behave as modelled', 'SHA-256 is abstract: theorems hold for every H under the local NoCollision hypothesis on the cells at hand'],
)

FORMS = ('bytes', 'hex', 'base64')
MODEL_MAX_BYTES = 1500          # the Lean parser/entry model is run on every emitted bag up to this size
ENTRIES = ('cell', 'slice', 'builder')


def form_of(b, form):
    if form == 'bytes':
        return b
    if form == 'hex':
        return b.hex()
    return base64.b64encode(b).decode()


def same_dag(a, b):
    """None if the cells a and b are structurally identical (hash, bits, type, refs recursively), else a reason. Iterative, memoised."""
    seen = set()
    stack = [(a, b, 'root')]
    while stack:
        x, y, path = stack.pop()
        k = (id(x), id(y))
        if k in seen:
            continue
        seen.add(k)
        if x.hash != y.hash:
            return f'hash differs at {path}'
        if x.bits.to01() != y.bits.to01():
            return f'data bits differ at {path}'
        if x.type_ != y.type_:
            return f'cell type differs at {path}: {x.type_} vs {y.type_}'
        if len(x.refs) != len(y.refs):
            return f'reference count differs at {path}'
        if x.level_mask.mask != y.level_mask.mask:
            return f'level mask differs at {path}'
        for i, (p, q) in enumerate(zip(x.refs, y.refs)):
            stack.append((p, q, (path + f'.{i}') if len(path) < 60 else '…'))
    return None


def parse_entry(entry, data):
    from pytoniq_core.boc.cell import Cell
    from pytoniq_core.boc.slice import Slice
    from pytoniq_core.boc.builder import Builder
    if entry == 'cell':
        return Cell.one_from_boc(data)
    if entry == 'slice':
        return Slice.one_from_boc(data)
    return Builder.one_from_boc(data)


def check_result(entry, res, rootc):
    """None or reason"""
    from pytoniq_core.boc.cell import Cell
    if entry == 'cell':
        if not isinstance(res, Cell):
            return f'Cell.one_from_boc returned {type(res).__name__}'
        return same_dag(rootc, res)
    # slice / builder: the image of the root (all bits, all refs, nothing consumed)
    if res.bits.to01() != rootc.bits.to01():
        return f'{entry}: data bits differ'
    refs = list(res.refs)[getattr(res, 'ref_offset', 0):]
    if len(refs) != len(rootc.refs):
        return f'{entry}: reference count differs'
    if res.type_ != rootc.type_:
        return f'{entry}: type differs'
    for p, q in zip(rootc.refs, refs):
        why = same_dag(p, q)
        if why:
            return f'{entry}: child: {why}'
    back = res.to_cell()
    return same_dag(rootc, back)


def model_expected(entry, rootc):
    """what the Lean model of `<entry>.one_from_boc` (driver op bocone, Model/BocEntry.lean on Model/BocParse.lean and
    Model/BocForms.lean) must answer on any input form of to_boc(rootc): the ORIGINAL root (the statement of c03_roundtrip /
    c03_entry_* across the model/library boundary: the library's bytes, the model's parser)."""
    from .C05 import canon
    if entry == 'cell':
        return 'ok ' + canon([rootc])
    if entry == 'builder' and rootc.type_ != -1:
        return 'err'
    return 'ok ' + (rootc.bits.to01() or '-') + ';' + ('.'.join(r.hash.hex() for r in rootc.refs) or '-')


def model_line(entry, form, data):
    if form == 'bytes':
        return f'bocone {entry} b {data.hex() or "-"}'
    return f'bocone {entry} s {data.encode().hex() or "-"}'


def check_case(ctx, tag, nodes, root, big=False, opts=D.OPTS, forms=FORMS, entries=ENTRIES):
    if root is None:
        root = len(nodes) - 1
    libs = G.lib_build(nodes)
    rootc = libs[root]
    if rootc is None:
        ctx.count('unconstructible-root')
        # a DAG the TON cell rules admit (independent Python spec, gen/cells.py:spec_dag) must be constructible: a bag that
        # cannot even be built cannot round-trip / be emitted (e.g. one boundary bit length refused by the constructor)
        sp = G.spec_dag(nodes)[root]
        if sp is not None and sp.valid:
            alt = None
            for route in ('plain', 'builder'):
                alt = G.lib_build(nodes, route)[root]
                if alt is not None:
                    break
            small0 = sum(len(n[1]) + 8 for n in nodes) < 40000
            inp0 = {'tag': tag, 'dag': [list(n) for n in nodes] if small0 else f'<{len(nodes)} nodes, regenerate from tag and seed>', 'root': root}
            ctx.case((tag, root, 'unconstructible'), nontrivial=True, sample={'tag': tag, 'unconstructible': True})
            if alt is None:
                ctx.fail('unconstructible-root:all-routes', f'spec-valid DAG {tag} cannot be constructed through any route (Cell(TvmBitarray), Cell(bitarray), Builder)',
                         inp0, 'exception', 'cell')
                return
            try:
                b0 = alt.to_boc()
                from pytoniq_core.boc.cell import Cell as _C
                back = _C.one_from_boc(b0)
                ok = back.hash == alt.hash
                why = 'hash differs' if not ok else ''
            except Exception as e:
                ok, why = False, f'{type(e).__name__}: {e}'
            if not ok:
                ctx.fail('unconstructible-root:roundtrip', f'spec-valid DAG {tag}: Cell(TvmBitarray(...)) refuses it; built through another route its bag does not parse back ({why})',
                         inp0, why, 'the same root')
            else:
                ctx.fail('unconstructible-root:ctor', f'spec-valid DAG {tag} is refused by Cell(TvmBitarray(1023, bits), refs, type) although another route builds it',
                         inp0, 'exception', 'cell')
        return
    small = sum(len(n[1]) + 8 for n in nodes) < 40000
    inp = {'tag': tag, 'dag': [list(n) for n in nodes] if small else f'<{len(nodes)} nodes, regenerate from tag and seed>', 'root': root}
    nt = len(nodes[root][2]) > 0 or len(nodes[root][1]) > 0
    exotic_root = rootc.type_ != -1
    for oi, o in enumerate(opts):
        try:
            b = rootc.to_boc(bool(o[0]), bool(o[1]), bool(o[2]))
        except Exception as e:
            ctx.fail(f'emit-raises:{"%d%d%d" % o}:{type(e).__name__}', f'to_boc{o} raised {type(e).__name__}: {e}', dict(inp, opts=list(o)), repr(e), 'bytes')
            continue
        for form in forms:
            for entry in entries:
                if big and not ((form == 'bytes' and entry == 'cell') or oi == len(opts) - 1):
                    continue
                data = form_of(b, form)
                finp = dict(inp, opts=list(o), form=form, entry=entry, boc=b.hex() if len(b) < 3000 else f'<{len(b)} bytes>')
                ctx.case((tag, root, o, form, entry, b[:48], len(b)), nontrivial=nt,
                         sample={'tag': tag, 'opts': '%d%d%d' % o, 'form': form, 'entry': entry, 'boc_len': len(b)})
                ctx.count(f'{form}/{entry}')
                if len(b) <= MODEL_MAX_BYTES and ctx.driver_ok:
                    ctx.expect_model(model_line(entry, form, data), model_expected(entry, rootc),
                                     f'model of {entry}.one_from_boc({form}) on the library bytes of {tag} opts {o}')
                    ctx.count('model-roundtrip')
                try:
                    res = parse_entry(entry, data)
                except Exception as e:
                    if entry == 'builder' and exotic_root and 'exotic' in str(e):
                        # Cell.to_builder refuses exotic cells on purpose; listed in known_findings.json
                        ctx.fail('builder-entry:exotic-root-refused', 'Builder.one_from_boc refuses a bag whose root is an exotic cell', finp, repr(e), 'builder image of the root')
                        ctx.count('builder-exotic-root-refused')
                        continue
                    ctx.fail(f'parse-raises:{entry}:{form}:{type(e).__name__}', f'{entry}.one_from_boc({form}) of to_boc{o} raised {type(e).__name__}: {e}', finp, repr(e), 'the same root')
                    continue
                try:
                    why = check_result(entry, res, rootc)
                except Exception as e:
                    why = f'comparison raised {type(e).__name__}: {e}'
                if why:
                    ctx.fail(f'roundtrip:{entry}:{form}:{why.split(" at ")[0][:40]}', f'round trip through to_boc{o} / {form} / {entry}: {why}', finp, why, 'identical hash and structure')


def check_forms_model(ctx, rng):
    """correspondence of Model/BocForms.lean (detection order bytes / hex / base64) with Boc.__init__"""
    from pytoniq_core.boc.deserialize import Boc
    if not ctx.driver_ok:
        return
    texts = []
    magic = bytes.fromhex('b5ee9c72')
    for _ in range(ctx.n(150, 1500)):
        body = magic * (rng.random() < 0.7) + rng.randbytes(rng.choice([0, 1, 2, 3, 4, 5, 17, 60]))
        r = rng.random()
        if r < 0.3:
            t = body.hex()
        elif r < 0.4:
            t = body.hex().upper()
        elif r < 0.8:
            t = base64.b64encode(body).decode()
        elif r < 0.9:
            t = ' '.join(body.hex()[i:i + 2] for i in range(0, 2 * len(body), 2))
        else:
            t = base64.b64encode(body).decode().rstrip('=')        # broken padding
        texts.append(t)
    texts += ['', 'zz', 'abc', 'ab cd', 'a b', 'te6cc', 'te6c', '====', 'QQ==', 'QQ=', 'QUI=', 'QUJD', 'deadbeef', 'DEADBEEF', 'dead beef']
    texts = [t for t in texts if t.isascii()]
    lines = ['bocinput ' + (t.encode().hex() or '-') for t in texts]
    outs = ctx.model.run(lines)
    if outs and outs[0] == 'bad-op':
        ctx.corr_broken('driver has no bocinput op (Model/BocForms.lean missing)')
        return
    for t, o in zip(texts, outs):
        try:
            lib = 'ok ' + (Boc(t).data.hex() or '-')
        except Exception:
            lib = 'err'
        ctx.case(('form', t), nontrivial=bool(t))
        ctx.count('forms-model')
        if o != lib:
            ctx.corr_broken(f'input-form model != Boc.__init__ on text {t[:80]!r}: model {o[:80]} library {lib[:80]}')


def check_forms_oracle(ctx, texts):
    """the property's statement on Boc.__init__ alone: the hex / base64 text of a BoC parses to the same bytes as the bytes.  A text on
    which the regenerated form detection and the model differ is judged by re-encoding what the LIBRARY decodes it to."""
    from pytoniq_core.boc.deserialize import Boc
    magic = bytes.fromhex('b5ee9c72')
    bodies = [magic + bytes([i]) * (i % 5) for i in range(12)]
    for t in texts:
        try:
            bodies.append(bytes(Boc(t).data))
        except Exception:
            pass
    # every spelling of the hex form that bytes.fromhex reads: lower / upper / mixed case, blanks between the bytes
    spell = {'hex': lambda b: b.hex(), 'base64': lambda b: base64.b64encode(b).decode(), 'hex-upper': lambda b: b.hex().upper(),
             'hex-mixed': lambda b: ''.join(c.upper() if i % 3 == 0 else c for i, c in enumerate(b.hex())),
             'hex-spaced': lambda b: ' '.join(b.hex()[i:i + 2] for i in range(0, 2 * len(b), 2)),
             'hex-upper-first': lambda b: b.hex()[:8].upper() + b.hex()[8:]}
    for b in bodies:
        for form, f in spell.items():
            try:
                got = bytes(Boc(f(b)).data)
            except Exception as e:
                got = repr(e)
            ctx.case(('forms-oracle', form, b), nontrivial=True)
            if got != b:
                ctx.fail(f'forms:{form}', f'Boc({form} text of a byte string).data differs from the byte string', {'bytes': b.hex(), 'form': form, 'text': f(b)[:200]}, str(got)[:80], b.hex())


def src_search(ctx):
    """a source obligation broke: (emitter / forms) Lean compares regenerated vs hand model on boundary DAGs and texts, the differing
    ones are round-tripped first; (parser) round-trip the boundary DAGs of C05's cell grid"""
    from . import C05
    cases = [c for c in bocemit.validation_dags() if len(c[1]) <= bocemit.BIG]
    texts = [t for t in bocemit.validation_texts() if t.isascii()]
    found, ftexts = bocemit.diff_inputs(ctx, cases, texts)
    first = [(t, n, r) for t, n, r, _ in found]
    for tag, nodes, root in first + [c for c in cases if c[0] not in {t for t, _, _ in first}]:
        check_case(ctx, 'src-' + tag, nodes, root, entries=('cell',))
        if len(ctx.failures) >= 3:
            return True
    if ftexts:
        check_forms_oracle(ctx, ftexts)
    if ctx.failures:
        return True
    for tag, nodes, root in C05.boundary_dags(ctx.rng):
        check_case(ctx, tag, nodes, root, forms=('bytes',), entries=('cell',))
        if len(ctx.failures) >= 3:
            break
    return bool(ctx.failures)


def run(ctx):
    if ctx.search and src_search(ctx):
        return
    scale = 0.7
    for tag, nodes, root, big in D.cases(ctx, scale=scale):
        if tag == 'cells65536-tree' and not ctx.thorough:
            continue                      # 2-byte/3-byte size boundary: thorough tier here (C04 covers it in the quick tier)
        check_case(ctx, tag, nodes, root, big or len(nodes) > 400)
        ctx.count('dags')
    nodes = D.connected_dag(ctx.rng, 30)
    for r in range(0, 30, 4):
        check_case(ctx, f'inner{r}', nodes, r)
    check_forms_model(ctx, ctx.rng)
    check_forms_oracle(ctx, [])         # hex in every spelling bytes.fromhex reads, base64: Boc(text).data = the bytes
    if bocemit.valid_order_only(ctx):
        # only the MODEL EQUALITY of the traversal (Properties/C04Model.lean) is broken; c03_roundtrip_src2 is proved from the
        # regenerated loop's invariant (core built and audited Properties/C03.lean).  The correspondence of this check runs the
        # parser model on the LIBRARY's bytes and does not depend on the emitter model's visiting order.
        bocemit.note_valid_order_only(ctx)


def replay(ctx, payload):
    inp = payload.get('input') or {}
    if isinstance(inp.get('dag'), list):
        nodes = [(k, b, tuple(r)) for k, b, r in inp['dag']]
        check_case(ctx, inp.get('tag', 'replay'), nodes, inp.get('root'),
                   opts=[tuple(inp['opts'])] if inp.get('opts') else D.OPTS,
                   forms=[inp['form']] if inp.get('form') else FORMS,
                   entries=[inp['entry']] if inp.get('entry') else ENTRIES)
