"""C11: Merkle proof checks are complete and sound (check_proof, check_block_header_proof, check_account_proof)."""
from ..gen import cells as G
from ..translate import arith, arith2, prooffull, cellctor, locsrc
from ..gen import tlbvals as V

SPEC = dict(
    manifest=dict(
        category='proof',
        text="Lean proves on a hand model of proof/check_proof.py over the cell model: (completeness, Properties/C11.lean c11_complete) every pruning "
             "(PruneRel, any nesting of Merkle cells; uses the all-levels pruning invariance of Proofs/Prune.lean) of every spec-valid level-0 tree of depth "
             "<= 1022, wrapped as a Merkle proof cell, can be constructed -- validity of the proof tree is derived (Proofs/PruneWF.lean), not assumed -- and is "
             "accepted by check_proof and check_block_header_proof against the original level-0 hash -- no assumption on SHA-256 beyond 32-byte output; "
             "(soundness) acceptance implies the cell is a well-formed Merkle proof cell (type, 280 bits, one ref, stored hash and depth) whose child has "
             "the expected level-0 hash (c11_sound_shape, c11_reject_*), and under a LOCAL no-collision hypothesis on the finite list of representations "
             "occurring in the two trees (every non-pruned cell at each of its significant levels, every pruned branch), equal level-l hashes force "
             "Agree (c11_binding: EVERY level l, trees WITH inner Merkle proof/update cells, library cells, pruned branches of any mask; induction over the "
             "tree carrying all significant levels <= l through the chained hashes, Proofs/Binding.lean): corresponding cells have equal hashes at the level "
             "they are looked at, and each pair is either a pruned branch answering with a stored hash and the subtree carrying that hash, or two cells of "
             "the same type with the same BIT STRING (padding invertibility, Proofs/Pad.lean), the same reference count and agreeing children; c11_sound: "
             "accept => Agree 0 body t for every t with that level-0 hash, c11_sound_everywhere: and along every path of reference indices down to each unpruned cell; c11_reject_changed / c11_binding_pruned_hash: a changed bit, type or reference "
             "of an unpruned cell and a substituted pruned hash are rejected. ACCOUNT CHECK: the TL-B walk ShardStateUnsplit.deserialize(st).accounts[0][addr].cell[0] is a "
             "CONCRETE model function (Model/Locate.lean locateAccount: state header fields, load_hashmap_aug_e / parse_aug over the whole ShardAccounts dictionary with "
             "the C10 label reader, DepthBalanceInfo, ShardAccount, the ^[...] group, custom), no longer a parameter. c11_locate_sound: whatever the walk returns is "
             "the account cell that the hashmap.tlb LOOKUP of the address designates in the proved state cell (every entry of a successful parse_aug is what the "
             "lookup of its key finds; keys of a parse are pairwise distinct); c11_account_sound(_lookup): acceptance implies two roots, both pass check_proof, the header "
             "commits to the state hash, the dictionary of the proved state cell maps the address to a ShardAccount whose account cell has as level-0 hash the "
             "REPRESENTATION hash of the supplied state (so a pruned branch or Merkle proof that merely carries the hash is rejected, c11_account_reject_pruned; an "
             "address the lookup does not find is rejected, c11_account_reject_absent); c11_account_sound_state + c11_header_binds_state (END TO END, same local "
             "no-collision hypothesis): for EVERY genuine block tree with the given root hash its state_update cell stores the state hash sh the check goes on "
             "with, and for EVERY genuine state tree T with level-0 hash sh, T's own ShardAccounts dictionary maps the address to a ShardAccount whose account "
             "cell has level-0 hash = hash of the supplied state (the walk commutes with object<->tree and with Agree on ordinary cells, "
             "Proofs/LocateBind.lean). Completeness of the account check: c11_locate_complete (the walk returns the account cell on every ordinary "
             "shard_state cell whose ShardAccounts root is a spec-valid HashmapAug 256 with ANY label constructors and ANY edges off the path replaced by pruned "
             "branches, extras/leaves of the unpruned part readable, ^[...] group and custom pruned or readable) and c11_account_complete_honest (any prunings of "
             "block and state that keep the header commitment and the walk: both proof cells can be built and check_account_proof returns, whether the "
             "account cell is in the proof in full or pruned -- pruning invariance along the walk). Tie: differential correspondence library = model on generated "
             "trees, random prunings, exhaustive single-bit flips of small proofs, sampled flips of larger ones, ref drops/swaps/substitutions, wrong hashes, "
             "non-proof cells, truncated proof roots, exotic twins, wrong root counts, synthetic ShardStateUnsplit states with 1..50 accounts (all HmLabel forms incl. "
             "zero-width lengths), forged states, accounts cells without or with a cut HashmapAugE extra, and a stream that drives every branch of the TL-B walk "
             "(defective leaves / extras / extra-currency dictionaries / ref group / custom / tags, each once pruned away = must accept and once left in = must "
             "reject); every verdict is also compared with the expectation known by construction, and the cell the library's walk returns with an "
             "independent Python transcription of the hashmap.tlb lookup. "
             "In addition every `if ...: raise ProofError` test of check_proof, check_block_header_proof, check_account_proof (and the simple ones of "
             "check_shard_proof) and the CellTypes constants are re-translated from the source on every run (Generated/ProofChecks.lean; bytes "
             "slices, concatenation and to_bytes included) and proved, for ALL values, to be the model's tests (c11_src_proof_tests, "
             "c11_src_header_tests, c11_src_account_tests, c11_src_cell_types); the hand model's check_proof / check_block_header_proof / "
             "check_account_proof are proved to be exactly the composition of these source tests in the order of the code (c11_src_check_proof, "
             "c11_src_header, c11_src_account; first decisions of check_shard_proof: c11_src_shard). "
             "Beyond the single tests, the WHOLE functions check_proof, check_block_header_proof (both modes) and check_account_proof are re-translated from "
             "the source on every run (Generated/ProofFull.lean, translator pyfunc.py: every statement in order, with Python's evaluation order of the raising "
             "sub-expressions cell[0] / get_hash / get_depth / to_bytes and of the operands of `or`) and Lean proves for ALL constructed cells, hashes and root lists "
             "that they equal the hand model (c11_src_fn_check_proof: same raise decision, same returned state hash; c11_src_fn_account: for all values of the "
             "declared externals Cell.from_boc / ShardStateUnsplit.deserialize / .accounts[0][key] / .cell that compose to the model's TL-B walk); "
             "c11_src_complete, c11_src_sound_shape, c11_src_sound, c11_src_header_state_sound, c11_src_account_sound restate completeness and soundness for "
             "the regenerated functions themselves. "
             "check_shard_proof is regenerated AS A WHOLE FUNCTION too (pyfunc.py extended by `return` inside a loop = Py.loop?, a fold that stops at the "
             "first return, and value-or-None results): early return for equal block ids, masterchain test, Cell.from_boc, the header comparison, both "
             "check_proofs and the state-hash commitment in source order, the ShardHashes lookup and the loop over the descriptor's leaves with its "
             "return inside - proved equal (c11_src_shard_full) to the hand model checkShardProof whose two Boolean parameters are now read from the "
             "source (shardBlockInfoOk, findShardDescr), for ALL values of the declared externals; c11_src_shard_sound reads off what an accepted shard "
             "proof guarantees. The second calling mode check_account_proof(..., return_account_descr=True) is regenerated as its own definition and "
             "proved to return exactly when the plain mode returns, after ALL the same comparisons in the same order, the value being the ShardAccount "
             "found under the address (c11_src_account_descr_mode). The objects the checks work on are built by the REGENERATED constructor "
             "(Generated/CellCtor.lean = Cell.__init__ of cell.py, proved equal to Model.construct in Proofs/SrcCellCtor.lean; srcPCell / srcPCell_eq): "
             "c11_src_binding (two trees to which the regenerated constructor assigns the same level-l hash Agree), c11_src_sound (object built by the "
             "regenerated constructor + regenerated check_proof => the proof body agrees with every tree of that hash) and c11_src_complete_ctor state "
             "binding, soundness and completeness end to end over regenerated definitions. The TL-B walk of check_account_proof "
             "(ShardStateUnsplit.deserialize(..).accounts[0][addr].cell[0]) is evaluated on the REGENERATED parser classes of tlb/account.py / tlb/block.py "
             "(Generated/LocateSrc.lean: ShardStateUnsplit, ShardAccounts, ShardAccount with its cell= argument kept; DepthBalanceInfo, Account, McStateExtra, "
             "ShardIdent, CurrencyCollection ... from the C16 parser files) as Model.srcLocate; the two Boolean parameters of the hand walk become the regenerated "
             "Account / McStateExtra parsers (srcOpaque). c11_src_walk_partial proves srcLocate = locateAccount srcOpaque on every cell that is not an ordinary "
             "shard_state cell; the full equation (all cells) is a closed statement that every run DECIDES by evaluation on every synthetic shard state of the walk "
             "stream together with the library's result (driver op srcloc); c11_src_account_sound_full_partial / c11_src_account_complete_full_partial restate account "
             "soundness / completeness over the regenerated walk under that closed statement. Steps of the all-cells proof that ARE proved for all inputs: "
             "c11_src_label_reader (the HmLabel reader of the parser files = the C10 source-tied deserializeHml on every bit string), c11_src_aug_walk (Rd.augWalk = "
             "parseAugP on every constructed cell, pruned branches anywhere, for agreeing leaf / extra readers), c11_src_shard_account_reader (regenerated "
             "ShardAccount.deserialize = readShardAccount at the regenerated Account parser, same .cell[0]), c11_src_dict_walk (Rd.dictWalk vs the C10 parseEdge), "
             "c11_src_currency_readers (regenerated CurrencyCollection / DepthBalanceInfo / raw load_dict = the hand readers on every slice), "
             "c11_src_accounts_lookup (regenerated ShardAccounts.deserialize(..)[0][key].cell[0] = loadShardAccounts + dictGet on every accounts cell and key); "
             "c11_src_state_group (the ^[...] group of the regenerated ShardStateUnsplit = stateRefGroup on every cell); "
             "open: the composition over the 361 header bits and the reference list of ShardStateUnsplit.",
        level_note='Trusted: Lean kernel; Spec/Cell.lean; the translator harness/translate/pyfunc.py (+ pyobj.py, pybytes.py, pyarith.py) and the declared reading of a '
                   'Cell object in harness/translate/prooffull.py (Cell = PCell, cell[i] = refs[i], get_hash / get_depth = CellInfo.getHash / getDepth, .data / .hash '
                   'property bodies checked against cell.py), validated against the running library whenever source or translator change; Model/Proof.lean '
                   'checkProof / checkBlockHeaderProof(State) / checkAccountProof are no longer trusted as transcriptions (proved equal to the regenerated '
                   'functions); check_shard_proof is regenerated as well (declared reading: a BlockIdExt = its five attributes, `==` = equality of these - '
                   'checked against BlockIdExt.__eq__; Block.deserialize(..).info, ShardStateUnsplit.deserialize, .custom.shard_hashes, .get, .list, .root_hash are '
                   'parameters; validated by running the real function on constructed proof pairs with these calls stubbed); the cell constructor is the '
                   'regenerated one (cellctor.py, design/translators-cell.md); the TL-B walk (Model/Locate.lean) stays a hand model for the all-input theorems, '
                   'tied to the regenerated parser classes (harness/translate/locsrc.py + tlbparsers*.py, reader primitives Model/TlbRd*.lean) by c11_src_walk_partial '
                   'and by evaluation of the closed equation on every generated shard state (design/C11.md, Session 5 - locsrc); '
                   'Model/Cell.lean, Model/Locate.lean as hand transcriptions (sampled correspondence; the '
                   'raise-tests of check_proof.py themselves are regenerated from the source and proved for all values, trusting the translator '
                   'harness/translate/pyarith.py and its reading of bytes operations in lean/TonVerif/PyBytes.lean + PyBytes2.lean; what the operands '
                   'cell[0].get_hash(0), cell.data, ... evaluate to remains with the hand model); '
                   'BoC decoding (roots = result of Cell.from_boc) is abstracted; of the TL-B walk to the account cell TWO sub-parsers remain Boolean parameters '
                   '(structure Opaque: Account.deserialize on an account$1 cell, McStateExtra.deserialize on an ordinary cell) -- every account theorem is quantified '
                   'over all their values, completeness needs them to return where such a cell is left unpruned; in the correspondence their verdicts are taken from '
                   'the library per case; check_shard_proof has no driver correspondence (its tie is the regenerated function + the stubbed validation); SHA-256 is a parameter, soundness '
                   'assumes no collision among the representations at hand.',
        technique='Lean 4 proof about functions regenerated from the source on every run (proved equal to the hand model for all inputs) '
                  '+ differential correspondence with the library',
    ),
    translators=[('check_proof.py raise-tests, exotic.py CellTypes->Generated/ProofChecks.lean', arith2.regenerator('ProofChecks')),
                 ('check_proof.py check_proof / check_block_header_proof / check_account_proof (both modes) / check_shard_proof (whole functions)->Generated/ProofFull.lean', prooffull.regenerate),
                 ('exotic.py LevelMask->Generated/LevelMask.lean', arith.regenerator('LevelMask')),
                 ('cell.py d1/d2/pruned offsets->Generated/CellArith.lean', arith.regenerator('CellArith')),
                 ('cell.py Cell.__init__/resolve_mask/calculate_hashes/get_hash/get_depth->Generated/CellCtor.lean', cellctor.regenerate),
                 ('tlb/*.py parser classes under the TL-B walk (ShardIdent, CurrencyCollection, DepthBalanceInfo, Account, McStateExtra ...)->Generated/TlbParsers{,Tx,Blk}.lean', locsrc.regenerate_deps),
                 ('tlb/account.py ShardAccount (cell= kept), tlb/block.py ShardAccounts, ShardStateUnsplit->Generated/LocateSrc.lean', locsrc.regenerate)],
    design_ref='DESIGN.md §6 C11',
    rule='trees (ordinary DAGs, exotic trees with library cells and inner Merkle proofs/updates, block-like shapes), random pruning sets at Merkle '
         'depth 1, proof = MPROOF cell over the pruned tree; positive stream must be accepted by check_proof/check_block_header_proof; negative '
         'stream = every single-bit flip of every cell of small proofs, sampled bit/byte flips of larger ones, ref drop/duplicate/swap/substitute, '
         'wrong expected hashes, non-proof wrappers, truncated roots, exotic twins; account stream = synthetic ShardStateUnsplit with 1..50 accounts, state and header pruned off '
         'the account path, forged account states (pruned branch / Merkle proof carrying the hash), wrong roots, accounts cell without / with a cut HashmapAugE extra (parser must raise); '
         'walk stream = states with one defect per parser branch (leaf value short / no account ref / empty account cell, fork extra cut, extra-currency value cut, '
         'ref group short / Grams cut / master_ref short / dict bit without ref, custom junk / missing / no bit, wrong tags), each pruned away (accept) and left in (reject), '
         'spec-encoded Account / McStateExtra cells from the C16 codecs. distinct = distinct (dag, op, '
         'hash); shard stream = check_shard_proof (the real function, TL-B deserialisers stubbed) on honest and broken proof pairs x every stub behaviour; '
         'non-trivial = proof with at least one pruned branch or a negative case',
    trusted_base=['harness/translate/pyfunc.py + prooffull.py: check_proof / check_block_header_proof / check_account_proof regenerated as Lean functions (declared reading of '
                  'Cell objects; Cell.from_boc and the TL-B deserialiser calls are parameters); Model/Proof.lean is proved equal to them (after fix commits 56bdc07, 3b51ac3, 83e0e94, 67bd38d); '
                  'check_shard_proof and check_account_proof(.., return_account_descr=True) are regenerated too (c11_src_shard_full, c11_src_account_descr_mode); the TL-B deserialisers they call are parameters',
                  'harness/translate/pyobj.py + cellctor.py: Cell.__init__ regenerated (Generated/CellCtor.lean) and proved equal to Model.construct (c11_src_binding / c11_src_sound are stated over it)',
                  'harness/translate/locsrc.py (+ tlbparsers.py, tlbparsers_tx.py, tlbparsers_blk.py) and the reader primitives Model/TlbRd.lean, TlbRdTx.lean, TlbRdBlk.lean '
                  '(hand meaning of the Slice methods incl. load_dict / load_hashmap_aug_e walks) for Model.srcLocate; Model/LocateSrc.lean: the Python glue (.accounts, [0], dict[int], .cell[0])',
                  'Model/Locate.lean mirrors ShardStateUnsplit.deserialize / load_hashmap_aug_e / parse_aug / DepthBalanceInfo / ShardAccount by hand (after f2933e1, 602ccc8); '
                  'Account.deserialize (account$1) and McStateExtra.deserialize (ordinary cell) are Boolean parameters whose verdicts the harness takes from the library',
                  'BoC decoding (Cell.from_boc) is abstracted: roots list',
                  'Spec/Cell.lean transcribes the TON level-mask / per-level hash rules; Model/Locate.lean lookupShardAccount transcribes the hashmap.tlb lookup and the block.tlb layout of ShardStateUnsplit / ShardAccounts / DepthBalanceInfo / ShardAccount',
                  'SHA-256 abstract in theorems',
                  'harness/translate/pyarith.py + arith.py/arith2.py and lean/TonVerif/PyBytes.lean + PyBytes2.lean (Python comparisons / bytes slices -> Lean) for the c11_src_* theorems'],
    assumptions=['hashlib.sha256 is SHA-256', 'soundness theorems assume no SHA-256 collision among the cell representations of the two trees compared',
                 'correspondence is sampled'],
)


# ----------------------------------------------------------------------------- helpers

def hx(b):
    return b.hex() if b else '-'


def dag_str(nodes):
    return G.dag_line(nodes)[len('celldag '):]


def lib_verdict_proof(cell, h):
    from pytoniq_core.proof.check_proof import check_proof
    if cell is None:
        return 'rej'
    try:
        check_proof(cell, h)
        return 'acc'
    except Exception:
        return 'rej'


def lib_verdict_hdr(cell, h):
    from pytoniq_core.proof.check_proof import check_block_header_proof
    if cell is None:
        return 'rej'
    try:
        check_block_header_proof(cell, h, False)
    except Exception:
        return 'rej'
    try:
        r = check_block_header_proof(cell, h, True)
        return 'acc ' + hx(r)
    except Exception:
        return 'acc x'


def jnodes(nodes):
    return [[k, b, list(r)] for k, b, r in nodes]


def unj(nodes):
    return [(k, b, tuple(r)) for k, b, r in nodes]


def run_proof_case(ctx, nodes, idx, h, expect, key, what, mut=None, hdr_idx=None, hdr_expect=None, nontrivial=True):
    """check_proof(cell idx, h) [+ header check on cell hdr_idx]: library vs expectation vs model."""
    libs = G.lib_build(nodes)
    got = lib_verdict_proof(libs[idx], h)
    ctx.case(('proof', key, tuple(nodes), idx, h), nontrivial=nontrivial,
             sample={'op': 'check_proof', 'cells': len(nodes), 'key': key, 'verdict': got})
    ctx.count(f'{key}:{got}')
    inp = {'op': 'proof', 'dag': jnodes(nodes), 'idx': idx, 'hash': h.hex(), 'expect': expect, 'key': key, 'what': what,
           'mutation': mut, 'hdr_idx': hdr_idx, 'hdr_expect': hdr_expect}
    if expect is not None and got != expect:
        ctx.fail(key, f'check_proof: {what}', inp, got, expect)
    ds = dag_str(nodes)
    ctx.expect_model(f'chkproof {ds} {idx} {hx(h)}', got, key)
    if hdr_idx is not None:
        goth = lib_verdict_hdr(libs[hdr_idx], h)
        ctx.count(f'{key}:hdr:{goth.split()[0]}')
        if hdr_expect is not None:
            ok = (goth == hdr_expect) if ' ' in hdr_expect or hdr_expect == 'rej' else (goth.split()[0] == hdr_expect)
            if not ok:
                ctx.fail(key.split(':')[0] + ':header', f'check_block_header_proof: {what}', inp, goth, hdr_expect)
        ctx.expect_model(f'chkhdr {ds} {hdr_idx} {hx(h)}', goth, key + ' header')
    return got


# ----------------------------------------------------------------------------- tree / proof generation

def prune_keep(rng, nodes, infos, root, keep=(), level=1, p=0.3):
    """like G.prune_random but never prunes the nodes in `keep` (original indices); returns (db, new root, pruned, map orig->new)."""
    db = G.DagBuilder()
    memo = {}
    pruned = set()

    def go(i, pd, is_root):
        if (i, pd) in memo:
            return memo[(i, pd)]
        kind, bits, refs = nodes[i]
        inf = infos[i]
        can = (not is_root) and i not in keep and inf is not None and inf.valid and kind != G.PRUNED and 1 <= pd <= 3
        if can and rng.random() < p:
            k, b, r = G.make_pruned_of(inf, pd)
            j = db.add(k, b, r)
            pruned.add(i)
        else:
            cpd = pd + 1 if kind in (G.MPROOF, G.MUPDATE) else pd
            kids = [go(c, cpd, False) for c in refs]
            j = db.add(kind, bits, kids)
        memo[(i, pd)] = j
        return j

    r = go(root, level, True)
    return db, r, pruned, {i: j for (i, pd), j in memo.items()}


def gen_blocklike(rng, db):
    """root with 3..4 refs whose third child has >= 2 refs (the store_state_hash path root[2][1])."""
    def sub(sz):
        return G.gen_exotic_tree(rng, db, 0, sz)
    a, b = sub(rng.randrange(1, 4)), sub(rng.randrange(1, 4))
    c0, c1 = sub(rng.randrange(1, 3)), sub(rng.randrange(1, 4))
    shape = rng.randrange(3)
    if shape <= 1 and db.ok(c0) and db.ok(c1):
        # a Merkle update whose sides are pruned branches (as in real blocks)
        p0 = db.add(*G.make_pruned_of(db.infos[c0], 1))
        p1 = db.add(*G.make_pruned_of(db.infos[c1], 1))
        x = db.add(G.MUPDATE, G.mupdate_bits(db.infos[p0], db.infos[p1]), (p0, p1))
    else:
        kids = [c0, c1] + ([sub(1)] if rng.random() < 0.3 else [])
        x = db.add(G.ORD, G.rand_bits(rng, G.rand_len(rng)), kids)
    refs = [a, b, x] + ([sub(2)] if rng.random() < 0.4 else [])
    return db.add(G.ORD, G.rand_bits(rng, G.rand_len(rng)), refs)


def gen_tree(rng):
    """-> (nodes, infos, root) of a spec-valid level-0 tree, or None."""
    db = G.DagBuilder()
    r = rng.random()
    if r < 0.3:
        root = gen_blocklike(rng, db)
    elif r < 0.55:
        for n in G.gen_ordinary_dag(rng, rng.randrange(1, 25), deep=rng.random() < 0.3):
            db.add(*n)
        root = len(db.nodes) - 1
    else:
        root = G.gen_exotic_tree(rng, db, 0, rng.randrange(1, 16))
    if not db.ok(root) or db.infos[root].mask != 0:
        return None
    return db.nodes[:root + 1], db.infos[:root + 1], root


def make_proof(rng, nodes, infos, root, mode=None):
    """-> (proof nodes, index of proof root R, index of the pruned tree's root, number of pruned)."""
    mode = mode or rng.choice(['random', 'random', 'random', 'none', 'all'])
    p = {'random': rng.choice([0.15, 0.3, 0.6]), 'none': 0.0, 'all': 1.0}[mode]
    pdb, proot, pruned, _ = prune_keep(rng, nodes, infos, root, (), 1, p)
    if not pdb.ok(proot):
        return None
    R = pdb.add(G.MPROOF, G.mproof_bits(pdb.infos[proot]), (proot,))
    return pdb.nodes[:R + 1], R, proot, len(pruned)


def state_hash_expect(nodes, infos, root, pn, proot):
    """what check_block_header_proof(root, h, True) must give on the pruned tree: hash of root[2][1] of the ORIGINAL tree."""
    def child(ns, i, k):
        kind, _, refs = ns[i]
        return refs[k] if k < len(refs) else None
    o2 = child(nodes, root, 2)
    p2 = child(pn, proot, 2)
    if o2 is None or p2 is None:
        return 'acc x'
    o21 = child(nodes, o2, 1)
    p21 = child(pn, p2, 1)
    if p21 is None or pn[p2][0] != G.MUPDATE:          # root[2] pruned, has < 2 refs, or is not a Merkle update cell
        return 'acc x'
    return 'acc ' + hx(infos[o21].H[0])


# ----------------------------------------------------------------------------- streams A/B: generic + header

def flip_bit(bits, i):
    return bits[:i] + ('1' if bits[i] == '0' else '0') + bits[i + 1:]


def classify_flip(pn, R, j, b):
    """expectation for flipping data bit b of node j of proof pn (root R): 'rej' or None (gray)."""
    kind, bits, _ = pn[j]
    if j == R:
        return 'rej', 'sound:rootcell'
    if kind == G.PRUNED:
        if len(bits) == 288 and bits[8:16] == '00000001' and b >= 16:
            return 'rej', 'sound:prunedhash'
        return None, 'gray:pruned'
    return 'rej', 'sound:bitflip'


def mutate_bits(ctx, rng, pn, R, proot, h, exhaustive, budget):
    positions = [(j, b) for j in range(len(pn)) for b in range(len(pn[j][1]))]
    if not exhaustive:
        # one random bit in (a sample of) every byte position, plus whole-byte inversions
        by_byte = {}
        for j, b in positions:
            by_byte.setdefault((j, b // 8), []).append(b)
        chosen = [(j, rng.choice(bs)) for (j, _), bs in by_byte.items()]
        rng.shuffle(chosen)
        positions = chosen[:budget]
    for j, b in positions:
        kind, bits, refs = pn[j]
        mut = list(pn)
        mut[j] = (kind, flip_bit(bits, b), refs)
        expect, key = classify_flip(pn, R, j, b)
        run_proof_case(ctx, mut, R, h, expect, key, f'single-bit flip (node {j} kind {kind} bit {b}) accepted',
                       mut={'node': j, 'bit': b}, hdr_idx=proot if j != R else None,
                       hdr_expect='rej' if (expect == 'rej' and j != R) else None)
        # variant 2: rebuild the proof root over the mutated child
        if j != R and expect == 'rej' and (exhaustive is False or b % 7 == 0):
            inf2 = G.spec_dag(mut[:R])
            if inf2[proot] is not None and inf2[proot].valid:
                mut2 = mut[:R] + [(G.MPROOF, G.mproof_bits(inf2[proot]), (proot,))]
                run_proof_case(ctx, mut2, R, h, 'rej', 'sound:rebuilt', f'flip in node {j} bit {b} with rebuilt proof root accepted against the original hash',
                               mut={'node': j, 'bit': b, 'rebuilt': True})
    if not exhaustive:
        bytepos = [(j, q) for j in range(len(pn)) for q in range(len(pn[j][1]) // 8)]
        rng.shuffle(bytepos)
        for j, q in bytepos[:max(4, budget // 3)]:
            kind, bits, refs = pn[j]
            nb = bits[:8 * q] + ''.join('1' if c == '0' else '0' for c in bits[8 * q:8 * q + 8]) + bits[8 * q + 8:]
            mut = list(pn)
            mut[j] = (kind, nb, refs)
            expect, key = classify_flip(pn, R, j, 8 * q + 7)
            if kind == G.PRUNED and q < 2:
                expect, key = None, 'gray:pruned'
            run_proof_case(ctx, mut, R, h, expect, key.replace('bitflip', 'byteflip'), f'byte inversion (node {j} byte {q}) accepted',
                           mut={'node': j, 'byte': q})


def mutate_refs(ctx, rng, pn, pinfos, R, proot, h, budget):
    cands = [j for j in range(R) if pn[j][0] != G.PRUNED and pn[j][2]]
    rng.shuffle(cands)
    done = 0
    for j in cands:
        if done >= budget:
            break
        kind, bits, refs = pn[j]
        muts = [('drop', refs[:k] + refs[k + 1:]) for k in range(len(refs))]
        if len(refs) < 4:
            muts.append(('dup', refs + (refs[0],)))
        for a in range(len(refs)):
            for b in range(a + 1, len(refs)):
                if pinfos[refs[a]].H[0] != pinfos[refs[b]].H[0]:
                    r2 = list(refs)
                    r2[a], r2[b] = r2[b], r2[a]
                    muts.append(('swap', tuple(r2)))
        others = [x for x in range(j) if pinfos[x] is not None and pinfos[x].valid and pinfos[x].H[0] != pinfos[refs[0]].H[0]]
        if others:
            muts.append(('subst', (rng.choice(others),) + refs[1:]))
        rng.shuffle(muts)
        for name, nr in muts[:3]:
            mut = list(pn)
            mut[j] = (kind, bits, tuple(nr))
            run_proof_case(ctx, mut, R, h, 'rej', 'sound:refs', f'{name} refs of unpruned node {j} accepted', mut={'node': j, 'refs': list(nr), 'how': name},
                           hdr_idx=proot, hdr_expect='rej')
            done += 1
    # the proof root itself: extra ref, no ref
    kind, bits, refs = pn[R]
    for nr in [refs + refs, refs + (0,)]:
        mut = list(pn)
        mut[R] = (kind, bits, tuple(nr))
        run_proof_case(ctx, mut, R, h, 'rej', 'sound:rootcell', 'proof cell with two references accepted', mut={'node': R, 'refs': list(nr)})


def wrong_hashes(ctx, rng, pn, pinfos, R, proot, h):
    hs = [bytes([h[0] ^ 1]) + h[1:], h[:-1] + bytes([h[-1] ^ 0x80]), rng.randbytes(32), h[:31], h + b'\0', b'', bytes(32)]
    kid_hashes = [pinfos[c].H[0] for c in pn[proot][2] if pinfos[c] is not None and pinfos[c].valid and pinfos[c].H[0] != h]
    hs += kid_hashes[:2]
    own = G.lib_build(pn)[R]
    if own is not None and own.hash != h:
        hs.append(own.hash)                      # the proof cell's own hash
    for h2 in hs:
        if h2 == h:
            continue
        run_proof_case(ctx, pn, R, h2, 'rej', 'sound:wronghash', 'proof accepted against a different expected hash',
                       mut={'hash': h2.hex()}, hdr_idx=proot, hdr_expect='rej')


def not_a_proof(ctx, rng, pn, pinfos, R, proot, h):
    kind, bits, refs = pn[R]
    inf = pinfos[proot]
    variants = [
        ('ordinary wrapper', (G.ORD, bits, refs)),
        ('library kind', (G.LIB, bits[:264], ())),
        ('library kind with ref', (G.LIB, bits, refs)),
        ('merkle update kind', (G.MUPDATE, G.mupdate_bits(inf, inf), (proot, proot))),
        ('merkle update kind, proof data', (G.MUPDATE, bits, (proot, proot))),
        ('pruned branch carrying h', G.make_pruned_of(inf, 1)),
        ('proof cell 272 bits', (G.MPROOF, bits[:272], refs)),
        ('proof cell 288 bits', (G.MPROOF, bits + '0' * 8, refs)),
        ('proof cell 281 bits', (G.MPROOF, bits + '1', refs)),
        ('unknown kind 5', (5, bits, refs)),
    ]
    # shorter proof cells whose completion-tag padding reproduces the cut bits: the serialised data bytes (and d2's byte count)
    # are those of the genuine 280-bit cell, only the bit length differs
    for k in range(1, 8):
        if bits[280 - k:] == '1' + '0' * (k - 1):
            variants.append((f'proof cell {280 - k} bits, same padded data', (G.MPROOF, bits[:280 - k], refs)))
        else:
            variants.append((f'proof cell {280 - k} bits', (G.MPROOF, bits[:280 - k], refs)))
    for name, node in variants:
        mut = list(pn)
        mut[R] = node
        key = 'sound:rootcell' if node[0] == G.MPROOF else 'sound:notproof'
        run_proof_case(ctx, mut, R, h, 'rej', key, f'{name} accepted as Merkle proof', mut={'variant': name})
    # an ORDINARY cell with the proof cell's exact bits and reference exists in the process before / after the genuine proof
    # cell is built: the ordinary one is never a proof, the genuine one always is
    if R == len(pn) - 1:
        twin = (G.ORD, bits, refs)
        run_proof_case(ctx, pn[:R] + [twin, pn[R]], R + 1, h, 'acc', 'complete:after-twin', 'genuine proof rejected after an ordinary cell with the same bits/refs was built')
        run_proof_case(ctx, pn[:R] + [twin, pn[R]], R, h, 'rej', 'sound:notproof', 'ordinary twin of the proof cell accepted as Merkle proof', mut={'variant': 'twin-first'})
        run_proof_case(ctx, pn + [twin], R + 1, h, 'rej', 'sound:notproof', 'ordinary twin built after the proof cell accepted as Merkle proof', mut={'variant': 'twin-after'})
    # the pruned tree's root itself handed in as the proof
    run_proof_case(ctx, pn, proot, h, 'rej', 'sound:notproof', 'the proof body (not wrapped) accepted as Merkle proof', mut={'variant': 'body'})


def forged_pruned(info_pruned, forged_hash, forged_depth=0):
    """the level-2 pruned branch that keeps the level-1 hash/depth of the mask-1 pruned branch `info_pruned` (its
    representation hash, depth 0) but stores a FORGED level-0 hash: every enclosing hash stays what it was."""
    return (G.PRUNED, G.pruned_bits(3, [forged_hash, info_pruned.H[1]], [forged_depth, info_pruned.D[1]]), ())


def forged_state_hash(ctx, rng, pn, pinfos, R, proot, h):
    """root[2] is a Merkle update whose second child is a mask-1 pruned branch: swap in the forged level-2 branch."""
    refs = pn[proot][2]
    if len(refs) < 3 or pn[refs[2]][0] != G.MUPDATE:
        return
    c = pn[refs[2]][2][1]
    if pn[c][0] != G.PRUNED or pinfos[c] is None or pinfos[c].mask != 1:
        return
    forged = rng.randbytes(32)
    mut = list(pn)
    mut[c] = forged_pruned(pinfos[c], forged, rng.randrange(0, 50))
    libs = G.lib_build(mut)
    ctx.count('forged-statehash')
    goth = lib_verdict_hdr(libs[proot], h)
    inp = {'op': 'hdr', 'dag': jnodes(mut), 'idx': proot, 'hash': h.hex(), 'expect': 'acc x', 'key': 'sound:statehash'}
    ctx.case(('forged-statehash', tuple(mut), h))
    if goth != 'acc x':
        ctx.fail('sound:statehash', 'check_block_header_proof(..., True) returned a state hash that the block hash does not commit to '
                 '(level-2 pruned branch with a forged level-0 hash under the state update)', inp, goth, 'acc x')
    ctx.expect_model(f'chkhdr {dag_str(mut)} {proot} {hx(h)}', goth, 'sound:statehash')
    ctx.expect_model(f'chkproof {dag_str(mut)} {R} {hx(h)}', lib_verdict_proof(libs[R], h), 'gray:forged-statehash')


def kind_flips(ctx, rng, pn, pinfos, R, proot, h, budget):
    """change only the CELL TYPE of an unpruned cell of an accepted proof (bits and references untouched): d1 changes, so the
    hash chain breaks and the proof must be rejected - also right after the honest proof was verified in this process"""
    cand = [j for j in range(R) if pinfos[j] is not None and pinfos[j].valid and pn[j][0] != G.PRUNED]
    rng.shuffle(cand)
    done = 0
    for j in cand:
        kind, bits, refs = pn[j]
        for nk in (G.ORD, G.LIB, G.PRUNED, G.MPROOF, G.MUPDATE):
            if nk == kind or done >= budget:
                continue
            # an exotic cell's type IS its first data byte (that is how a bag of cells carries it): only switches that keep
            # the two consistent describe a TON cell - exotic -> ordinary always, ordinary -> X when the data starts with X's tag
            if nk != G.ORD and (kind != G.ORD or len(bits) < 8 or int(bits[:8], 2) != nk):
                continue
            mut = list(pn)
            mut[j] = (nk, bits, refs)
            run_proof_case(ctx, mut, R, h, 'rej', 'sound:kind', f'cell type of unpruned node {j} changed {kind}->{nk} (same bits/refs) and the proof is accepted',
                           mut={'node': j, 'kind': nk}, hdr_idx=proot, hdr_expect='rej')
            done += 1


def shaped_trees(ctx, rng):
    """honest trees holding ORDINARY cells whose bits have the shape of an exotic cell (library: 02||32 bytes; pruned branch:
    01 01||hash||depth; Merkle proof of their own child) and, conversely, exotic cells: verify the honest proof, then the
    forgery in which just that cell's type is switched (constructible, so only the hash chain can catch it)."""
    for t in range(ctx.n(12, 120)):
        db = G.DagBuilder()
        a = db.add(G.ORD, G.rand_bits(rng, rng.choice([0, 7, 32])))
        libbits = G.bytes_to_bits(bytes([2]) + rng.randbytes(32))
        prbits = G.make_pruned_of(db.infos[a], 1)[1]
        mpbits = G.mproof_bits(db.infos[a])
        shape = t % 4
        if shape == 0:
            c, flip = db.add(G.ORD, libbits), G.LIB
        elif shape == 1:
            c, flip = db.add(G.LIB, libbits), G.ORD
        elif shape == 2:
            c, flip = db.add(G.ORD, prbits), G.PRUNED
        else:
            c, flip = db.add(G.ORD, mpbits, (a,)), G.MPROOF
        inner = db.add(G.ORD, G.rand_bits(rng, 3), (c,))
        root = db.add(G.ORD, G.rand_bits(rng, 16), (a, inner))
        if not db.ok(root) or db.infos[root].mask != 0:
            continue
        h = db.infos[root].H[0]
        R = db.add(G.MPROOF, G.mproof_bits(db.infos[root]), (root,))
        pn = db.nodes[:R + 1]
        run_proof_case(ctx, pn, R, h, 'acc', 'complete:shaped', 'unpruned proof of a tree holding an exotic-shaped cell rejected')
        mut = list(pn)
        mut[c] = (flip, pn[c][1], pn[c][2])
        run_proof_case(ctx, mut, R, h, 'rej', 'sound:kind', f'cell type of node {c} switched to {flip} (same bits/refs) after the honest proof was verified: accepted',
                       mut={'node': c, 'kind': flip})
        run_proof_case(ctx, pn, R, h, 'acc', 'complete:shaped', 'honest proof rejected after the forged one was seen')


def truncated_root(ctx, pn, R, proot, h):
    """the proof root cut to 280-k bits (1 <= k <= 7) where the cut-off tail is 1 0^(k-1): its padded `data` (completion tag!) is byte for
    byte the data of the genuine 280-bit cell, only the bit length tells them apart"""
    kind, bits, refs = pn[R]
    for k in range(1, 8):
        if len(bits) == 280 and bits[280 - k:] == '1' + '0' * (k - 1):
            mut = list(pn)
            mut[R] = (kind, bits[:280 - k], refs)
            ctx.count('rootcell:truncated-to-tag')
            run_proof_case(ctx, mut, R, h, 'rej', 'sound:rootcell', f'proof cell of {280 - k} bits whose padded data equals the genuine cell\'s accepted',
                           mut={'variant': f'truncated {k}'})


def kind_twins(ctx, rng):
    """an unpruned ORDINARY cell whose data looks like an exotic cell's, and the same bits/refs flagged exotic: the two differ only in the
    descriptor byte d1, so every hash above differs. The honest proof is checked first (same process), then the twin."""
    db = G.DagBuilder()
    other = db.add(G.ORD, G.rand_bits(rng, rng.randrange(1, 60)))
    sub = db.add(G.ORD, G.rand_bits(rng, 17))
    which = rng.choice(['lib', 'pruned'])
    if which == 'lib':
        tbits, tkind = G.bytes_to_bits(bytes([2]) + rng.randbytes(32)), G.LIB
    else:
        tbits, tkind = G.pruned_bits(1, [db.infos[sub].H[0]], [db.infos[sub].D[0]]), G.PRUNED
    x = db.add(G.ORD, tbits)
    mid = db.add(G.ORD, G.rand_bits(rng, 9), [x, other])
    root = db.add(G.ORD, G.rand_bits(rng, 33), [mid, other])
    if not db.ok(root):
        return
    h = db.infos[root].H[0]
    pn = list(db.nodes[:root + 1]) + [(G.MPROOF, G.mproof_bits(db.infos[root]), (root,))]
    R = len(pn) - 1
    run_proof_case(ctx, pn, R, h, 'acc', 'complete:check_proof', 'unpruned proof over a tree with an exotic-looking ordinary cell rejected', hdr_idx=root,
                   hdr_expect='acc', nontrivial=False)
    mut = list(pn)
    mut[x] = (tkind, tbits, ())
    ctx.count('kind-twin:' + which)
    run_proof_case(ctx, mut, R, h, 'rej', 'sound:kind', f'unpruned ordinary cell replaced by the {which} cell with the same bits accepted', mut={'node': x, 'kind': tkind},
                   hdr_idx=root, hdr_expect='rej')


def stored_hash_forgery(ctx, rng, pn, pinfos, R, proot, h):
    """the proof arrives as a BAG OF CELLS whose records carry stored hashes/depths (d1 bit 16): one unpruned cell's data is changed
    while every record keeps the hashes of the GENUINE tree - a reader that adopts stored hashes instead of hashing would accept"""
    from pytoniq_core.boc.cell import Cell
    from . import C05
    cand = [j for j in range(R) if pinfos[j] is not None and pinfos[j].valid and pn[j][0] == G.ORD and pn[j][1]]
    if not cand:
        return
    j = rng.choice(cand)
    kind, bits, refs = pn[j]
    mut = list(pn)
    mut[j] = (kind, flip_bit(bits, rng.randrange(len(bits))), refs)
    members = sorted(C05.reachable(mut, [R]), reverse=True)
    if j not in members:
        return
    recs = C05.listing(mut, pinfos, members)            # data of the forgery, stored hashes of the genuine proof
    n = len(recs)
    size = 1 if n < 256 else 2
    tot = sum(len(C05.enc_record(r, size, True)) for r in recs)
    fr = dict(magic='g', size=size, off=max(1, (tot.bit_length() + 7) // 8), idx=False, crc=rng.random() < 0.5, cache=False, store=[True] * n, cflags=[])
    data = C05.py_encode(recs, [0], fr)
    ctx.case(('stored-hash-forgery', data))
    ctx.count('sound:stored-hashes')
    try:
        cell = Cell.one_from_boc(data)
    except Exception:
        return                                          # refusing the bag is fine
    got = lib_verdict_proof(cell, h)
    if got != 'rej':
        ctx.fail('sound:stored-hashes', 'a proof delivered as a bag whose records store the genuine hashes while an unpruned cell\'s data was changed is accepted',
                 {'op': 'proof-boc', 'boc': data.hex(), 'hash': h.hex(), 'changed_node': j, 'dag': jnodes(mut)}, got, 'rej')


def generic_streams(ctx, rng):
    shaped_trees(ctx, rng)
    n_trees = ctx.n(140, 1400)
    exhaustive_left = ctx.n(10, 60)
    for t in range(n_trees):
        g = gen_tree(rng)
        if g is None:
            continue
        nodes, infos, root = g
        h = infos[root].H[0]
        mp = make_proof(rng, nodes, infos, root)
        if mp is None:
            continue
        pn, R, proot, npruned = mp
        pinfos = G.spec_dag(pn)
        ctx.count(f'cells:{min(len(nodes) // 5 * 5, 40)}+')
        ctx.count(f'pruned:{min(npruned, 8)}')
        exotic = any(k in (G.MPROOF, G.MUPDATE, G.LIB) for k, _, _ in nodes)
        ctx.count('tree:exotic' if exotic else 'tree:ordinary')
        # A: completeness
        run_proof_case(ctx, pn, R, h, 'acc', 'complete:check_proof', f'Merkle proof built by pruning {npruned} subtrees rejected',
                       hdr_idx=proot, hdr_expect=state_hash_expect(nodes, infos, root, pn, proot), nontrivial=npruned > 0)
        if state_hash_expect(nodes, infos, root, pn, proot) != 'acc x':
            ctx.count('header:state-hash-path')
        # B: soundness
        total_bits = sum(len(b) for _, b, _ in pn)
        small = len(pn) <= 12 and total_bits <= 1400
        if small and exhaustive_left > 0:
            exhaustive_left -= 1
            ctx.count('flips:exhaustive-proofs')
            mutate_bits(ctx, rng, pn, R, proot, h, True, 0)
        else:
            mutate_bits(ctx, rng, pn, R, proot, h, False, ctx.n(14, 40))
        mutate_refs(ctx, rng, pn, pinfos, R, proot, h, ctx.n(4, 12))
        forged_state_hash(ctx, rng, pn, pinfos, R, proot, h)
        kind_flips(ctx, rng, pn, pinfos, R, proot, h, ctx.n(3, 8))
        stored_hash_forgery(ctx, rng, pn, pinfos, R, proot, h)
        truncated_root(ctx, pn, R, proot, h)
        if t % 7 == 0:
            kind_twins(ctx, rng)
        if t % 3 == 0:
            wrong_hashes(ctx, rng, pn, pinfos, R, proot, h)
        if t % 5 == 0:
            not_a_proof(ctx, rng, pn, pinfos, R, proot, h)


# ----------------------------------------------------------------------------- stream C: account proofs

def ubits(v, n):
    return format(v, f'0{n}b') if n else ''


def enc_label(rng, s, n):
    """HmLabel of the bit string s for at most n bits: one of the valid encodings."""
    l = len(s)
    w = n.bit_length()
    opts = ['short', 'long']
    if l and s in ('0' * l, '1' * l):
        opts += ['same', 'same']
    if w == 0:
        # n = 0: the length field (#<= 0) has zero width and reads as 0 (library fix 602ccc8); hml_same then still has its value bit
        opts = ['short', 'long', 'same0']
    o = rng.choice(opts)
    if o == 'same0':
        return '11' + rng.choice('01')
    if o == 'short':
        return '0' + '1' * l + '0' + s
    if o == 'long':
        return '10' + ubits(l, w) + s
    return '11' + s[0] + ubits(l, w)


def extra_bits(rng, db):
    """DepthBalanceInfo: (bits, refs)"""
    nb = rng.choice([0, 0, 1, 2, 8, 15])
    bits = ubits(rng.randrange(31), 5) + ubits(nb, 4) + ubits(rng.getrandbits(8 * nb) if nb else 0, 8 * nb)
    if rng.random() < 0.2:
        # extra currencies: Hashmap 32 (VarUInteger 32) with one entry
        d = db.add(G.ORD, '10' + ubits(32, 6) + ubits(rng.getrandbits(32), 32) + ubits(1, 5) + ubits(rng.randrange(1, 256), 8))
        return bits + '1', [d]
    return bits + '0', []


def build_aug(rng, db, items, n, path):
    """items: list of (remaining key bits, account node); returns node index; records path nodes: key -> [node indices]."""
    keys = [k for k, _, _ in items]
    lbl = keys[0]
    for k in keys[1:]:
        i = 0
        while i < len(lbl) and lbl[i] == k[i]:
            i += 1
        lbl = lbl[:i]
    bits = enc_label(rng, lbl, n)
    m = n - len(lbl)
    eb, er = extra_bits(rng, db)
    if m == 0:
        assert len(items) == 1
        _, acc, full = items[0]
        node = db.add(G.ORD, bits + eb + ubits(rng.getrandbits(256), 256) + ubits(rng.getrandbits(64), 64), er + [acc])
        path[full].append(node)
        return node
    left = [(k[len(lbl) + 1:], a, f) for k, a, f in items if k[len(lbl)] == '0']
    right = [(k[len(lbl) + 1:], a, f) for k, a, f in items if k[len(lbl)] == '1']
    assert left and right
    l = build_aug(rng, db, left, m - 1, path)
    r = build_aug(rng, db, right, m - 1, path)
    node = db.add(G.ORD, bits + eb, [l, r] + er)
    for _, _, f in items:
        path[f].append(node)
    return node


def gen_account_cell(rng, db):
    kids = [db.add(G.ORD, G.rand_bits(rng, rng.randrange(0, 40))) for _ in range(rng.choice([0, 0, 1, 2, 3]))]
    return db.add(G.ORD, '0' + G.rand_bits(rng, rng.choice([0, 1, 7, 63, 200, 600])), kids)


def gen_keys(rng, n):
    mode = rng.randrange(4)
    keys = set()
    if mode == 0 and n >= 2:
        keys |= {0, 2 ** 256 - 1}
    base = rng.getrandbits(256)
    while len(keys) < n:
        if mode == 1:
            keys.add(base ^ rng.getrandbits(rng.choice([1, 3, 8, 16])))      # long shared prefixes
        elif mode == 2:
            keys.add(base ^ (1 << rng.randrange(256)))
        else:
            keys.add(rng.getrandbits(256))
    return sorted(keys)


def gen_state(rng, db, naccounts, extra_mode='full'):
    """-> (state root node, accounts: key(int) -> account node, path: key -> [dict nodes on the path + accounts cell])
    extra_mode != 'full': the accounts cell's top-level `extra:DepthBalanceInfo` (read by the parser since fix f2933e1) is absent or cut."""
    keys = gen_keys(rng, naccounts)
    accs = {k: gen_account_cell(rng, db) for k in keys}
    path = {k: [] for k in keys}
    droot = build_aug(rng, db, [(ubits(k, 256), accs[k], k) for k in keys], 256, path)
    eb, er = extra_bits(rng, db)       # ahme_root$1 root:^(HashmapAug ...) extra:DepthBalanceInfo
    if extra_mode == 'none':           # nothing after the dictionary root
        eb, er = '', []
    elif extra_mode == 'short':        # fewer than the 9 bits of split_depth + Grams length
        eb, er = eb[:rng.randrange(1, 9)], []
    elif extra_mode == 'grams-cut':    # Grams length says 3 bytes, fewer are there
        eb, er = ubits(rng.randrange(31), 5) + ubits(3, 4) + G.rand_bits(rng, 8 * rng.randrange(0, 3)), []
    elif extra_mode == 'no-maybe':     # the ExtraCurrencyCollection Maybe bit is missing
        eb, er = eb[:-1], []
    elif extra_mode == 'no-ref':       # the Maybe bit announces a dictionary reference that is not there
        eb, er = eb[:-1] + '1', []
    if extra_mode == 'empty':          # ahme_empty$0 extra:Y : the parser returns ({}, [extra]); the lookup of any address is a KeyError
        acell = db.add(G.ORD, '0' + eb, er)
    else:
        acell = db.add(G.ORD, '1' + eb, [droot] + er)
    for k in keys:
        path[k].append(acell)
    omq = G.gen_exotic_tree(rng, db, 0, rng.randrange(1, 5))
    third = db.add(G.ORD, ubits(rng.getrandbits(64), 64) + ubits(rng.getrandbits(64), 64) + '0000' + '0' + '0000' + '0' + '0' + '0')
    bits = (ubits(0x9023afe2, 32) + ubits(rng.getrandbits(32), 32) + '00' + ubits(rng.randrange(61), 6) + ubits(0, 32) + ubits(rng.getrandbits(64), 64)
            + ubits(rng.getrandbits(32), 32) + ubits(0, 32) + ubits(rng.getrandbits(32), 32) + ubits(rng.getrandbits(64), 64) + ubits(rng.getrandbits(32), 32)
            + rng.choice('01') + '0')
    root = db.add(G.ORD, bits, [omq, acell, third])
    return root, accs, path


def gen_header(rng, db, state_info, old_info=None):
    """block-like tree whose root[2][1] is a pruned branch of the state (inside a Merkle update, as in real blocks, or plain).
    old_info: SpecInfo of the OLD state (default: a small random cell)."""
    if old_info is None:
        old = db.add(G.ORD, G.rand_bits(rng, 30))
        old_info = db.infos[old]
    p_old = db.add(*G.make_pruned_of(old_info, 1))
    p_new = db.add(*G.make_pruned_of(state_info, 1))
    x = db.add(G.MUPDATE, G.mupdate_bits(db.infos[p_old], db.infos[p_new]), (p_old, p_new))
    a = G.gen_exotic_tree(rng, db, 0, rng.randrange(1, 5))
    b = G.gen_exotic_tree(rng, db, 0, rng.randrange(1, 5))
    refs = [a, b, x] + ([G.gen_exotic_tree(rng, db, 0, 2)] if rng.random() < 0.5 else [])
    return db.add(G.ORD, ubits(0x11ef55aa, 32) + G.rand_bits(rng, 40), refs), x, p_new


def multi_root_boc(roots):
    """serialise a bag with several roots (the library's to_boc writes one root only)."""
    order, seen = [], set()

    def visit(c):
        if c.hash in seen:
            return
        seen.add(c.hash)
        for r in c.refs:
            visit(r)
        order.append(c)
    import sys
    sys.setrecursionlimit(max(sys.getrecursionlimit(), 5000))
    for r in roots:
        visit(r)
    order.reverse()                     # parents before children
    index = {c.hash: i for i, c in enumerate(order)}
    n = len(order)
    sb = max(1, (n.bit_length() + 7) // 8)
    payload = b''
    for c in order:
        payload += c._descriptors + c._data_bytes + b''.join(index[r.hash].to_bytes(sb, 'big') for r in c.refs)
    ob = max(1, (len(payload).bit_length() + 7) // 8)
    out = b'\xb5\xee\x9c\x72' + bytes([sb]) + bytes([ob]) + n.to_bytes(sb, 'big') + len(roots).to_bytes(sb, 'big') + (0).to_bytes(sb, 'big')
    out += len(payload).to_bytes(ob, 'big') + b''.join(index[r.hash].to_bytes(sb, 'big') for r in roots) + payload
    return out


_OPAQUE_CACHE = {}


def opaque_verdicts(libs, nodes):
    """The two sub-parsers the Lean model keeps abstract (Model/Locate.lean `Opaque`), as observed on the library: representation hashes of the
    cells on which `Account.deserialize` (cells whose first bit is 1) resp. `McStateExtra.deserialize` (ordinary cells in the `custom` position
    of a state-like cell) raise. Cached by cell hash."""
    from pytoniq_core.tlb.account import Account
    from pytoniq_core.tlb.block import McStateExtra
    bad_acc, bad_mc = set(), set()

    def verdict(kind, cell, fn):
        k = (kind, cell.hash)
        if k not in _OPAQUE_CACHE:
            try:
                fn(cell.begin_parse())
                _OPAQUE_CACHE[k] = True
            except Exception:
                _OPAQUE_CACHE[k] = False
        return _OPAQUE_CACHE[k]

    for i, (kind, bits, refs) in enumerate(nodes):
        c = libs[i]
        if c is None:
            continue
        if bits[:1] == '1' and not verdict('a', c, Account.deserialize):
            bad_acc.add(c.hash.hex())
        if kind == G.ORD and len(bits) >= 362 and bits[361] == '1' and len(refs) >= 4:
            cu = libs[refs[3]]
            if cu is not None and cu.type_ == -1 and not verdict('m', cu, McStateExtra.deserialize):
                bad_mc.add(cu.hash.hex())
    return '.'.join(sorted(bad_acc)) or '-', '.'.join(sorted(bad_mc)) or '-'


def run_account_case(ctx, nodes, roots, blk_hash, key, state_idx, expect, fkey, what, check_descr=None):
    from pytoniq_core.proof.check_proof import check_account_proof
    from pytoniq_core.tl.block import BlockIdExt
    from pytoniq_core.boc.address import Address
    libs = G.lib_build(nodes)
    kb = key.to_bytes(32, 'big')
    got = 'rej'
    got_descr = 'rej'
    if all(libs[r] is not None for r in roots) and libs[state_idx] is not None:
        boc = blk = None
        try:
            boc = multi_root_boc([libs[r] for r in roots])
            blk = BlockIdExt(0, -9223372036854775808, 1, blk_hash, bytes(32))
        except Exception:
            pass
        if boc is not None:
            # the two calling modes are judged SEPARATELY: each must reject on its own (return_account_descr=True must
            # not skip any comparison the plain call makes)
            try:
                check_account_proof(boc, blk, Address((0, kb)), libs[state_idx])
                got = 'acc'
            except Exception:
                got = 'rej'
            try:
                d = check_account_proof(boc, blk, Address((0, kb)), libs[state_idx], True)
                got_descr = 'acc'
                if check_descr is not None and d.cell[0].get_hash(0) != check_descr:
                    ctx.fail('complete:account-descr', 'returned account descriptor does not carry the account hash', {'key': fkey}, d.cell[0].get_hash(0), check_descr)
            except Exception:
                got_descr = 'rej'
    ctx.case(('acct', fkey, tuple(nodes), tuple(roots), blk_hash, key, state_idx), sample={'op': 'check_account_proof', 'cells': len(nodes), 'key': fkey, 'verdict': got})
    ctx.count(f'{fkey}:{got}')
    inp = {'op': 'acct', 'dag': jnodes(nodes), 'roots': list(roots), 'blk_hash': blk_hash.hex(), 'addr': kb.hex(), 'state_idx': state_idx,
           'expect': expect, 'key': fkey, 'what': what}
    if expect is not None and got != expect:
        ctx.fail(fkey, f'check_account_proof: {what}', inp, got, expect)
    if expect is not None and got_descr != expect:
        ctx.fail(fkey + '/descr', f'check_account_proof(..., return_account_descr=True): {what}', dict(inp, return_account_descr=True), got_descr, expect)
    elif got_descr != got:
        ctx.corr_broken(f'check_account_proof verdict depends on return_account_descr ({got} vs {got_descr}) on {fkey}')
    bad_acc, bad_mc = opaque_verdicts(libs, nodes)
    if bad_acc != '-' or bad_mc != '-':
        ctx.count('opaque:library-verdict-used')
    line = f'chkacct {dag_str(nodes)} {".".join(map(str, roots))} {hx(blk_hash)} {kb.hex()} {state_idx} {bad_acc} {bad_mc}'
    ctx.expect_model(line, got, fkey)
    rec = getattr(ctx, 'record_acct', None)
    if rec is not None:            # translator validation (prooffull.Recorder): the descriptor-mode verdict and the case itself
        rec(line, got_descr, fkey, nodes, roots, blk_hash)
    return got


def append_dag(dst, src_nodes):
    off = len(dst)
    for k, b, r in src_nodes:
        dst.append((k, b, tuple(x + off for x in r)))
    return off


def account_stream(ctx, rng):
    for t in range(ctx.n(36, 300)):
        nacc = rng.choice([1, 1, 2, 3, 5, 8, 13, 21, 34, 50]) if t >= 4 else [1, 2, 50, 7][t]
        db = G.DagBuilder()
        sroot, accs, path = gen_state(rng, db, nacc)
        if not db.ok(sroot):
            ctx.corr_broken(f'harness: generated shard state not spec-valid ({db.infos[sroot].why if db.infos[sroot] else "child"})')
            continue
        ctx.count(f'accounts:{nacc}')
        s_nodes, s_infos = db.nodes[:sroot + 1], db.infos[:sroot + 1]
        sinfo = s_infos[sroot]
        hdb = G.DagBuilder()
        hroot, hx_node, hp_new = gen_header(rng, hdb, sinfo)
        if not hdb.ok(hroot) or hdb.infos[hroot].mask != 0:
            continue
        h_nodes, h_infos = hdb.nodes[:hroot + 1], hdb.infos[:hroot + 1]
        blk_hash = h_infos[hroot].H[0]
        key = rng.choice(sorted(accs))
        acc_node = accs[key]
        acc_info = s_infos[acc_node]
        keep = set(path[key]) | {sroot}

        def build(state_keep=keep, prune_p=0.5, hdr_keep=(hroot, hx_node, hp_new), state_nodes=s_nodes, state_infos=s_infos, state_root=sroot,
                  hdr_wrap=G.MPROOF, st_wrap=G.MPROOF):
            """-> (dag nodes, [r0, r1], index of the real account cell, map)"""
            dag = []
            hp, hr, _, _ = prune_keep(rng, h_nodes, h_infos, hroot, set(hdr_keep), 1, 0.4)
            o = append_dag(dag, hp.nodes[:hr + 1])
            dag.append((hdr_wrap, G.mproof_bits(hp.infos[hr]), (o + hr,)))
            r0 = len(dag) - 1
            sp, sr, _, smap = prune_keep(rng, state_nodes, state_infos, state_root, set(state_keep), 1, prune_p)
            o = append_dag(dag, sp.nodes[:sr + 1])
            dag.append((st_wrap, G.mproof_bits(sp.infos[sr]), (o + sr,)))
            r1 = len(dag) - 1
            o2 = append_dag(dag, state_nodes[:acc_node + 1])          # the real account cell (and whatever precedes it)
            return dag, [r0, r1], o2 + acc_node, (o, smap)

        # positive
        dag, roots, sidx, _ = build()
        run_account_case(ctx, dag, roots, blk_hash, key, sidx, 'acc', 'complete:account', f'account proof over {nacc} accounts rejected', check_descr=acc_info.H[0])
        dag2, roots2, sidx2, _ = build(prune_p=1.0)
        run_account_case(ctx, dag2, roots2, blk_hash, key, sidx2, 'acc', 'complete:account', 'maximally pruned account proof rejected', check_descr=acc_info.H[0])
        # forged account states
        forged = list(dag)
        forged.append(G.make_pruned_of(acc_info, 1))
        pi = len(forged) - 1
        run_account_case(ctx, forged, roots, blk_hash, key, pi, 'rej', 'account:forged-pruned', 'pruned branch carrying the committed hash accepted as account state')
        finfos = G.spec_dag(forged)
        forged2 = forged + [(G.MPROOF, G.mproof_bits(finfos[pi]), (pi,))]
        run_account_case(ctx, forged2, roots, blk_hash, key, len(forged2) - 1, 'rej', 'account:forged-merkle', 'Merkle proof wrapping a pruned branch accepted as account state')
        forged3 = list(dag) + [(G.MPROOF, G.mproof_bits(acc_info), (sidx,))]
        run_account_case(ctx, forged3, roots, blk_hash, key, len(forged3) - 1, 'rej', 'account:forged-merkle', 'Merkle proof wrapping the account cell accepted as account state')
        # a different cell as state
        k_, b_, r_ = dag[sidx]
        other = list(dag) + [(k_, flip_bit(b_, rng.randrange(len(b_))), r_)]
        run_account_case(ctx, other, roots, blk_hash, key, len(other) - 1, 'rej', 'account:wrongstate', 'account state with one bit flipped accepted')
        if nacc > 1:
            k2 = rng.choice([k for k in accs if k != key])
            if s_infos[accs[k2]].H[0] != acc_info.H[0]:
                oth = list(dag)
                o = append_dag(oth, s_nodes[:accs[k2] + 1])
                run_account_case(ctx, oth, roots, blk_hash, key, o + accs[k2], 'rej', 'account:wrongstate', "another account's cell accepted as account state")
        # wrong block hash / unknown address
        run_account_case(ctx, dag, roots, bytes([blk_hash[0] ^ 2]) + blk_hash[1:], key, sidx, 'rej', 'sound:wronghash', 'account proof accepted against a different block hash')
        absent = key ^ (1 << rng.randrange(256))
        if absent not in accs:
            run_account_case(ctx, dag, roots, blk_hash, absent, sidx, 'rej', 'account:absent', 'address not in the dictionary accepted')
        # the account's branch of the dictionary is PRUNED away (the proof shows nothing about it) and an empty state is claimed:
        # "not found in what the proof reveals" is no proof of absence
        others = [k for k in accs if k != key]
        keep_other = (set(path[rng.choice(others)]) | {sroot}) if others else {sroot}       # another account's branch stays revealed
        dpr, rpr, _, _ = build(state_keep=keep_other, prune_p=1.0)
        dpr = list(dpr) + [(G.ORD, '', ())]
        run_account_case(ctx, dpr, rpr, blk_hash, key, len(dpr) - 1, 'rej', 'account:pruned-path-empty-state',
                         'empty cell accepted as the state of an account whose dictionary branch is pruned in the proof')
        run_account_case(ctx, dpr, rpr, blk_hash, key, sidx if sidx < len(dpr) - 1 else 0, 'rej', 'account:pruned-path',
                         'account proof whose dictionary branch to the account is pruned accepted')
        if absent not in accs:
            de = list(dag) + [(G.ORD, '', ())]
            run_account_case(ctx, de, roots, blk_hash, absent, len(de) - 1, None, 'account:absent-empty-state',
                             'empty cell claimed for an address that is not in the (revealed part of the) dictionary')
        # root count / order / non-proof roots
        run_account_case(ctx, dag, roots[:1], blk_hash, key, sidx, 'rej', 'sound:roots', 'one root accepted')
        run_account_case(ctx, dag, roots + roots[:1], blk_hash, key, sidx, 'rej', 'sound:roots', 'three roots accepted')
        run_account_case(ctx, dag, roots[::-1], blk_hash, key, sidx, 'rej', 'sound:roots', 'swapped roots accepted')
        if t % 2 == 0:
            d3, r3, s3, _ = build(hdr_wrap=G.ORD)
            run_account_case(ctx, d3, r3, blk_hash, key, s3, 'rej', 'sound:notproof', 'header root that is an ordinary cell accepted')
            d3, r3, s3, _ = build(st_wrap=G.ORD)
            run_account_case(ctx, d3, r3, blk_hash, key, s3, 'rej', 'sound:notproof', 'state root that is an ordinary cell accepted')
        # path pruned: the accounts cell / a dictionary node / the state root's header link
        victim = rng.choice(path[key])
        d4, r4, s4, _ = build(state_keep=keep - {victim}, prune_p=1.0)
        run_account_case(ctx, d4, r4, blk_hash, key, s4, 'rej', 'account:path-pruned', 'account proof with the dictionary path pruned accepted')
        d5, r5, s5, _ = build(hdr_keep=(hroot,), prune_p=0.3)
        # header with root[2] possibly pruned: no by-construction expectation unless it really got pruned; compare with model only
        run_account_case(ctx, d5, r5, blk_hash, key, s5, None, 'gray:header-pruned', '')
        # a different state under the same header: flip one bit on the account path of the state proof
        cand = [i for i in range(roots[0] + 1, roots[1]) if dag[i][0] == G.ORD and dag[i][1]]
        for i in rng.sample(cand, min(len(cand), ctx.n(3, 8))):
            k_, b_, r_ = dag[i]
            dm = list(dag)
            dm[i] = (k_, flip_bit(b_, rng.randrange(len(b_))), r_)
            run_account_case(ctx, dm, roots, blk_hash, key, sidx, 'rej', 'sound:bitflip', f'bit flip in unpruned cell {i} of the state proof accepted')
        cand = [i for i in range(0, roots[0]) if dag[i][0] != G.PRUNED and dag[i][1]]
        for i in rng.sample(cand, min(len(cand), ctx.n(2, 6))):
            k_, b_, r_ = dag[i]
            dm = list(dag)
            dm[i] = (k_, flip_bit(b_, rng.randrange(len(b_))), r_)
            run_account_case(ctx, dm, roots, blk_hash, key, sidx, 'rej', 'sound:bitflip', f'bit flip in unpruned cell {i} of the header proof accepted')
        # forged state hash: the header's new-state branch replaced by a level-2 pruned branch naming ANOTHER state's hash
        if True:
            db2 = G.DagBuilder()
            s2root, accs2, path2 = gen_state(rng, db2, rng.choice([1, 2, 3]))
            if db2.ok(s2root) and db2.infos[s2root].H[0] != sinfo.H[0]:
                k2 = next(iter(accs2))
                a2 = accs2[k2]
                hn = list(h_nodes)
                hn[hp_new] = forged_pruned(h_infos[hp_new], db2.infos[s2root].H[0], db2.infos[s2root].D[0])
                hi2 = G.spec_dag(hn)          # the Merkle update is no longer spec-valid, the library builds it anyway
                dagx = []
                o = append_dag(dagx, hn)
                libs_h = G.lib_build(hn)
                if libs_h[hroot] is not None:
                    dagx.append((G.MPROOF, G.bytes_to_bits(bytes([3]) + libs_h[hroot].get_hash(0) + libs_h[hroot].get_depth(0).to_bytes(2, 'big')), (o + hroot,)))
                    r0 = len(dagx) - 1
                    o = append_dag(dagx, db2.nodes[:s2root + 1])
                    dagx.append((G.MPROOF, G.mproof_bits(db2.infos[s2root]), (o + s2root,)))
                    r1 = len(dagx) - 1
                    ctx.count('forged-statehash-account')
                    run_account_case(ctx, dagx, [r0, r1], blk_hash, k2, o + a2, 'rej', 'account:forged-statehash',
                                     'forged shard state accepted: the header proof names its hash only in a level-2 pruned branch under the state update')
        # header commits to a different state
        if t % 3 == 0:
            db2 = G.DagBuilder()
            s2root, accs2, path2 = gen_state(rng, db2, 1)
            if db2.ok(s2root):
                k2 = next(iter(accs2))
                a2 = accs2[k2]
                dagx = []
                hp, hr, _, _ = prune_keep(rng, h_nodes, h_infos, hroot, {hroot, hx_node, hp_new}, 1, 0.3)
                o = append_dag(dagx, hp.nodes[:hr + 1])
                dagx.append((G.MPROOF, G.mproof_bits(hp.infos[hr]), (o + hr,)))
                r0 = len(dagx) - 1
                o = append_dag(dagx, db2.nodes[:s2root + 1])
                dagx.append((G.MPROOF, G.mproof_bits(db2.infos[s2root]), (o + s2root,)))
                r1 = len(dagx) - 1
                run_account_case(ctx, dagx, [r0, r1], blk_hash, k2, o + a2, 'rej', 'account:other-state', 'state not committed by the header accepted')


def extra_stream(ctx, rng):
    """accounts cell WITHOUT (or with a cut) HashmapAugE extra: since fix f2933e1 the parser reads `extra:DepthBalanceInfo` after the dictionary
    root, so these states cannot be parsed and the account check must raise (Model/Proof.lean `readsDepthBalance` = false). Unpruned proofs over an
    otherwise valid state; 'none' carries the by-construction expectation, the cut variants are gray (model = library only), 'full' is the control."""
    modes = (('none', 'rej', 'account:no-extra'), ('short', None, 'gray:extra-short'), ('grams-cut', None, 'gray:extra-grams-cut'),
             ('no-maybe', None, 'gray:extra-no-maybe'), ('no-ref', None, 'gray:extra-no-ref'), ('empty', 'rej', 'account:empty-dict'),
             ('full', 'acc', 'complete:account'))
    for _ in range(ctx.n(2, 12)):
        for mode, expect, fkey in modes:
            db = G.DagBuilder()
            sroot, accs, _ = gen_state(rng, db, rng.choice([1, 2, 3]), extra_mode=mode)
            if not db.ok(sroot):
                ctx.corr_broken(f'harness: generated shard state ({mode}) not spec-valid')
                continue
            sinfo = db.infos[sroot]
            hdb = G.DagBuilder()
            hroot, _, _ = gen_header(rng, hdb, sinfo)
            if not hdb.ok(hroot) or hdb.infos[hroot].mask != 0:
                continue
            blk_hash = hdb.infos[hroot].H[0]
            key = rng.choice(sorted(accs))
            dag = []
            o = append_dag(dag, hdb.nodes[:hroot + 1])
            dag.append((G.MPROOF, G.mproof_bits(hdb.infos[hroot]), (o + hroot,)))
            r0 = len(dag) - 1
            o = append_dag(dag, db.nodes[:sroot + 1])
            dag.append((G.MPROOF, G.mproof_bits(sinfo), (o + sroot,)))
            r1 = len(dag) - 1
            ctx.count(f'extra-mode:{mode}')
            run_account_case(ctx, dag, [r0, r1], blk_hash, key, o + accs[key], expect, fkey,
                             f'account proof over a state whose accounts cell has extra mode {mode!r}: wrong verdict')


# ----------------------------------------------------------------------------- stream E: the TL-B walk to the account cell (Model/Locate.lean)

def py_label(bits, n):
    """HmLabel ~l n at the front of `bits`: (label, rest) or None — independent transcription of hashmap.tlb"""
    if bits[:1] == '0':
        i = 1
        while i < len(bits) and bits[i] == '1':
            i += 1
        l = i - 1
        if i >= len(bits) or len(bits) < i + 1 + l:
            return None
        return bits[i + 1:i + 1 + l], bits[i + 1 + l:]
    w = n.bit_length()
    if bits[:2] == '10':
        if len(bits) < 2 + w:
            return None
        l = int(bits[2:2 + w], 2) if w else 0
        if len(bits) < 2 + w + l:
            return None
        return bits[2 + w:2 + w + l], bits[2 + w + l:]
    if bits[:2] == '11':
        if len(bits) < 3 + w:
            return None
        l = int(bits[3:3 + w], 2) if w else 0
        return bits[2] * l, bits[3 + w:]
    return None


def py_lookup(st, key):
    """block.tlb / hashmap.tlb, LOOKUP ONLY: the `account:^Account` cell of the 256-bit string `key` in the shard state cell `st`
    (library Cell objects are used as plain (type, bits, refs) records); None = absent / not a state / path pruned."""
    def rec(c):
        return c.type_, c.bits.to01(), c.refs
    k, b, r = rec(st)
    if k != -1 or len(b) < 361 or b[:32] != ubits(0x9023afe2, 32) or len(r) < 2:
        return None
    k, b, r = rec(r[1])
    if k != -1 or b[:1] != '1' or not r:
        return None
    c, n = r[0], 256
    while True:
        k, b, r = rec(c)
        if k != -1:
            return None
        lr = py_label(b, n)
        if lr is None:
            return None
        lbl, rest = lr
        if len(lbl) > n or key[:len(lbl)] != lbl:
            return None
        key = key[len(lbl):]
        n -= len(lbl)
        if n == 0:
            break
        if len(r) < 2:
            return None
        c = r[int(key[0])]
        key = key[1:]
        n -= 1
    # leaf: extra:DepthBalanceInfo value:ShardAccount
    if len(rest) < 9:
        return None
    gl = int(rest[5:9], 2)
    if len(rest) < 9 + 8 * gl + 1:
        return None
    nref = int(rest[9 + 8 * gl])
    if len(rest) - (10 + 8 * gl) < 320 or len(r) <= nref:
        return None
    return r[nref]


def lib_walk(st, kb):
    from pytoniq_core.tlb.block import ShardStateUnsplit
    try:
        shard = ShardStateUnsplit.deserialize(st.begin_parse())
        return shard.accounts[0][int.from_bytes(kb, 'big')].cell[0].hash.hex()
    except Exception:
        return 'x'


def prune_exact(nodes, infos, root, prune_set, level=1):
    """prune exactly the nodes of `prune_set` (where first met from the root), keep everything else -> (db, new root)"""
    db = G.DagBuilder()
    memo = {}

    def go(i, pd, is_root):
        if (i, pd) in memo:
            return memo[(i, pd)]
        kind, bits, refs = nodes[i]
        inf = infos[i]
        if (not is_root) and i in prune_set and inf is not None and inf.valid and kind != G.PRUNED and 1 <= pd <= 3:
            j = db.add(*G.make_pruned_of(inf, pd))
        else:
            cpd = pd + 1 if kind in (G.MPROOF, G.MUPDATE) else pd
            j = db.add(kind, bits, [go(c, cpd, False) for c in refs])
        memo[(i, pd)] = j
        return j

    return db, go(root, level, True)


def add_nodes(db, nodes):
    off = len(db.nodes)
    for k, b, r in nodes:
        db.add(k, b, [x + off for x in r])
    return len(db.nodes) - 1


def spec_pool(ctx, rng, ty, n):
    """DAGs (root last) of spec-encoded values of a block.tlb type, from the Lean spec codecs of C16 (driver op tlbgen)"""
    out = []
    for a in ctx.model.run([f'tlbgen {ty} {rng.randrange(1 << 30)}' for _ in range(n)]):
        if a.startswith('ok '):
            g = V.parse_gen_answer(a)
            if g is not None and len(g['nodes']) <= 60:
                out.append(g['nodes'])
    return out


def cc_bits(rng):
    l = rng.choice([0, 0, 1, 3])
    return ubits(l, 4) + G.rand_bits(rng, 8 * l) + '0'


def gen_walk_state(rng, pools, force=None):
    """A shard state that drives every branch of the TL-B walk. -> dict with
    db, root, key, acc (the target's account cell), path (nodes that must stay: root, accounts cell, dictionary path),
    bad {node: why} (the parser raises while the node is present unpruned), gray (nodes whose verdict is the library's: spec-encoded /
    junk accounts, spec McStateExtra), fatal (why the walk must fail whatever is pruned) or None."""
    db = G.DagBuilder()
    st = dict(db=db, bad={}, gray=set(), fatal=None)
    nacc = rng.choice([1, 2, 3, 5, 8])
    keys = gen_keys(rng, nacc)
    target = rng.choice(keys)
    accs = {}
    for k in keys:
        kind = rng.choice(['none', 'none', 'spec', 'junk1', 'empty', 'lib'])
        if kind == 'spec' and pools['Account']:
            a = add_nodes(db, rng.choice(pools['Account']))
            st['gray'].add(a)
        elif kind == 'junk1':
            a = db.add(G.ORD, '1' + G.rand_bits(rng, rng.choice([0, 5, 300, 700])))
            st['gray'].add(a)
        elif kind == 'empty':
            a = db.add(G.ORD, '')
            st['bad'][a] = 'empty account cell (load_bit raises)'
        elif kind == 'lib':
            a = db.add(G.LIB, G.bytes_to_bits(bytes([2]) + rng.randbytes(32)))
        else:
            a = gen_account_cell(rng, db)
        accs[k] = a
    path = {k: [] for k in keys}

    def extra(allow_bad=True):
        nb = rng.choice([0, 0, 1, 2, 8, 15])
        bits = ubits(rng.randrange(31), 5) + ubits(nb, 4) + ubits(rng.getrandbits(8 * nb) if nb else 0, 8 * nb)
        r = rng.random()
        if r < 0.25:
            val = ubits(1, 5) + ubits(rng.randrange(1, 256), 8)
            cut = allow_bad and rng.random() < 0.3
            if cut:
                val = ubits(1, 5) + G.rand_bits(rng, rng.randrange(0, 8))
            d = db.add(G.ORD, enc_label(rng, ubits(rng.getrandbits(32), 32), 32) + val)
            if cut:
                st['bad'][d] = 'extra-currency value cut (load_var_uint raises)'
            return bits + '1', [d]
        return bits + '0', []

    def build(items, n):
        ks = [k for k, _, _ in items]
        lbl = ks[0]
        for k in ks[1:]:
            i = 0
            while i < len(lbl) and lbl[i] == k[i]:
                i += 1
            lbl = lbl[:i]
        bits = enc_label(rng, lbl, n)
        m = n - len(lbl)
        eb, er = extra()
        if m == 0:
            _, acc, full = items[0]
            dfx = rng.choice(['value-319', 'value-256', 'no-account-ref']) if rng.random() < 0.15 else None
            vbits = {'value-319': 319, 'value-256': 256}.get(dfx, 320)
            refs = er + ([] if dfx == 'no-account-ref' else [acc])
            node = db.add(G.ORD, bits + eb + G.rand_bits(rng, vbits), refs)
            if dfx:
                st['bad'][node] = 'leaf ' + dfx
            path[full].append(node)
            return node
        left = [(k[len(lbl) + 1:], a, f) for k, a, f in items if k[len(lbl)] == '0']
        right = [(k[len(lbl) + 1:], a, f) for k, a, f in items if k[len(lbl)] == '1']
        l = build(left, m - 1)
        r = build(right, m - 1)
        cut = rng.random() < 0.06
        if cut:
            eb, er = eb[:rng.randrange(0, len(eb))], []
        node = db.add(G.ORD, bits + eb, [l, r] + er)
        if cut:
            st['bad'][node] = 'fork extra cut'
        for _, _, f in items:
            path[f].append(node)
        return node

    droot = build([(ubits(k, 256), accs[k], k) for k in keys], 256)
    eb, er = extra(allow_bad=False)
    acell = db.add(G.ORD, '1' + eb, [droot] + er)
    omq = G.gen_exotic_tree(rng, db, 0, rng.randrange(1, 4))
    # the `^[ overload_history … master_ref ]` group
    gk = rng.choice(['plain', 'plain', 'libs', 'master', 'master-short', 'short', 'cc-cut', 'libs-noref'])
    h2 = G.rand_bits(rng, 128)
    if gk == 'plain':
        grp = db.add(G.ORD, h2 + cc_bits(rng) + cc_bits(rng) + '00')
    elif gk == 'libs':
        lib = db.add(G.ORD, enc_label(rng, ubits(rng.getrandbits(256), 256), 256) + G.rand_bits(rng, 20))
        grp = db.add(G.ORD, h2 + cc_bits(rng) + cc_bits(rng) + '10', [lib])
    elif gk == 'master':
        grp = db.add(G.ORD, h2 + cc_bits(rng) + cc_bits(rng) + '01' + G.rand_bits(rng, 608))
    elif gk == 'master-short':
        grp = db.add(G.ORD, h2 + cc_bits(rng) + cc_bits(rng) + '01' + G.rand_bits(rng, rng.choice([0, 600, 607])))
    elif gk == 'short':
        grp = db.add(G.ORD, G.rand_bits(rng, rng.choice([0, 100, 127])))
    elif gk == 'cc-cut':
        grp = db.add(G.ORD, h2 + ubits(5, 4) + G.rand_bits(rng, 16))
    else:
        grp = db.add(G.ORD, h2 + cc_bits(rng) + cc_bits(rng) + '10')
    if gk in ('master-short', 'short', 'cc-cut', 'libs-noref'):
        st['bad'][grp] = 'state ref group ' + gk
    # custom
    ck = rng.choice(['none', 'none', 'none', 'none', 'spec', 'spec', 'junk', 'junk', 'lib', 'lib', 'noref', 'nobit'])
    if force is not None:
        ck = force if force in ('noref', 'nobit') else rng.choice(['none', 'junk', 'lib'])
    refs = [omq, acell, grp]
    cbit = '0'
    if ck == 'spec' and pools['McStateExtra']:
        cu = add_nodes(db, rng.choice(pools['McStateExtra']))
        st['gray'].add(cu)
        refs.append(cu)
        cbit = '1'
    elif ck == 'junk':
        cu = db.add(G.ORD, G.rand_bits(rng, rng.choice([0, 16, 200])))
        st['bad'][cu] = 'custom is not a McStateExtra'
        refs.append(cu)
        cbit = '1'
    elif ck == 'lib':
        refs.append(db.add(G.LIB, G.bytes_to_bits(bytes([2]) + rng.randbytes(32))))
        cbit = '1'
    elif ck == 'noref':
        cbit = '1'
        st['fatal'] = 'custom bit set, no reference'
    elif ck == 'nobit':
        cbit = ''
        st['fatal'] = 'state cell ends before the custom bit'
    tag = ubits(0x9023afe2, 32)
    sid = '00'
    rk = {'tag': 0.0, 'shardident': 0.05}.get(force, rng.random() if force is None else 1.0)
    if rk < 0.04:
        i = rng.randrange(32)
        tag = tag[:i] + ('1' if tag[i] == '0' else '0') + tag[i + 1:]
        st['fatal'] = 'wrong shard_state tag'
    elif rk < 0.08:
        sid = rng.choice(['01', '10', '11'])
        st['fatal'] = 'wrong ShardIdent tag'
    bits = (tag + G.rand_bits(rng, 32) + sid + ubits(rng.randrange(61), 6) + G.rand_bits(rng, 32 + 64 + 32 + 32 + 32 + 64 + 32) + rng.choice('01') + cbit)
    root = db.add(G.ORD, bits, refs)
    tpath = set(path[target]) | {acell, root}
    for n_, why in list(st['bad'].items()):
        if n_ in tpath:
            st['fatal'] = why + ' (on the path)'
    st.update(root=root, key=target, acc=accs[target], path=tpath, nacc=nacc, grp=gk, custom=ck)
    return st


def walk_stream(ctx, rng):
    """every branch of `ShardStateUnsplit.deserialize(...).accounts[0][addr].cell[0]`: label forms, extras with (malformed) extra-currency
    dictionaries, leaves with short values / without account reference, account cells none / spec-encoded / junk / empty / exotic, the `^[…]`
    group plain / libraries / master_ref / malformed, custom absent / spec McStateExtra / junk / exotic / missing, wrong tags; each defect once
    PRUNED AWAY (the honest-proof reading: must be accepted) and once left in the proof (must be rejected)."""
    pools = {'Account': spec_pool(ctx, rng, 'Account', ctx.n(10, 40)), 'McStateExtra': spec_pool(ctx, rng, 'McStateExtra', ctx.n(5, 20))}
    ctx.count(f"spec-pool:Account:{min(len(pools['Account']), 10)}+")
    for t in range(ctx.n(90, 700)):
        # every 6th state has exactly one of the defects that no pruning can hide (the others: at random)
        st = gen_walk_state(rng, pools, force=['tag', 'shardident', 'noref', 'nobit'][t // 6 % 4] if t % 6 == 5 else None)
        db, sroot = st['db'], st['root']
        if not db.ok(sroot):
            ctx.corr_broken(f'harness: generated walk state not spec-valid ({db.infos[sroot].why if db.infos[sroot] else "child"})')
            continue
        nodes, infos = db.nodes[:sroot + 1], db.infos[:sroot + 1]
        sinfo = infos[sroot]
        hdb = G.DagBuilder()
        hroot, _, _ = gen_header(rng, hdb, sinfo)
        if not hdb.ok(hroot) or hdb.infos[hroot].mask != 0:
            continue
        blk_hash = hdb.infos[hroot].H[0]
        ctx.count(f"walk:grp:{st['grp']}")
        ctx.count(f"walk:custom:{st['custom']}")
        ctx.count('walk:fatal:' + st['fatal'].split(' (')[0].replace(' ', '-') if st['fatal'] else 'walk:sound-state')
        parents = {}
        for i, (_, _, r) in enumerate(nodes):
            for c in r:
                parents.setdefault(c, set()).add(i)

        def ancestors(n):
            out, todo = set(), [n]
            while todo:
                x = todo.pop()
                for p_ in parents.get(x, ()):
                    if p_ not in out:
                        out.add(p_)
                        todo.append(p_)
            return out

        reach, todo = {sroot}, [sroot]
        while todo:
            for c in nodes[todo.pop()][2]:
                if c not in reach:
                    reach.add(c)
                    todo.append(c)
        st['bad'] = {b: w for b, w in st['bad'].items() if b in reach}      # e.g. the account cell of a leaf written without its reference
        st['gray'] = {g for g in st['gray'] if g in reach}
        free = [i for i in range(sroot) if i not in st['path']]
        p0 = {i for i in free if rng.random() < 0.4}
        suspicious = set(st['bad']) | st['gray']
        variants = [('clean', (p0 | suspicious) - st['path'])]
        offbad = [b for b in st['bad'] if b not in st['path']]
        if offbad:
            b = rng.choice(offbad)
            variants.append(('bad:' + st['bad'][b].split(' (')[0], ((p0 | suspicious) - {b} - ancestors(b)) - st['path']))
        if st['gray']:
            g = rng.choice(sorted(st['gray']))
            variants.append(('gray', ((p0 | set(st['bad'])) - {g} - ancestors(g)) - st['path']))
        kb = st['key'].to_bytes(32, 'big')
        for name, pset in variants:
            sp, sr = prune_exact(nodes, infos, sroot, pset)
            if not sp.ok(sr):
                continue
            dag = []
            o = append_dag(dag, hdb.nodes[:hroot + 1])
            dag.append((G.MPROOF, G.mproof_bits(hdb.infos[hroot]), (o + hroot,)))
            r0 = len(dag) - 1
            o = append_dag(dag, sp.nodes[:sr + 1])
            dag.append((G.MPROOF, G.mproof_bits(sp.infos[sr]), (o + sr,)))
            r1 = len(dag) - 1
            sidx_state = o + sr
            o2 = append_dag(dag, nodes[:st['acc'] + 1])
            acc_idx = o2 + st['acc']
            if st['fatal']:
                expect, fkey, what = 'rej', 'walk:fatal', f"state that cannot be parsed ({st['fatal']}) accepted"
            elif name == 'clean':
                expect, fkey, what = 'acc', 'complete:walk', 'honest account proof (every malformed / unparsed part pruned away) rejected'
            elif name.startswith('bad:'):
                expect, fkey, what = 'rej', 'walk:' + name.replace(' ', '-'), f'state proof with an unpruned part the parser must refuse ({name[4:]}) accepted'
            else:
                expect, fkey, what = None, 'gray:walk-opaque', ''
            ctx.count(f'walk:{name.split(":")[0]}')
            run_account_case(ctx, dag, [r0, r1], blk_hash, st['key'], acc_idx, expect, fkey, what,
                             check_descr=infos[st['acc']].H[0] if expect == 'acc' else None)
            run_walk_case(ctx, dag, sidx_state, kb, fkey)
        # an address that is not in the dictionary
        if not st['fatal'] and t % 3 == 0:
            absent = st['key'] ^ (1 << rng.randrange(256))
            if absent not in {k for k in [st['key']]} and True:
                sp, sr = prune_exact(nodes, infos, sroot, (p0 | suspicious) - st['path'])
                if sp.ok(sr):
                    dag = list(sp.nodes[:sr + 1])
                    run_walk_case(ctx, dag, sr, absent.to_bytes(32, 'big'), 'walk:absent')


def run_walk_case(ctx, dag, idx, kb, fkey):
    """the walk alone on one state cell: library = model `locateAccount`; whatever the library returns must be the dictionary entry of the
    address (independent lookup-only transcription of hashmap.tlb, and the Lean spec function `lookupShardAccount`)."""
    libs = G.lib_build(dag)
    if libs[idx] is None:
        return
    got = lib_walk(libs[idx], kb)
    key = ''.join(ubits(b, 8) for b in kb)
    ent = py_lookup(libs[idx], key)
    ent = ent.hash.hex() if ent is not None else 'x'
    ctx.case(('walk', tuple(dag), idx, kb), sample={'op': 'locate', 'cells': len(dag), 'key': fkey, 'verdict': 'x' if got == 'x' else 'cell'})
    ctx.count('locate:' + ('none' if got == 'x' else 'found'))
    inp = {'op': 'walk', 'dag': jnodes(dag), 'idx': idx, 'addr': kb.hex(), 'key': fkey}
    if got != 'x' and got != ent:
        ctx.fail('walk:not-the-dictionary-entry', 'ShardStateUnsplit.deserialize(...).accounts[0][addr].cell[0] is not the account cell that the '
                 'ShardAccounts dictionary holds under the address', inp, got, ent)
    bad_acc, bad_mc = opaque_verdicts(libs, dag)
    ctx.expect_model(f'locacct {dag_str(dag)} {idx} {kb.hex()} {bad_acc} {bad_mc}', f'{got} {ent}', fkey + ' locate')
    # the walk on the REGENERATED parsers (Generated/LocateSrc.lean + the C16 parser files): `eq` = it agrees with the hand model on this
    # state cell (c11_src_walk), and the located cell / "raises" verdict is the library's (translator validation of the walk)
    ctx.expect_model(f'srcloc {dag_str(dag)} {idx} {kb.hex()}', f'eq {got}', fkey + ' srcloc')


# ----------------------------------------------------------------------------- run / replay

def src_search(ctx):
    """Search mode only (a c11_src_* obligation broke): logs the points where a regenerated test of Generated/ProofChecks.lean differs
    from the model's test, then runs every root-cell family on Merkle proofs over chains of depth 0..9 (unpruned, so that the verdict
    only depends on the proof cell): the honest proof, non-proof wrappers, wrong hashes, extra/missing references, and proof cells cut
    to 272..279 bits or extended (a 277-bit cell over a depth-4 tree pads to the same 35 data bytes as the honest 280-bit one).
    True = a concrete failing input was found."""
    found = arith2.search_points(ctx, ['ProofChecks'])
    ctx.src_account_first = any(k.startswith(('acct', 'shard')) for k in found)
    n0 = len(ctx.failures)
    rng = ctx.rng
    if src_fn_search(ctx):
        return True
    if src_ctor_search(ctx):
        return True
    src_families(ctx, rng)
    return len(ctx.failures) > n0


def src_ctor_search(ctx):
    """Search mode only: the cells on which the REGENERATED constructor (Generated/CellCtor.lean) and the hand model differ (evaluated by
    Lean on the validation DAGs of cellctor.py: every type, every pruned mask under ordinary / Merkle parents, depth limits).  Each
    differing DAG prefix whose last cell is spec-valid at level 0 is wrapped as a Merkle proof and goes through the C11 oracle
    (`run_proof_case`: the library must accept the honest proof; a constructor that computes another hash than the spec's fails here).
    True = a concrete failing input was found."""
    n0 = len(ctx.failures)
    rng = ctx.rng
    try:
        found = cellctor.diff_dags(ctx, cellctor.validation_dags())
    except Exception as e:
        ctx.notes.append(f'source-diff search (CellCtor) failed: {type(e).__name__}: {e}')
        return False
    found.sort(key=lambda f: sum(len(n[1]) for n in f[1]))
    tried = 0
    for tag, nodes, idx in found[:60]:
        nodes = [tuple(n) for n in nodes[:max(idx) + 1]]
        try:
            infos = G.spec_dag(nodes)
        except Exception:
            continue
        root = len(nodes) - 1
        if infos[root] is None or not infos[root].valid or infos[root].mask != 0:
            continue
        try:
            mp = make_proof(rng, nodes, infos, root, mode='none')
        except Exception:
            mp = None
        if mp is None:
            continue
        pn, R, proot, _ = mp
        run_proof_case(ctx, pn, R, infos[root].H[0], 'acc', 'complete:check_proof',
                       f'Merkle proof over a tree on which the regenerated constructor differs from the model ({tag}) rejected', hdr_idx=proot, hdr_expect='acc x')
        tried += 1
        if len(ctx.failures) > n0 or tried >= 25:
            break
    return len(ctx.failures) > n0


def src_fn_search(ctx):
    """Search mode only: the regenerated WHOLE functions (Generated/ProofFull.lean) against the hand model on the requests of the
    root-cell families, block-like trees and a short account stream (recorded with the library's verdicts); the requests on which
    they differ are replayed first through the property's oracle.  True = a concrete failing input was found."""
    n0 = len(ctx.failures)
    try:
        cases = prooffull.validation_cases()
    except Exception as e:
        ctx.notes.append(f'source-diff search (ProofFull): could not build the request grid: {type(e).__name__}: {e}')
        return False
    idx = prooffull.diff_lines(ctx, [c[0] for c in cases])
    if not idx:
        return False
    ctx.src_account_first = ctx.src_account_first or any(cases[i][0].startswith('chkacct') for i in idx)
    if any(cases[i][0].startswith('chkshard') for i in idx):
        shard_stream(ctx, prooffull.Recorder(20240915).rng)          # check_shard_proof differs from the model: its oracle first
        if len(ctx.failures) > n0:
            return True
    # the differing requests are outputs of the deterministic generators below: run those families (all of them, the differing
    # requests are among them) through the oracle
    rec_rng = prooffull.Recorder(20240915).rng
    src_families(ctx, rec_rng)
    if len(ctx.failures) == n0 and ctx.src_account_first:
        account_stream(ctx, rec_rng)
    return len(ctx.failures) > n0


def src_walk_differs(ctx):
    """Search mode only: is there a synthetic shard state (the walk stream's generator, fixed seed) on which the REGENERATED walk
    (`srcLocate`, Generated/LocateSrc.lean) and the hand model `locateAccount srcOpaque` differ (driver op `srcloc` answers `ne`)?  The
    differing states are instances of the walk stream, whose cases go through the account oracle (`run_account_case`: verdict known by
    construction) and the dictionary oracle (`run_walk_case`: the library's result must be the entry the lookup-only walk finds)."""
    import random
    try:
        probe = type(ctx)(ctx.prop, 'quick', ctx.seed)
        probe._model = ctx.model
        walk_stream(probe, random.Random(20240930))
        lines = [p[0] for p in probe._pending if p[0].startswith('srcloc ')]
        ans = ctx.model.run(lines)
    except Exception as e:
        ctx.notes.append(f'source-diff search (LocateSrc) failed: {type(e).__name__}: {e}')
        return False
    ne = [l for l, a in zip(lines, ans) if not a.startswith('eq')]
    if ne:
        ctx.notes.append(f'regenerated TL-B walk differs from the hand model on {len(ne)} of {len(lines)} synthetic shard states, e.g. {ne[0][:160]}')
    return bool(ne)


def src_families(ctx, rng):
    """every root-cell family on Merkle proofs over unpruned chains of depth 0..9, and block-like trees with honest / forged state updates"""
    for depth in range(0, 10):
        nodes = [(G.ORD, '1', ())] + [(G.ORD, G.rand_bits(rng, 8), (i,)) for i in range(depth)]
        infos = G.spec_dag(nodes)
        root = depth
        h = infos[root].H[0]
        mp = make_proof(rng, nodes, infos, root, mode='none')
        if mp is None:
            continue
        pn, R, proot, _ = mp
        pinfos = G.spec_dag(pn)
        run_proof_case(ctx, pn, R, h, 'acc', 'complete:check_proof', f'Merkle proof over an unpruned chain of depth {depth} rejected',
                       hdr_idx=proot, hdr_expect='acc x')
        kind, bits, refs = pn[R]
        for nb in [bits[:k] for k in range(272, 280)] + [bits + '0', bits + '1', bits + '1000', bits + '0' * 8]:
            mut = list(pn)
            mut[R] = (kind, nb, refs)
            run_proof_case(ctx, mut, R, h, 'rej', 'sound:rootcell', f'proof cell with {len(nb)} bits accepted', mut={'root_bits': len(nb)})
        not_a_proof(ctx, rng, pn, pinfos, R, proot, h)
        wrong_hashes(ctx, rng, pn, pinfos, R, proot, h)
        mutate_refs(ctx, rng, pn, pinfos, R, proot, h, 2)
    # block-like trees (root[2] a Merkle update): the store_state_hash path of check_block_header_proof, honest and forged
    for _ in range(40):
        db = G.DagBuilder()
        root = gen_blocklike(rng, db)
        if not db.ok(root) or db.infos[root].mask != 0:
            continue
        nodes, infos = db.nodes[:root + 1], db.infos[:root + 1]
        h = infos[root].H[0]
        mp = make_proof(rng, nodes, infos, root, mode=rng.choice(['none', 'random']))
        if mp is None:
            continue
        pn, R, proot, npruned = mp
        pinfos = G.spec_dag(pn)
        run_proof_case(ctx, pn, R, h, 'acc', 'complete:check_proof', f'Merkle proof of a block-like tree built by pruning {npruned} subtrees rejected',
                       hdr_idx=proot, hdr_expect=state_hash_expect(nodes, infos, root, pn, proot), nontrivial=npruned > 0)
        forged_state_hash(ctx, rng, pn, pinfos, R, proot, h)


# ----------------------------------------------------------------------------- round 11: forged Merkle-update children, falsy arguments

def py_lookup3(st, key):
    """hashmap.tlb lookup with a THREE-valued answer (independent of the library's parsers): ('found', account cell) |
    ('absent',) = every cell on the path of `key` is revealed, ordinary and readable and the path ends WITHOUT the key |
    ('hidden',) = a cell on the path is pruned / exotic / unreadable: the proof says nothing about the key."""
    def rec(c):
        return c.type_, c.bits.to01(), c.refs
    k, b, r = rec(st)
    if k != -1 or len(b) < 361 or b[:32] != ubits(0x9023afe2, 32) or len(r) < 2:
        return ('hidden',)
    k, b, r = rec(r[1])
    if k != -1 or not b:
        return ('hidden',)
    if b[0] == '0':
        return ('absent',)
    if not r:
        return ('hidden',)
    c, n = r[0], 256
    while True:
        k, b, r = rec(c)
        if k != -1:
            return ('hidden',)
        lr = py_label(b, n)
        if lr is None:
            return ('hidden',)
        lbl, rest = lr
        if len(lbl) > n:
            return ('hidden',)
        if key[:len(lbl)] != lbl:
            return ('absent',)
        key = key[len(lbl):]
        n -= len(lbl)
        if n == 0:
            break
        if len(r) < 2:
            return ('hidden',)
        c = r[int(key[0])]
        key = key[1:]
        n -= 1
    got = None
    if len(rest) >= 9:
        gl = int(rest[5:9], 2)
        if len(rest) >= 9 + 8 * gl + 1:
            nref = int(rest[9 + 8 * gl])
            if len(rest) - (10 + 8 * gl) >= 320 and len(r) > nref:
                got = r[nref]
    return ('found', got) if got is not None else ('hidden',)


FALSY_CLAIMS = {'None': None, 'False': False, '0': 0, "b''": b'', "''": '', '[]': [], '()': (), '{}': {}, '0.0': 0.0}


def run_account_falsy_case(ctx, nodes, roots, blk_hash, key, claim, sroot_idx, fkey, what):
    """check_account_proof(honest proof, address, account_state_root = a FALSY non-cell value): a claim "this account has no state".
    Judged by the independent three-valued lookup on the state cell of the proof: accepted only if the path to the key is fully
    revealed and ends without the key; 'found' and 'hidden' must be refused (both calling modes)."""
    from pytoniq_core.proof.check_proof import check_account_proof
    from pytoniq_core.tl.block import BlockIdExt
    from pytoniq_core.boc.address import Address
    libs = G.lib_build(nodes)
    kb = key.to_bytes(32, 'big')
    if any(libs[r] is None for r in roots) or libs[sroot_idx] is None:
        return
    verdict = py_lookup3(libs[sroot_idx], ubits(key, 256))[0]
    boc = multi_root_boc([libs[r] for r in roots])
    blk = BlockIdExt(0, -9223372036854775808, 1, blk_hash, bytes(32))
    ctx.case(('acct-falsy', fkey, claim, tuple(nodes), tuple(roots), blk_hash, key), sample={'op': 'check_account_proof', 'claim': claim, 'key': fkey, 'lookup': verdict})
    for mode in (False, True):
        try:
            r = check_account_proof(boc, blk, Address((0, kb)), FALSY_CLAIMS[claim], mode)
            got = 'acc'
        except Exception:
            got = 'rej'
        ctx.count(f'{fkey}:{verdict}:{got}')
        if got == 'acc' and verdict != 'absent':
            ctx.fail(fkey, f'check_account_proof(account_state_root={claim}, return_account_descr={mode}): {what} '
                     f'(independent lookup of the address in the proof\'s state cell: {verdict})',
                     {'op': 'acct-falsy', 'dag': jnodes(nodes), 'roots': list(roots), 'blk_hash': blk_hash.hex(), 'addr': kb.hex(), 'claim': claim,
                      'sroot_idx': sroot_idx, 'key': fkey, 'what': what}, got, 'rej')
            return


def falsy_entry_args(ctx, nodes, roots, blk_hash, key, sidx):
    """the other arguments of the proof entry points set to falsy values against an honest proof: never a silent acceptance"""
    from pytoniq_core.proof.check_proof import check_proof, check_block_header_proof, check_account_proof
    from pytoniq_core.tl.block import BlockIdExt
    from pytoniq_core.boc.address import Address
    libs = G.lib_build(nodes)
    if any(libs[r] is None for r in roots) or libs[sidx] is None:
        return
    boc = multi_root_boc([libs[r] for r in roots])
    blk = BlockIdExt(0, -9223372036854775808, 1, blk_hash, bytes(32))
    addr = Address((0, key.to_bytes(32, 'big')))
    inp = {'op': 'acct', 'dag': jnodes(nodes), 'roots': list(roots), 'blk_hash': blk_hash.hex(), 'addr': key.to_bytes(32, 'big').hex(), 'state_idx': sidx,
           'expect': 'acc', 'key': 'falsy:args'}
    for name, val in FALSY_CLAIMS.items():
        calls = [('check_proof(root, %s)' % name, lambda: check_proof(libs[roots[0]], val)),
                 ('check_block_header_proof(body, %s, False)' % name, lambda: check_block_header_proof(libs[roots[0]][0], val, False)),
                 ('check_block_header_proof(body, %s, True)' % name, lambda: check_block_header_proof(libs[roots[0]][0], val, True)),
                 ('check_account_proof(proof=%s)' % name, lambda: check_account_proof(val, blk, addr, libs[sidx])),
                 ('check_account_proof(shrd_blk=%s)' % name, lambda: check_account_proof(boc, val, addr, libs[sidx])),
                 ('check_account_proof(address=%s)' % name, lambda: check_account_proof(boc, blk, val, libs[sidx]))]
        for what, fn in calls:
            ctx.count('falsy:args')
            try:
                fn()
                got = 'acc'
            except Exception:
                got = 'rej'
            if got != 'rej':
                ctx.fail('falsy:args', f'{what} on an honest proof returned without an error', dict(inp, call=what), got, 'rej')
                return
    ctx.case(('falsy-args', tuple(nodes), tuple(roots), blk_hash, key))


def forged_children(S, honest_l1, full):
    """pruned branches of every mask 1..7 whose stored (hash, depth) pairs are drawn from the pool S; full = every tuple,
    otherwise only those that keep the enclosing hashes (the hash the parent asks for, level 1, is the honest child's)."""
    import itertools
    for mask in range(1, 8):
        k = G.popcount(mask)
        # index of the stored hash that answers level 1 (None: the representation hash answers)
        i1 = G.popcount(mask & 1)
        i1 = i1 if i1 < k else None
        for tup in itertools.product(range(len(S)), repeat=k):
            keeps = i1 is not None and S[tup[i1]][0] == honest_l1
            if full or keeps:
                yield mask, tup, keeps


def update_children_stream(ctx, rng):
    """FORGED MERKLE-UPDATE CHILDREN: the old-state / new-state child of the block's state update replaced by pruned branches of
    every mask whose stored hashes come from the hashes that occur in the proof (old state, new state, block, the honest children's
    own hashes). What check_block_header_proof(.., True) hands out must be the hash the block commits to as NEW state or an error;
    the end-to-end account check with the OLD state (an honest state proof of it and its account) must be refused."""
    for t in range(ctx.n(12, 60)):
        dbo, dbn = G.DagBuilder(), G.DagBuilder()
        oroot, oaccs, opath = gen_state(rng, dbo, rng.choice([1, 2, 3, 5]))
        nroot, naccs, npath = gen_state(rng, dbn, rng.choice([1, 2, 3, 5]))
        if not dbo.ok(oroot) or not dbn.ok(nroot) or dbo.infos[oroot].H[0] == dbn.infos[nroot].H[0]:
            continue
        oinfo, ninfo = dbo.infos[oroot], dbn.infos[nroot]
        hdb = G.DagBuilder()
        hroot, hx_node, hp_new = gen_header(rng, hdb, ninfo, oinfo)
        if not hdb.ok(hroot) or hdb.infos[hroot].mask != 0:
            continue
        hp_old = hdb.nodes[hx_node][2][0]
        h_nodes, h_infos = hdb.nodes[:hroot + 1], hdb.infos[:hroot + 1]
        blk_hash = h_infos[hroot].H[0]
        H_new = ninfo.H[0]
        S = [(oinfo.H[0], oinfo.D[0]), (ninfo.H[0], ninfo.D[0]), (blk_hash, h_infos[hroot].D[0]),
             (h_infos[hp_old].H[1], h_infos[hp_old].D[1]), (h_infos[hp_new].H[1], h_infos[hp_new].D[1])]
        allowed = ('rej', 'acc x', 'acc ' + H_new.hex())
        stale = []
        for pos, node in ((1, hp_new), (0, hp_old)):
            for mask, tup, keeps in forged_children(S, h_infos[node].H[1], full=(t < 3)):
                mut = list(h_nodes)
                mut[node] = (G.PRUNED, G.pruned_bits(mask, [S[i][0] for i in tup], [S[i][1] for i in tup]), ())
                libs = G.lib_build(mut)
                goth = lib_verdict_hdr(libs[hroot], blk_hash)
                ctx.case(('upd-child', tuple(mut), blk_hash), sample={'op': 'check_block_header_proof', 'child': pos, 'mask': mask, 'verdict': goth.split()[0]})
                ctx.count(f'upd-child:{"old" if pos == 0 else "new"}:mask{mask}:{"keeps" if keeps else "breaks"}-block-hash:{"acc-new" if goth == allowed[2] else goth if goth in allowed else "acc-OTHER"}')
                if goth not in allowed:
                    ctx.fail('sound:update-children', f'check_block_header_proof(.., True) returned a state hash that is not the NEW state the block commits to '
                             f'({"new" if pos else "old"}-state child of the state update replaced by a mask-{mask} pruned branch storing hashes that occur in the proof)',
                             {'op': 'hdr', 'dag': jnodes(mut), 'idx': hroot, 'hash': blk_hash.hex(), 'expect': None, 'allowed': list(allowed), 'key': 'sound:update-children'},
                             goth, ' | '.join(allowed))
                if keeps or rng.random() < 0.15:
                    ctx.expect_model(f'chkhdr {dag_str(mut)} {hroot} {hx(blk_hash)}', goth, 'sound:update-children')
                if pos == 1 and keeps and S[tup[0]][0] == oinfo.H[0] and (mask & 1):
                    stale.append(mut)
        # end to end: the forged header + an honest proof of the OLD state + the old account state
        k2 = rng.choice(sorted(oaccs))
        a2 = oaccs[k2]
        for mut in stale[:ctx.n(4, 12)]:
            libs_h = G.lib_build(mut)
            if libs_h[hroot] is None:
                continue
            dagx = []
            o = append_dag(dagx, mut)
            dagx.append((G.MPROOF, G.bytes_to_bits(bytes([3]) + libs_h[hroot].get_hash(0) + libs_h[hroot].get_depth(0).to_bytes(2, 'big')), (o + hroot,)))
            r0 = len(dagx) - 1
            sp, sr, _, smap = prune_keep(rng, dbo.nodes[:oroot + 1], dbo.infos[:oroot + 1], oroot, set(opath[k2]) | {oroot}, 1, 0.5)
            o = append_dag(dagx, sp.nodes[:sr + 1])
            dagx.append((G.MPROOF, G.mproof_bits(sp.infos[sr]), (o + sr,)))
            r1 = len(dagx) - 1
            o2 = append_dag(dagx, dbo.nodes[:a2 + 1])
            ctx.count('upd-child:stale-account')
            run_account_case(ctx, dagx, [r0, r1], blk_hash, k2, o2 + a2, 'rej', 'account:stale-state',
                             'the account state BEFORE the block accepted as the state the block commits to (new-state child of the state update forged '
                             'into a pruned branch whose level-0 hash is the old state hash)')


def falsy_stream(ctx, rng):
    """every None-able argument of the proof entry points set to None / other falsy values against HONEST proofs, the account's
    dictionary branch (a) pruned at every depth of its path, (b) revealed, (c) the address absent with its path revealed"""
    for t in range(ctx.n(8, 40)):
        nacc = [2, 1, 5, 13][t] if t < 4 else rng.choice([1, 2, 3, 5, 8, 13, 21])
        db = G.DagBuilder()
        sroot, accs, path = gen_state(rng, db, nacc)
        if not db.ok(sroot):
            continue
        s_nodes, s_infos = db.nodes[:sroot + 1], db.infos[:sroot + 1]
        hdb = G.DagBuilder()
        hroot, hx_node, hp_new = gen_header(rng, hdb, s_infos[sroot])
        if not hdb.ok(hroot) or hdb.infos[hroot].mask != 0:
            continue
        h_nodes, h_infos = hdb.nodes[:hroot + 1], hdb.infos[:hroot + 1]
        blk_hash = h_infos[hroot].H[0]
        key = rng.choice(sorted(accs))

        def build(state_keep, prune_p):
            dag = []
            hp, hr, _, _ = prune_keep(rng, h_nodes, h_infos, hroot, {hroot, hx_node, hp_new}, 1, 0.4)
            o = append_dag(dag, hp.nodes[:hr + 1])
            dag.append((G.MPROOF, G.mproof_bits(hp.infos[hr]), (o + hr,)))
            r0 = len(dag) - 1
            sp, sr, _, _ = prune_keep(rng, s_nodes, s_infos, sroot, set(state_keep), 1, prune_p)
            o = append_dag(dag, sp.nodes[:sr + 1])
            dag.append((G.MPROOF, G.mproof_bits(sp.infos[sr]), (o + sr,)))
            return dag, [r0, len(dag) - 1], o + sr

        claims = list(FALSY_CLAIMS)
        full = set(path[key]) | {sroot}
        # (b) revealed
        dag, roots, sr = build(full, 0.5)
        for claim in claims:
            run_account_falsy_case(ctx, dag, roots, blk_hash, key, claim, sr, 'account:falsy-claim', 'no-state claim accepted for an account that the proof shows')
        o2 = append_dag(dag, s_nodes[:accs[key] + 1])
        falsy_entry_args(ctx, dag, roots, blk_hash, key, o2 + accs[key])
        # (a) pruned: every cell of the dictionary path below the accounts cell as the pruned one (path = [leaf .. dict root, accounts cell])
        dict_path = [n for n in path[key][:-1]]
        others = [k for k in accs if k != key]
        for victim in dict_path[:-1] or dict_path:           # the dictionary root itself stays unless it is the leaf
            keep = (full - {victim}) | (set(path[rng.choice(others)]) - {victim} if others and rng.random() < 0.5 else set())
            dag, roots, sr = build(keep, 1.0)
            for claim in (claims if victim == dict_path[0] else ['None', rng.choice(claims[1:])]):
                run_account_falsy_case(ctx, dag, roots, blk_hash, key, claim, sr, 'account:falsy-claim',
                                       'no-state claim accepted for an account whose dictionary branch is pruned in the proof')
        # (c) absent, path revealed (everything of the dictionary kept): no expectation beyond the lookup's own verdict
        absent = key ^ (1 << rng.randrange(256))
        if absent not in accs:
            keep_all = set(range(sroot + 1))
            dag, roots, sr = build(keep_all, 0.0)
            for claim in ('None', rng.choice(claims[1:])):
                run_account_falsy_case(ctx, dag, roots, blk_hash, absent, claim, sr, 'account:falsy-claim', 'no-state claim for an address that is not in the dictionary')


def run(ctx):
    rng = ctx.rng
    if ctx.search and src_search(ctx):
        return
    streams = [generic_streams, account_stream, shard_stream, extra_stream, walk_stream, update_children_stream, falsy_stream]
    if ctx.search and getattr(ctx, 'src_account_first', False):
        streams = [account_stream, update_children_stream, falsy_stream, shard_stream, walk_stream, generic_streams, extra_stream]     # a test of check_account_proof differs: look there first
    if ctx.search:                   # the shard oracle is cheap (< 1 s): first when an obligation is broken
        first = [shard_stream, update_children_stream, falsy_stream]     # cheap oracles (a few seconds) first
        streams = first + [st for st in streams if st not in first]
        if src_walk_differs(ctx):    # the regenerated TL-B walk differs from the hand model: the walk / account oracles first
            streams = [walk_stream, account_stream] + [st for st in streams if st not in (walk_stream, account_stream)]
    for stream in streams:
        stream(ctx, rng)
        if ctx.search and ctx.failures:
            return                   # search mode only needs one concrete failing input


# ----------------------------------------------------------------------------- check_shard_proof (the real function, TL-B deserialisers stubbed)

SHARD_PAIR_BROKEN = ('sound:notproof', 'sound:roots', 'sound:wronghash', 'account:forged-statehash')


def shard_expect(kind, same, mc, info, custom, get, leaves):
    """the verdict known by construction for a proof pair of an account case of this kind and the stub behaviour (prooffull.SHARD_GRID)"""
    if same:
        return 'none'                  # blk == shrd_blk: nothing to prove
    if not mc:
        return 'rej'                   # not a masterchain block
    if kind in SHARD_PAIR_BROKEN:
        return 'rej'                   # the proof pair itself is broken (wrapper not a Merkle proof, wrong roots, wrong / forged hash)
    if kind == 'complete:account':     # an honest pair: accepted iff the stubs agree and a leaf carries the shard block's root hash
        return 'descr' if (info, custom, get) == (0, 0, 0) and 1 in leaves else 'rej'
    return None


def run_shard_case(ctx, nodes, roots, bh, kind, params, expect=None):
    same, mc, info, custom, get, leaves = params
    got = prooffull.shard_lib_answer(nodes, roots, bh, same, mc, info, custom, get, leaves)
    exp = expect if expect is not None else shard_expect(kind, same, mc, info, custom, get, leaves)
    ctx.case(('shard', kind, tuple(nodes), tuple(roots), bh, same, mc, info, custom, get, tuple(leaves)),
             sample={'op': 'check_shard_proof', 'cells': len(nodes), 'key': kind, 'verdict': got})
    ctx.count(f'shard:{got}')
    if exp is not None and got != exp:
        ctx.fail(f'shard:{kind}', 'check_shard_proof (TL-B deserialisers stubbed) on the proof pair of this account case: '
                 + ('accepts a pair it must reject' if exp == 'rej' else 'does not return what it must'),
                 {'op': 'shard', 'dag': jnodes(nodes), 'roots': list(roots), 'blk_hash': bh.hex(), 'kind': kind, 'params': [same, mc, info, custom, get, list(leaves)],
                  'expect': exp}, got, exp)
    return got


def shard_stream(ctx, rng):
    """check_shard_proof on the proof pairs of a short account stream (honest pairs and pairs broken at the proof level), every stub
    behaviour of prooffull.SHARD_GRID: equal ids, non-masterchain block, header mismatch / raise, custom None, workchain absent, leaves
    None / matching / not matching in every position"""
    rec = prooffull.Recorder(rng.randrange(1 << 30), scale=12)
    account_stream(rec, rec.rng)
    seen = {}
    for nodes, roots, bh, kind in rec.acct_cases:
        if kind != 'complete:account' and kind not in SHARD_PAIR_BROKEN:
            continue
        if seen.get(kind, 0) >= (3 if kind == 'complete:account' else 1):
            continue
        seen[kind] = seen.get(kind, 0) + 1
        for params in prooffull.SHARD_GRID:
            run_shard_case(ctx, nodes, roots, bh, kind, params)
        if kind == 'complete:account' and len(roots) == 2:
            # the honest pair with ONE root re-typed as an ordinary cell (same 280 bits, same child: every hash comparison still
            # holds, only check_proof on that root can refuse it)
            for which, name in ((0, 'block-root-not-proof'), (1, 'state-root-not-proof')):
                mut = list(nodes)
                k, b, r = mut[roots[which]]
                mut[roots[which]] = (G.ORD, b, r)
                for params in prooffull.SHARD_GRID[:3] + prooffull.SHARD_GRID[6:9]:
                    same, mc = params[0], params[1]
                    run_shard_case(ctx, mut, roots, bh, 'shard-' + name, params, expect='none' if same else 'rej')
        if ctx.search and ctx.failures:
            return


def replay(ctx, payload):
    inp = payload.get('input') or {}
    if inp.get('op') == 'shard':
        pr = inp['params']
        run_shard_case(ctx, unj(inp['dag']), inp['roots'], bytes.fromhex(inp['blk_hash']), inp.get('kind', 'replay'),
                       (pr[0], pr[1], pr[2], pr[3], pr[4], list(pr[5])), expect=inp.get('expect'))
        return
    if inp.get('op') == 'proof-boc':
        from pytoniq_core.boc.cell import Cell
        ctx.case(('stored-hash-forgery', inp['boc']))
        try:
            got = lib_verdict_proof(Cell.one_from_boc(bytes.fromhex(inp['boc'])), bytes.fromhex(inp['hash']))
        except Exception:
            got = 'rej'
        if got != 'rej':
            ctx.fail('sound:stored-hashes', 'forged proof bag with stored genuine hashes accepted (replay)', inp, got, 'rej')
        return
    if inp.get('op') == 'proof':
        nodes = unj(inp['dag'])
        run_proof_case(ctx, nodes, inp['idx'], bytes.fromhex(inp['hash']), inp.get('expect'), inp.get('key', 'replay'), inp.get('what', 'replay'),
                       mut=inp.get('mutation'), hdr_idx=inp.get('hdr_idx'), hdr_expect=inp.get('hdr_expect'))
    elif inp.get('op') == 'hdr':
        nodes = unj(inp['dag'])
        libs = G.lib_build(nodes)
        h = bytes.fromhex(inp['hash'])
        goth = lib_verdict_hdr(libs[inp['idx']], h)
        ctx.case(('replay-hdr', tuple(nodes), h))
        if inp.get('expect') is not None and goth != inp['expect']:
            ctx.fail(inp.get('key', 'replay'), 'check_block_header_proof verdict differs from the expectation', inp, goth, inp['expect'])
        if inp.get('allowed') is not None and goth not in inp['allowed']:
            ctx.fail(inp.get('key', 'replay'), 'check_block_header_proof returned a state hash the block does not commit to as new state', inp, goth, ' | '.join(inp['allowed']))
        ctx.expect_model(f'chkhdr {dag_str(nodes)} {inp["idx"]} {hx(h)}', goth, 'replay')
    elif inp.get('op') == 'acct-falsy':
        run_account_falsy_case(ctx, unj(inp['dag']), inp['roots'], bytes.fromhex(inp['blk_hash']), int(inp['addr'], 16), inp['claim'], inp['sroot_idx'],
                               inp.get('key', 'replay'), inp.get('what', 'replay'))
    elif inp.get('op') == 'walk':
        run_walk_case(ctx, unj(inp['dag']), inp['idx'], bytes.fromhex(inp['addr']), inp.get('key', 'replay'))
    elif inp.get('op') == 'acct':
        run_account_case(ctx, unj(inp['dag']), inp['roots'], bytes.fromhex(inp['blk_hash']), int(inp['addr'], 16), inp['state_idx'],
                         inp.get('expect'), inp.get('key', 'replay'), inp.get('what', 'replay'))


# round 11 (st-proof): SPEC additions for update_children_stream / falsy_stream
SPEC['manifest']['text'] += (' FORGED MERKLE-UPDATE CHILDREN (sampled, every run): for honest block proofs whose state update names two real shard states, the old-state '
                             'and the new-state child are replaced by pruned branches of every mask 1..7 whose stored hashes / depths are drawn from the hashes occurring '
                             'in the proof (old state, new state, block, the honest children\'s own hashes; all tuples for three blocks, all tuples that keep the block '
                             'hash for the others): check_block_header_proof(.., True) must hand out the hash the block commits to as NEW state or raise, and '
                             'check_account_proof with the forged header + an honest proof of the OLD state + the old account must raise. FALSY ARGUMENTS: '
                             'account_state_root (and every other argument of the three entry points) set to None / False / 0 / empty values against honest proofs '
                             'with the account revealed, its dictionary branch pruned at every depth of the path, and the address absent with the path revealed; '
                             'an acceptance is judged by an independent three-valued lookup (found / absent / hidden) on the state cell of the proof.')
SPEC['rule'] += ('; forged Merkle-update children: pruned branches of every mask with stored hashes from the proof\'s own hash set in place of the old / new state child, '
                 'header verdict in {reject, new-state hash}, stale account state end to end; falsy arguments of the entry points against honest proofs with the '
                 'account branch revealed / pruned at every depth / absent')
