"""C20: ADNL channel crypto is symmetric between peers; signing helpers and mnemonic/key derivation are consistent.

PARTIAL proof: the primitives (X25519, Ed25519, AES-CTR, SHA-256, HMAC, PBKDF2) are parameters of the Lean model and
enter the theorems through algebraic laws taken as hypotheses.  This harness (a) evaluates the property statement
itself on the real library with both real peers, (b) compares the library with an independent transcription of the
ADNL channel format written directly on libsodium / pycryptodome / hashlib, (c) ties the structural part of the model
(ordering decision, key reversal, key/iv slices, packet head, [:64] slicing, validity test, generator retry loop) to the
library by feeding REAL intermediate values (shared secret, checksums, PBKDF2 outputs, the os.urandom stream) to the driver.
"""
import hashlib
import hmac as _hmac

from Cryptodome.Cipher import AES
from nacl.bindings import (crypto_scalarmult, crypto_sign, crypto_sign_ed25519_pk_to_curve25519,
                           crypto_sign_ed25519_sk_to_curve25519, crypto_sign_seed_keypair)
from nacl.signing import VerifyKey

from harness.translate import adnlsrc, arith_adnl

MAGIC_AES = bytes.fromhex('d4adbc2d')
MAGIC_KEY = bytes.fromhex('c6b41348')

SPEC = dict(
    manifest=dict(
        category='proof',
        text='PARTIAL. Lean proves, for all seeds, ids (local>peer, local<peer, equal) and plaintexts, that the model of AdnlChannel makes the '
             "two peers' channels inverse in both directions, that each packet is <key id the peer expects> || SHA-256(plaintext) || body of equal "
             'length, that the cipher is built from key[0:16]||sum[16:32], sum[0:4]||key[20:32] exactly when both have >= 32 bytes, that '
             'sign_message/Client.sign return a 64-byte signature accepted by verify_sign under the matching public key, and that every list '
             'returned by the model of mnemonic_new() passes mnemonic_is_valid (derivations are pure functions; wallet key = private key). '
             'The cryptographic primitives (X25519, Ed25519<->Curve25519 maps, AES-256-CTR, SHA-256, Ed25519 sign/verify, HMAC-SHA512, PBKDF2) are '
             'NOT verified: they are parameters and their algebraic laws (DH commutativity, CTR involution + length, signature correctness, digest '
             'lengths) are hypotheses, shown satisfiable by toy primitives (CTR involution is alternatively derived from "output = input xor key stream"). Rejection of altered message/key/signature (unforgeability) is only '
             'tested. The real library is exercised with both real peers and against an independent libsodium/pycryptodome transcription (plaintexts of 0..4096 bytes '
             'and of every length around the sizes the current source mentions - L-1, L, L+1, 2L, 3L, L +- block, the multiples of each block size above L - up to 4 MiB).'
             ' SOURCE TIE: the glue code itself is REGENERATED from the Python source on every run (Generated/AdnlSrc.lean): Client / Server / '
             'AdnlChannel.__init__ (key conversions, shared key, the three-way id comparison, [::-1]), get_key_aes_id, '
             'create_aes_ctr_sipher_from_key_n_data + create_aes_ctr_cipher (slice bounds, 32-byte guard, AES.new argument check), encrypt / decrypt '
             '(checksum over the plaintext, key id || checksum || body), get_signature / Client.sign, get_key_id, verify_sign, sign_message, '
             'is_basic_seed, mnemonic_to_entropy, mnemonic_is_valid, mnemonic_to_seed / _private_key / _wallet_key - and Lean proves for ALL inputs and '
             'ALL instantiations of the primitives that each regenerated function equals its hand model (Proofs/SrcAdnl.lean); c20_src_symmetric, '
             'c20_src_channel_keys, c20_src_cipher, c20_src_sign, c20_src_mnemonic restate the property theorems over the regenerated functions. '
             'The two `while True` functions are regenerated AS A WHOLE too (translator pyrand.py: the os.urandom answers are an arbitrary stream '
             'parameter, each loop is a fuelled recursion, Python float arithmetic is a declared interface Py.FloatIf): c20_src_mnemonic_new - every '
             'list the regenerated mnemonic_new() returns (24 words, any stream, any float interface, any budget) gets True from the regenerated '
             'mnemonic_is_valid, has 24 list words, and the derivations do not raise on it; c20_src_mnemonic_fuel - the result does not depend on the '
             'budget once it is returned; c20_src_random_range - a value returned by the regenerated get_secure_random_number(min, max) lies in '
             '[min, max) for all ints, every stream and every float interface with int(math.pow(2, b) - 1) >= 0 (only the integer rejection test and '
             '`&` with a non-negative mask are used; uniformity is not claimed - math.ceil(math.log2(2**49 + 1)) is 49 in CPython); '
             'c20_src_client_ids - Crypto.get_key_id / get_aes_key_id. Still pass-throughs, tested only: private_key_to_public_key, get_random, '
             'generate_ed25519_private_key.',
        level_note='Trusted: Lean kernel (propext, Classical.choice, Quot.sound); the translator harness/translate/pyprims.py (+ pyobj / pybytes / '
                   'pyarith) with the declared interface of adnlsrc.py - which library call is which primitive of Prims, a key object = the bytes it '
                   'encodes to, a cipher object = (key, counter), AES.new raises unless key 16/24/32 and counter 16 bytes, `<` on bytes = Py.bytesLt - '
                   'validated on every change by running the source under CPython with computable toy primitives against Lean evaluation of the '
                   'regenerated definitions (469 boundary cases) and against the real nacl / pycryptodomex objects; the float interface Py.FloatIf '
                   'of PyRand.lean (its exact reading Py.intFloat is what validation compares with CPython: ranges up to 2^47, 215 stream cases) and '
                   'Py.intAnd / Py.urandom? / Py.ceilDivI; Model/Adnl.lean for get_secure_random_number / mnemonic_new only as the reference of the search '
                   'hook and of the sampled correspondence on recorded os.urandom streams; the stated laws of the primitives '
                   '(tested on every case, not proved); PyNaCl/libsodium, pycryptodomex, x25519, hashlib, hmac; the Python harness. Sampled only: all '
                   'rejection cases of signatures, validity of real generated mnemonics (10 quick / 50 thorough), float arithmetic inside '
                   'get_secure_random_number.',
        technique='Lean 4 proof over a model with primitives as parameters (laws as hypotheses); glue code regenerated from source by a translator and '
                  'proved equal to the model for all inputs + differential correspondence + direct property oracle',
    ),
    translators=[('ciphers.py + signature.py + keys.py glue->Generated/AdnlSrc.lean', adnlsrc.regenerate),
                 ('keys.py generator decision lines->Generated/MnemonicNew.lean', arith_adnl.regenerator('MnemonicNew'))],
    lean_targets=['TonVerif.Proofs.SrcAdnl', 'TonVerif.Proofs.SrcAdnlLoop'],
    design_ref='DESIGN.md §6 C20',
    rule='plaintexts that are / begin with / contain every identifier the sending channel derives (aes key ids, key ids, public keys, keys, bytes attributes of the library objects, source bytes literals) on natural / swapped / equal / self channels, both directions; channel case = (seed a, seed b, id variant: natural/swapped/equal/prefix/empty, plaintext length 0..4096 incl. block boundaries), both directions; '
         'plaintext lengths around every int literal of the current ciphers.py / signature.py / keys.py (and the powers of two next to it) up to 4 MiB; self channel a=b; cipher-guard case = (key length, data length) around 16/20/32; sign case = (seed, message, one alteration of message/key/signature); '
         'mnemonic case = one mnemonic_new() output (validated, derived twice, compared with hashlib/libsodium) or one recorded os.urandom stream; '
         'distinct = distinct inputs; non-trivial = plaintext/message non-empty or structural case',
    trusted_base=['Generated/AdnlSrc.lean is regenerated from ciphers.py / signature.py / keys.py by pyprims.py under the declared interface of adnlsrc.py '
                  '(validated against CPython with toy primitives); get_secure_random_number / mnemonic_new by pyrand.py with the random stream and the float '
                  'arithmetic as parameters (Py.FloatIf: declared interface); Model/Adnl.lean mirrors them by hand for the sampled correspondence',
                  'ChannelLaws, SignLaw (Proofs/Adnl.lean) are HYPOTHESES about the primitives; tested, not proved',
                  'libsodium (PyNaCl), pycryptodomex AES-CTR, x25519, hashlib, hmac'],
    assumptions=['X25519 is commutative; Ed25519->Curve25519 conversion commutes with taking the public key; AES-CTR is a length-preserving involution',
                 'Ed25519 signatures are correct (proved use) and unforgeable (tested use only)',
                 'correspondence is sampled differential testing of model vs library'],
)


def sha(b):
    return hashlib.sha256(b).digest()


def hx(b):
    return b.hex() or '-'


def call(f, *a):
    try:
        return f(*a)
    except Exception:
        return None


# --------------------------------------------------------------------------- independent reference channel

class RefChannel:
    """ADNL channel written from the protocol description on libsodium + pycryptodome (no repo code)."""

    def __init__(self, seed_local, pub_peer, local_id, peer_id):
        _, sk = crypto_sign_seed_keypair(seed_local)
        self.shared = crypto_scalarmult(crypto_sign_ed25519_sk_to_curve25519(sk), crypto_sign_ed25519_pk_to_curve25519(pub_peer))
        if local_id > peer_id:
            self.enc, self.dec = self.shared, self.shared[::-1]
        elif local_id < peer_id:
            self.enc, self.dec = self.shared[::-1], self.shared
        else:
            self.enc = self.dec = self.shared

    @staticmethod
    def aes(key, sum_, data):
        return AES.new(key[0:16] + sum_[16:32], AES.MODE_CTR, initial_value=sum_[0:4] + key[20:32], nonce=b'').encrypt(data)

    def encrypt(self, m):
        s = sha(m)
        return sha(MAGIC_AES + self.enc) + s + self.aes(self.enc, s, m)

    def decrypt(self, body, s):
        return self.aes(self.dec, s, body)


def aes_ctr(k, iv, data):
    return AES.new(k, AES.MODE_CTR, initial_value=iv, nonce=b'').encrypt(data)


# --------------------------------------------------------------------------- channel

LENS = [0, 1, 2, 15, 16, 17, 31, 32, 33, 47, 48, 63, 64, 65, 127, 128, 255, 256, 257, 1000, 1024, 4095, 4096]


def ordering(l, p):
    return 'local>peer' if l > p else 'local<peer' if l < p else 'equal'


def check_channel(ctx, a, b, ida, idb, msgs, tag, model_max=8192):
    from pytoniq_core.crypto.ciphers import Client, Server, AdnlChannel
    inp0 = {'kind': 'channel', 'a': a.hex(), 'b': b.hex(), 'ida': ida.hex(), 'idb': idb.hex(), 'tag': tag}
    ca, cb = Client(a), Client(b)
    pa, pb = ca.ed25519_public.encode(), cb.ed25519_public.encode()
    A = AdnlChannel(ca, Server('', 0, pb), ida, idb)
    B = AdnlChannel(cb, Server('', 0, pa), idb, ida)
    RA, RB = RefChannel(a, pb, ida, idb), RefChannel(b, pa, idb, ida)
    lines, after = [], []
    for name, X, Y, RX, RY, lid, pid in (('A->B', A, B, RA, RB, ida, idb), ('B->A', B, A, RB, RA, idb, ida)):
        od = ordering(lid, pid)
        ctx.count(f'channel:{od}')
        # structural correspondence of __init__ on the real shared secret (attribute names are not part of the property:
        # if a refactor hides them, fall back to the reference values and say so)
        xs = getattr(X, 'channel_shared', None)
        ys = getattr(Y, 'channel_shared', None)
        attrs = [getattr(X, n, None) for n in ('enc_key', 'dec_key', 'client_aes_key_id', 'server_aes_key_id')]
        if xs is not None and all(v is not None for v in attrs):
            ctx.expect_model(f'adnl_chan {hx(xs)} {hx(lid)} {hx(pid)}', f'ok {hx(attrs[0])} {hx(attrs[1])} {attrs[2].hex()} {attrs[3].hex()}', f'channel init {od}')
        elif 'channel attributes not readable; init correspondence skipped' not in ctx.notes:
            ctx.notes.append('channel attributes not readable; init correspondence skipped')
        if xs is not None and ys is not None and (xs != RX.shared or xs != ys):
            ctx.fail(f'shared:{od}', 'the two ends (or the libsodium reference) derive different shared secrets', inp0,
                     {'lib': xs.hex(), 'peer': ys.hex(), 'ref': RX.shared.hex()})
        expected_kid = getattr(Y, 'server_aes_key_id', None) or sha(MAGIC_AES + RY.dec)
        srv = Server('', 0, pb if X is A else pa)
        if call(srv.get_key_id) != sha(MAGIC_KEY + (pb if X is A else pa)):
            ctx.fail('keyid-server:', 'Server.get_key_id != sha256(c6b41348 || pub)', inp0)
        for item in msgs:
            if isinstance(item, tuple):
                # a LARGE plaintext, named by (seed, length) so that the replay file stays small
                m = big_plaintext(*item)
                inp = dict(inp0, direction=name, m_seed=item[0], m_len=item[1])
                mdesc = ('seeded', item[0], item[1])
            else:
                m = item
                inp = dict(inp0, direction=name, m=m.hex())
                mdesc = m
            ctx.case(('chan', a, b, ida, idb, name, mdesc), nontrivial=len(m) > 0,
                     sample={'kind': 'channel', 'ordering': od, 'len': len(m), 'direction': name, 'tag': tag})
            ctx.count(f'len<{1 << max(len(m) - 1, 0).bit_length()}' if m else 'len=0')
            pkt = call(X.encrypt, m)
            if pkt is None:
                ctx.fail(f'encrypt-raised:{od}', 'encrypt raised', inp, 'exception', 'packet')
                continue
            kid, cs, body = pkt[:32], pkt[32:64], pkt[64:]
            if kid != expected_kid:
                ctx.fail(f'keyid:{od}', 'packet key id is not the id the peer expects (peer.server_aes_key_id)', inp, kid.hex(), expected_kid.hex())
            if cs != sha(m):
                ctx.fail(f'checksum:{od}', 'packet checksum is not SHA-256 of the plaintext', inp, cs.hex(), sha(m).hex())
            if len(body) != len(m):
                ctx.fail(f'length:{od}', 'ciphertext length differs from plaintext length', inp, len(body), len(m))
            back = call(Y.decrypt, body, cs)
            if back != m:
                ctx.fail(f'roundtrip:{od}', "peer's channel does not decrypt what this channel encrypted", inp,
                         f'{len(back)} bytes: ' + back.hex()[:200] if back is not None else 'exception', f'{len(m)} bytes: ' + m.hex()[:200])
            ref = RX.encrypt(m)
            if pkt != ref or RY.decrypt(body, cs) != m:
                ctx.fail(f'interop:{od}', 'packet differs from the independent ADNL reference (libsodium X25519, AES-256-CTR key = k[0:16]||sum[16:32], '
                         'iv = sum[0:4]||k[20:32], head = sha256(d4adbc2d||k) || sha256(m))', inp, pkt.hex()[:300], ref.hex()[:300])
            elif ctx.driver_ok and len(m) <= model_max:      # the driver hashes in Lean: small plaintexts only
                lines.append(f'adnl_packet {hx(RX.shared)} {hx(lid)} {hx(pid)} {hx(m)}')
                after.append(('enc', pkt, m, od))
                lines.append(f'adnl_dec {hx(RY.shared)} {hx(pid)} {hx(lid)} {cs.hex()}')
                after.append(('dec', body, m, od))
        # traffic on ONE channel object: the same plaintext sent again, packets duplicated / dropped / reordered on the way -
        # every packet is a function of (keys, plaintext) only and every delivered packet decrypts to its plaintext
        small = [x for x in msgs if isinstance(x, bytes)]
        if small:
            rng = ctx.rng
            m1, m2 = small[0], small[-1]
            sent = [m1, m1, m2, m1, m1, b'', b'', m2]
            pkts = [call(X.encrypt, m) for m in sent]
            for k, (m, pkt) in enumerate(zip(sent, pkts)):
                if pkt is None or pkt != RX.encrypt(m):
                    ctx.fail(f'traffic-encrypt:{od}', f'packet {k} of a sequence with repeated plaintexts is not the packet of its plaintext '
                             '(the channel remembers something between calls)', dict(inp0, direction=name, sent=[x.hex()[:40] for x in sent], k=k),
                             pkt.hex()[:200] if pkt else 'exception', RX.encrypt(m).hex()[:200])
                    break
            else:
                delivery = [0, 0, 1, 3, 2, 2, 7, 5, 5, 4]          # duplicates, a drop (6), reordering
                for k in delivery:
                    back = call(Y.decrypt, pkts[k][64:], pkts[k][32:64])
                    ctx.count('traffic-delivery')
                    if back != sent[k]:
                        ctx.fail(f'traffic-decrypt:{od}', f'delivered packet {k} (delivery order {delivery}: duplicates, one drop, reordering) does not '
                                 'decrypt to its plaintext', dict(inp0, direction=name, sent=[x.hex()[:40] for x in sent], k=k),
                                 back.hex()[:200] if back is not None else 'exception', sent[k].hex()[:200])
                        break
    if lines:
        outs = ctx.model.run(lines)
        for line, out, (kind, data, m, od) in zip(lines, outs, after):
            ws = out.split()
            good = False
            if kind == 'enc' and len(ws) == 4 and ws[0] == 'ok':
                good = ws[1] == data[:64].hex() and aes_ctr(bytes.fromhex(ws[2]), bytes.fromhex(ws[3]), m) == data[64:]
            elif kind == 'dec' and len(ws) == 3 and ws[0] == 'ok':
                good = aes_ctr(bytes.fromhex(ws[1]), bytes.fromhex(ws[2]), data) == m
            if not good:
                ctx.corr_broken(f'model {kind}rypt parameters do not reproduce the library ({od}): request={line[:200]} answer={out[:200]}')


def big_plaintext(seed, n):
    import random
    return random.Random(seed).randbytes(n)


ADNL_FILES = ['pytoniq_core/crypto/ciphers.py', 'pytoniq_core/crypto/signature.py', 'pytoniq_core/crypto/keys.py']
SIZE_CAP = (4 << 20) + 64


def source_sizes():
    """Round 10 class: plaintext / message lengths around every size the CURRENT source mentions (int literals and folded int expressions
    of ciphers.py / signature.py / keys.py, the powers of two next to them): L-1, L, L+1, 2L, 3L, L +- block and the multiples of each
    block size at and above L (block sizes: 16 = AES, and the small ints of the source), capped at 4 MiB."""
    from harness.gen.literals import source_literals, size_candidates
    ints = source_literals(ADNL_FILES).ints
    blocks = sorted({16} | {v for v in ints if 8 <= v <= 64})
    return size_candidates(ints, blocks=blocks, cap=SIZE_CAP, min_size=8)


def source_size_cases(ctx):
    rng = ctx.rng
    sizes = source_sizes()
    ctx.count('source-sizes', len(sizes))
    ctx.count('source-sizes>64KiB', len([n for n in sizes if n > 65536]))
    a, b = rng.randbytes(32), rng.randbytes(32)
    ka, kb = sha(MAGIC_KEY + crypto_sign_seed_keypair(a)[0]), sha(MAGIC_KEY + crypto_sign_seed_keypair(b)[0])
    mseed = rng.randrange(1 << 32)
    check_channel(ctx, a, b, ka, kb, [(mseed + i, n) for i, n in enumerate(sizes)], 'source-sizes', model_max=1100)
    # the signing helpers on messages of these lengths (up to 128 KiB; sign_message slices sig || msg)
    for n in [n for n in sizes if n <= 4200] if ctx.thorough else rng.sample([n for n in sizes if n <= 4200], 12):
        check_sign(ctx, rng.randbytes(32), rng.randbytes(n), rng.randbytes(32))
    for n in rng.sample([n for n in sizes if 4200 < n <= 1 << 17] or [4201], 3):
        check_sign(ctx, rng.randbytes(32), rng.randbytes(n), rng.randbytes(32))


def derived_identifiers(a, b, ida, idb):
    """every byte string the two ends of a channel DERIVE (independently, from the protocol description: libsodium + hashlib, no repo code) plus
    every bytes-valued attribute the library's channel / client / server objects hold, plus the bytes literals of the current source:
    {name: bytes}.  These are the values a payload that quotes / echoes / forwards protocol data begins with."""
    from pytoniq_core.crypto.ciphers import Client, Server, AdnlChannel
    from harness.gen.literals import source_literals
    pa, pb = crypto_sign_seed_keypair(a)[0], crypto_sign_seed_keypair(b)[0]
    RA, RB = RefChannel(a, pb, ida, idb), RefChannel(b, pa, idb, ida)
    out = {}
    for n, R in (('A', RA), ('B', RB)):
        out[f'{n}.enc-key'] = R.enc
        out[f'{n}.dec-key'] = R.dec
        out[f'{n}.enc-aes-key-id'] = sha(MAGIC_AES + R.enc)
        out[f'{n}.dec-aes-key-id'] = sha(MAGIC_AES + R.dec)
    out.update({'A.pub': pa, 'B.pub': pb, 'A.key-id': sha(MAGIC_KEY + pa), 'B.key-id': sha(MAGIC_KEY + pb), 'A.local-id': ida, 'B.local-id': idb,
                'A.seed': a, 'B.seed': b, 'sha256-empty': sha(b'')})
    try:
        ca, cb = Client(a), Client(b)
        objs = [('libA', AdnlChannel(ca, Server('', 0, pb), ida, idb)), ('libB', AdnlChannel(cb, Server('', 0, pa), idb, ida)), ('libClientA', ca), ('libClientB', cb)]
        for n, o in objs:
            for k, v in sorted(vars(o).items()):
                if isinstance(v, (bytes, bytearray)) and len(v) >= 4:
                    out[f'{n}.{k}'] = bytes(v)
    except Exception:
        pass
    for i, lit in enumerate(source_literals(ADNL_FILES).bytes):
        if lit:
            out[f'source-literal-{i}'] = lit
    # one entry per distinct value (first name wins)
    seen, uniq = set(), {}
    for k, v in out.items():
        if v and v not in seen:
            seen.add(v)
            uniq[k] = v
    return uniq


def identifier_plaintexts(rng, ident):
    """plaintexts that ARE / begin with / contain at offset 1 / end with the identifier, followed by 0-bytes, 1-bytes, random bytes (lengths that make
    the whole thing shorter than, equal to and longer than a packet head of 64 bytes), the identifier twice, and its near misses (one byte short,
    last bit flipped) - the same for every identifier."""
    z = len(ident)
    out = [ident, ident + bytes(1), ident + bytes(32), ident + b'\x01' * 33, ident + rng.randbytes(1), ident + rng.randbytes(31), ident + rng.randbytes(32),
           ident + rng.randbytes(rng.randrange(33, 200)), ident + ident, ident + sha(ident) + rng.randbytes(rng.randrange(0, 64)),
           rng.randbytes(1) + ident + rng.randbytes(rng.randrange(0, 64)), rng.randbytes(rng.randrange(2, 64)) + ident,
           ident[:-1] + bytes([ident[-1] ^ 1]) + rng.randbytes(40)]
    if z > 1:
        out += [ident[:-1], ident[1:] + rng.randbytes(40)]
    return out


def identifier_cases(ctx):
    """Round 11 class: plaintexts that begin with / contain PROTOCOL CONSTANTS and KEY-DERIVED IDENTIFIERS of the very channel that sends them
    (aes key ids of both directions, key ids and public keys of both peers, the keys themselves, every bytes attribute the library's objects hold,
    the bytes literals of the source) - both directions, both id orderings, equal ids and the self channel; same oracle as every channel case."""
    rng = ctx.rng
    for variant in ('natural', 'swapped', 'equal', 'self'):
        a, b = rng.randbytes(32), rng.randbytes(32)
        if variant == 'self':
            b = a
        ka, kb = sha(MAGIC_KEY + crypto_sign_seed_keypair(a)[0]), sha(MAGIC_KEY + crypto_sign_seed_keypair(b)[0])
        ida, idb = {'natural': (ka, kb), 'swapped': (kb, ka), 'equal': (ka, ka), 'self': (ka, ka)}[variant]
        ids = derived_identifiers(a, b, ida, idb)
        ctx.count('identifiers', len(ids))
        msgs = []
        for name, ident in ids.items():
            ms = identifier_plaintexts(rng, ident)
            ctx.count('identifier-plaintexts', len(ms))
            msgs += ms
        check_channel(ctx, a, b, ida, idb, msgs, 'identifiers-' + variant, model_max=80)


def channel_cases(ctx):
    rng = ctx.rng
    npairs = ctx.n(24, 160)
    for i in range(npairs):
        a, b = rng.randbytes(32), rng.randbytes(32)
        ka, kb = sha(MAGIC_KEY + crypto_sign_seed_keypair(a)[0]), sha(MAGIC_KEY + crypto_sign_seed_keypair(b)[0])
        variant = ['natural', 'natural', 'swapped', 'equal', 'prefix', 'empty', 'self', 'first-byte'][i % 8]
        if variant == 'natural':
            ida, idb = ka, kb
        elif variant == 'swapped':
            ida, idb = kb, ka
        elif variant == 'equal':
            ida = idb = ka
        elif variant == 'prefix':
            ida, idb = ka, ka[:rng.randrange(0, 32)]
        elif variant == 'empty':
            ida, idb = b'', rng.choice([b'', b'\x00'])
        elif variant == 'first-byte':
            ida, idb = bytes([0x7f]) + ka[1:], bytes([0x80]) + ka[1:]      # unsigned comparison of bytes
        else:
            b = a
            ida = idb = ka
        lens = rng.sample(LENS, ctx.n(6, 10)) + [rng.randrange(0, 4097) for _ in range(ctx.n(2, 6))]
        if i < 2:
            lens = LENS
        msgs = [rng.randbytes(n) for n in lens]
        check_channel(ctx, a, b, ida, idb, msgs, variant)


# --------------------------------------------------------------------------- cipher guard

def check_cipher(ctx, key, data):
    from pytoniq_core.crypto.ciphers import create_aes_ctr_sipher_from_key_n_data
    ctx.case(('cipher', key, data), nontrivial=True, sample=None)
    ctx.count('cipher-guard')
    c = call(create_aes_ctr_sipher_from_key_n_data, key, data)
    want_ok = len(key) >= 32 and len(data) >= 32
    probe = bytes(48)
    inp = {'kind': 'cipher', 'key': key.hex(), 'data': data.hex()}
    if (c is not None) != want_ok:
        ctx.fail(f'cipher-guard:{len(key)}/{len(data)}', 'cipher construction succeeds/fails against the 32-byte guard', inp,
                 'ok' if c is not None else 'raises', 'ok' if want_ok else 'raises')
        return
    if c is None:
        ctx.expect_model(f'adnl_cipher {hx(key)} {hx(data)}', 'err', 'cipher guard')
        return
    got = c.encrypt(probe)
    ref = RefChannel.aes(key, data, probe)
    if got != ref:
        ctx.fail(f'cipher-slices:{len(key)}/{len(data)}', 'cipher key/iv are not key[0:16]||data[16:32], data[0:4]||key[20:32]', inp, got.hex(), ref.hex())
    ctx.expect_model(f'adnl_cipher {hx(key)} {hx(data)}', f'ok {(key[0:16] + data[16:32]).hex()} {(data[0:4] + key[20:32]).hex()}', 'cipher params')


def cipher_cases(ctx):
    rng = ctx.rng
    for kl in (0, 15, 16, 19, 20, 21, 31, 32, 33, 40):
        for dl in (0, 3, 4, 16, 31, 32, 33, 64):
            check_cipher(ctx, rng.randbytes(kl), rng.randbytes(dl))


# --------------------------------------------------------------------------- signatures

def check_sign(ctx, seed, m, alt_seed):
    from pytoniq_core.crypto.signature import sign_message, verify_sign
    from pytoniq_core.crypto.ciphers import Client, get_signature
    from pytoniq_core.crypto.keys import private_key_to_public_key
    rng = ctx.rng
    pk, sk = crypto_sign_seed_keypair(seed)
    inp = {'kind': 'sign', 'seed': seed.hex(), 'm': m.hex(), 'alt_seed': alt_seed.hex()}
    ctx.case(('sign', seed, m), nontrivial=len(m) > 0, sample={'kind': 'sign', 'len': len(m)})
    ctx.count('sign')
    sig = call(sign_message, m, sk)
    if sig is None or len(sig) != 64:
        ctx.fail('sign-length:', 'sign_message did not return 64 bytes', inp, sig.hex() if sig else 'exception', '64 bytes')
        return
    ctx.expect_model(f'sign_slice {hx(crypto_sign(m, sk))}', f'ok {sig.hex()}', 'sign_message slicing')
    # the optional encoder only re-encodes the 64 signature bytes
    import nacl.encoding as _enc
    for name, encoder in (('HexEncoder', _enc.HexEncoder), ('Base64Encoder', _enc.Base64Encoder), ('URLSafeBase64Encoder', _enc.URLSafeBase64Encoder),
                          ('Base32Encoder', _enc.Base32Encoder), ('RawEncoder', _enc.RawEncoder)):
        es = call(sign_message, m, sk, encoder)
        ctx.count('sign-encoder:' + name)
        try:
            dec = encoder.decode(es) if es is not None else None
        except Exception:
            dec = None
        if dec != sig:
            ctx.fail('sign-encoder:' + name, f'sign_message(..., encoder={name}) is not the {name} encoding of the 64-byte signature (it does not verify once decoded)',
                     dict(inp, encoder=name), es.hex()[:160] if isinstance(es, bytes) else repr(es), encoder.encode(sig).hex()[:160])
    if call(verify_sign, pk, m, sig) is not True:
        ctx.fail('sign-complete:helper', 'verify_sign rejects the signature made by sign_message under the matching key', inp, 'False/raise', 'True')
    try:
        VerifyKey(pk).verify(m, sig)
    except Exception:
        ctx.fail('sign-complete:libsodium', 'libsodium rejects the signature made by sign_message', inp, 'rejected', 'accepted')
    cl = Client(seed)
    if call(cl.sign, m) != sig or call(get_signature, cl.ed25519_private, m) != sig:
        ctx.fail('sign-client:', 'Client.sign / get_signature differ from sign_message', inp, None, sig.hex())
    if cl.ed25519_public.encode() != pk or private_key_to_public_key(sk) != pk:
        ctx.fail('sign-pub:', 'public key of Client / private_key_to_public_key differs from crypto_sign_seed_keypair', inp, None, pk.hex())
    if cl.get_key_id() != sha(MAGIC_KEY + pk):
        ctx.fail('keyid-client:', 'get_key_id != sha256(c6b41348 || pub)', inp, cl.get_key_id().hex(), sha(MAGIC_KEY + pk).hex())
    # rejection (TESTED only): other message, other key, altered signature
    pk2, _ = crypto_sign_seed_keypair(alt_seed)
    alts = []
    if m:
        j = rng.randrange(len(m) * 8)
        m2 = bytearray(m); m2[j // 8] ^= 1 << (j % 8)
        alts += [('message-bit', pk, bytes(m2), sig), ('message-truncated', pk, m[:-1], sig)]
    alts += [('message-extended', pk, m + b'\x00', sig), ('other-key', pk2, m, sig)]
    for _ in range(3):
        j = rng.randrange(512)
        s2 = bytearray(sig); s2[j // 8] ^= 1 << (j % 8)
        alts.append((f'signature-bit', pk, m, bytes(s2)))
    alts += [('signature-truncated', pk, m, sig[:63]), ('signature-extended', pk, m, sig + b'\x00'), ('signature-zero', pk, m, bytes(64))]
    # the boundary between signature and message moved: (sig || m[:k], m[k:]) and the splice the other way round (a genuine
    # signature over X||m followed by X) - "another message / an altered signature" even though sig||msg is the same byte string
    if len(m) >= 1:
        k = 1 + rng.randrange(len(m))
        alts.append(('boundary-shift', pk, m[k:], sig + m[:k]))
    x = rng.randbytes(1 + rng.randrange(8))
    sx = call(sign_message, x + m, sk)
    if sx is not None:
        alts.append(('boundary-splice', pk, m, sx + x))
    # a signature that verified once for m must not verify for another message afterwards (nothing is remembered per key/signature)
    alts.append(('replayed-for-other-message', pk, m + b'!', sig))
    alts.append(('replayed-for-empty-message', pk, b'' if m else b'x', sig))
    for what, k, mm, ss in alts:
        ctx.case(('sign-alt', seed, m, what, k, mm, ss), nontrivial=True, sample=None)
        ctx.count(f'sign-reject:{what}')
        if call(verify_sign, k, mm, ss) is True:
            ctx.fail(f'sign-reject:{what}', f'verify_sign accepts after alteration ({what})', dict(inp, alt=what, key=k.hex(), msg=mm.hex(), sig=ss.hex()), 'True', 'False')


def sign_cases(ctx):
    from pytoniq_core.crypto.ciphers import Client
    rng = ctx.rng
    fresh = [call(Client.generate_ed25519_private_key) for _ in range(8)]
    ctx.case(('fresh-keys',), nontrivial=True, sample=None)
    if any(k is None or len(k) != 32 for k in fresh) or len(set(fresh)) != len(fresh):
        ctx.fail('fresh-key:', 'generate_ed25519_private_key did not return distinct 32-byte seeds', {'kind': 'fresh-keys'},
                 [k.hex() if k else None for k in fresh])
    else:
        for k in fresh[:2]:          # a fresh seed works as a client key: sign + verify, channel to itself
            check_sign(ctx, k, b'fresh key', rng.randbytes(32))
    for i in range(ctx.n(60, 600)):
        n = rng.choice([0, 1, 2, 31, 32, 33, 64, 100, 1000, rng.randrange(0, 2049)])
        check_sign(ctx, rng.randbytes(32), rng.randbytes(n), rng.randbytes(32))


# --------------------------------------------------------------------------- mnemonics

def ref_entropy(ws):
    return _hmac.new(' '.join(ws).encode('utf-8'), b'', hashlib.sha512).digest()


def ref_basic_output(ws):
    return hashlib.pbkdf2_hmac('sha512', ref_entropy(ws), b'TON seed version', 390)


def ref_valid(ws):
    return len(ws) == 24 and ref_basic_output(ws)[0] == 0


def ref_wallet_key(ws):
    seed = hashlib.pbkdf2_hmac('sha512', ref_entropy(ws), b'TON default seed', 100000)
    return crypto_sign_seed_keypair(seed[:32])


def check_validity(ctx, ws, tag):
    from pytoniq_core.crypto import keys as K
    inp = {'kind': 'mnemonic-valid', 'words': list(ws), 'tag': tag}
    ctx.case(('mn-valid', tuple(ws)), nontrivial=True, sample=None)
    ctx.count(f'mnemonic-validity:{tag}')
    got = call(K.mnemonic_is_valid, list(ws))
    want = ref_valid(ws)
    if got is not want:
        ctx.fail(f'mnemonic-validity:{tag}', 'mnemonic_is_valid differs from len==24 and PBKDF2(HMAC-SHA512(words),"TON seed version",390)[0]==0', inp, got, want)
    ctx.expect_model(f'mn_valid {len(ws)} {ref_basic_output(ws).hex()}', 'ok 1' if got else 'ok 0', f'mnemonic_is_valid {tag}')


def check_generated(ctx, ws, derive=True):
    from pytoniq_core.crypto import keys as K
    inp = {'kind': 'mnemonic', 'words': list(ws)}
    ctx.case(('mnemonic', tuple(ws)), nontrivial=True, sample={'kind': 'mnemonic', 'first_word': ws[0] if ws else None})
    ctx.count('mnemonic-generated')
    if len(ws) != 24 or any(w not in K.words for w in ws):
        ctx.fail('mnemonic-shape:', 'mnemonic_new() did not return 24 words of the word list', inp, len(ws), 24)
    if call(K.mnemonic_is_valid, list(ws)) is not True or not ref_valid(ws):
        ctx.fail('mnemonic-invalid:', 'a generated mnemonic is not valid', inp, False, True)
    check_validity(ctx, ws, 'generated')
    if derive:
        k1, k2 = call(K.mnemonic_to_wallet_key, list(ws)), call(K.mnemonic_to_wallet_key, list(ws))
        p1, p2 = call(K.mnemonic_to_private_key, list(ws)), call(K.mnemonic_to_private_key, list(ws))
        ctx.count('mnemonic-derived')
        if k1 is None or k1 != k2 or p1 is None or p1 != p2:
            ctx.fail('derive-nondet:', 'key derivation from the same mnemonic gave different results / raised', inp, [repr(k1)[:80], repr(k2)[:80]], 'equal')
        elif tuple(k1) != tuple(ref_wallet_key(ws)) or tuple(p1) != tuple(k1):
            ctx.fail('derive-interop:', 'derived keys differ from PBKDF2-HMAC-SHA512(entropy,"TON default seed",100000)[:32] -> Ed25519 key pair', inp,
                     k1[0].hex(), ref_wallet_key(ws)[0].hex())
        elif K.private_key_to_public_key(k1[1]) != k1[0]:
            ctx.fail('derive-pub:', 'private_key_to_public_key(secret) != public', inp)


MAX_DRAWS = 24 * 8000       # a generator that has not returned after 8000 candidates (probability (255/256)^8000 < 1e-13) is stuck


class GeneratorStuck(Exception):
    pass


class GuardedOs:
    """the real `os` module inside keys.py with a bound on the number of urandom calls of ONE library call (a `while True` that never
    finds a valid candidate must become a reported failure, not a hanging check)"""

    def __init__(self, real, limit=MAX_DRAWS):
        self.real, self.limit, self.draws = real, limit, 0

    def urandom(self, n):
        self.draws += 1
        if self.draws > self.limit:
            raise GeneratorStuck()
        return self.real.urandom(n)

    def __getattr__(self, name):
        return getattr(self.real, name)


def guarded_mnemonic_new(ctx, K, *args):
    """-> (words | None, stuck)"""
    if not hasattr(K, 'os'):
        return call(K.mnemonic_new, *args), False
    real = K.os
    g = GuardedOs(real)
    K.os = g
    try:
        return K.mnemonic_new(*args), False
    except GeneratorStuck:
        return None, True
    except Exception:
        return None, False
    finally:
        K.os = real


class FakeOs:
    """stands in for the `os` module inside keys.py while a generator run is recorded."""

    def __init__(self, rng, first=None):
        self.rng = rng
        self.log = []
        self.first = first

    def urandom(self, n):
        if len(self.log) >= MAX_DRAWS:
            raise GeneratorStuck()
        r = self.rng.randbytes(n)
        if self.first is not None and len(self.first) <= n:        # a chosen first draw (boundary values), random afterwards
            r = self.first + r[len(self.first):]
            self.first = None
        self.log.append(r)
        return r


def check_generator_stream(ctx, seed_bytes):
    """run mnemonic_new() on a recorded os.urandom stream; the model must pick the same candidate after the same number of draws."""
    import random
    from pytoniq_core.crypto import keys as K
    if not hasattr(K, 'os'):
        if 'keys.py has no `os` name; recorded-stream tests skipped' not in ctx.notes:
            ctx.notes.append('keys.py has no `os` name; recorded-stream tests skipped')
        return
    fake = FakeOs(random.Random(seed_bytes))
    real = K.os
    K.os = fake
    try:
        ws = call(K.mnemonic_new)
    finally:
        K.os = real
    inp = {'kind': 'generator', 'stream_seed': seed_bytes.hex()}
    ctx.count('generator-streams')
    if ws is None:
        if len(fake.log) >= MAX_DRAWS:
            ctx.fail('generator-stuck:', f'mnemonic_new() did not return after {MAX_DRAWS} os.urandom draws ({MAX_DRAWS // 24} candidates) of a seeded '
                     'random stream: it never finds a valid candidate', inp, 'still running', '24 words after ~256 candidates')
        else:
            ctx.fail('generator-raised:', 'mnemonic_new raised', inp)
        return
    check_generated(ctx, ws, derive=False)
    # independent reading of the stream: 24 draws per candidate, index = first two bytes big endian & 2047
    idx = [int.from_bytes(r[:2], 'big') & 2047 for r in fake.log]
    cands = [idx[i:i + 24] for i in range(0, len(idx), 24)]
    valid = [c for c in cands if len(c) == 24 and ref_valid([K.words[j] for j in c])]
    ctx.count('generator-candidates', len(cands))
    got_idx = [K.words.index(w) for w in ws] if all(w in K.words for w in ws) else None
    if not valid or got_idx != valid[0] or cands.index(valid[0]) != len(cands) - 1:
        ctx.fail('generator-choice:', 'mnemonic_new did not return the first valid candidate of the random stream', inp, got_idx, valid[0] if valid else None)
        return
    line = 'mn_new 24 100000 ' + ','.join(r.hex() for r in fake.log) + ' ' + ';'.join('.'.join(map(str, c)) for c in valid)
    ctx.expect_model(line, 'ok ' + '.'.join(map(str, got_idx)) + f' {len(fake.log)}', 'mnemonic_new retry loop')


def check_random_number(ctx, lo, hi, stream_seed, first=None):
    """get_secure_random_number on a recorded os.urandom stream vs the model (exact integer arithmetic; the library uses floats,
    exact below 2^48) and vs the range contract lo <= r < hi."""
    import random
    from pytoniq_core.crypto import keys as K
    if not hasattr(K, 'os'):
        return
    fake = FakeOs(random.Random(stream_seed), first)
    real = K.os
    K.os = fake
    try:
        r = call(K.get_secure_random_number, lo, hi)
    finally:
        K.os = real
    inp = {'kind': 'random-number', 'lo': lo, 'hi': hi, 'stream_seed': stream_seed.hex(), 'first': first.hex() if first else None}
    ctx.case(('rand', lo, hi, stream_seed), nontrivial=True, sample=None)
    ctx.count('random-number')
    if r is not None and not (lo <= r < hi):
        ctx.fail(f'random-range:{lo}/{hi}', 'get_secure_random_number returned a value outside [lo, hi)', inp, r, f'[{lo},{hi})')
    if hi - lo == 2048 and r is None:
        ctx.fail('random-raised:', 'get_secure_random_number raised for the word-list range', inp)
    # a failing call consumed no stream in the model's terms; log may hold one unused draw
    line = f'rand_num {lo} {hi} 100000 ' + (','.join(hx(x) for x in fake.log) or '-')
    ctx.expect_model(line, 'err' if r is None else f'ok {r} {len(fake.log)}', 'get_secure_random_number')


def random_cases(ctx):
    rng = ctx.rng
    # first draw = exactly the size of the range / one below / the mask value: the rejection test `>= range` at its boundary
    for lo, hi in [(0, 3), (0, 5), (5, 9), (0, 255), (0, 257), (0, 1000), (0, 2047), (0, 2048), (7, 7 + 2048), (0, 65535), (0, 65537)]:
        rg = hi - lo
        nb = max(1, (max(rg - 1, 1).bit_length() + 7) // 8)
        for v in (rg, rg - 1, (1 << max(rg - 1, 1).bit_length()) - 1, 0):
            if 0 <= v < 256 ** nb:
                check_random_number(ctx, lo, hi, rng.randbytes(8), first=v.to_bytes(nb, 'big'))
    ranges = [(0, 2048)] * 20 + [(0, 1), (0, 2), (0, 3), (5, 9), (0, 255), (0, 256), (0, 257), (7, 7 + 2048), (0, 65535), (0, 65536), (0, 65537),
                                 (0, 2 ** 20 + 3), (0, 2 ** 40), (100, 100 + 2 ** 33 + 1), (10, 10), (10, 3), (0, 2 ** 54)]
    for lo, hi in ranges + [(rng.randrange(0, 1000), rng.randrange(0, 1 << rng.randrange(1, 41))) for _ in range(ctx.n(60, 600))]:
        check_random_number(ctx, lo, hi, rng.randbytes(8))


def mnemonic_cases(ctx):
    from pytoniq_core.crypto import keys as K
    rng = ctx.rng
    gen = []
    for _ in range(ctx.n(10, 50)):
        ws, stuck = guarded_mnemonic_new(ctx, K)
        if stuck:
            ctx.fail('generator-stuck:', f'mnemonic_new() did not return after {MAX_DRAWS} os.urandom draws ({MAX_DRAWS // 24} candidates): it never '
                     'finds a valid candidate', {'kind': 'generator-live'}, 'still running', '24 words after ~256 candidates')
            return
        if ws is None:
            ctx.fail('generator-raised:', 'mnemonic_new raised', {'kind': 'generator-live'})
            continue
        gen.append(ws)
        check_generated(ctx, ws)
    for _ in range(ctx.n(4, 20)):
        check_generator_stream(ctx, rng.randbytes(8))
    # validity on non-generated lists: altered word, 23/25 words, random lists (1/256 of them valid)
    for ws in gen[:ctx.n(5, 25)]:
        w2 = list(ws); w2[rng.randrange(24)] = rng.choice(K.words)
        check_validity(ctx, w2, 'altered-word')
        check_validity(ctx, ws[:23], '23-words')
        check_validity(ctx, ws + [ws[0]], '25-words')
        w3 = list(ws); rng.shuffle(w3)
        check_validity(ctx, w3, 'shuffled')
    for _ in range(ctx.n(300, 3000)):
        check_validity(ctx, [rng.choice(K.words) for _ in range(24)], 'random-24')
    check_validity(ctx, [], 'empty')
    # lists the password-less generator can emit that ALSO look like "password seeds" (PBKDF2(entropy, "TON fast seed version", 1)[0] == 1,
    # 1 in 256 of all lists): without a password they are ordinary valid mnemonics
    found = 0
    for _try in range(400000):
        ws = [rng.choice(K.words) for _ in range(24)]
        if hashlib.pbkdf2_hmac('sha512', ref_entropy(ws), b'TON fast seed version', 1)[0] != 1:
            continue
        if ref_valid(ws):
            check_validity(ctx, ws, 'valid-and-password-seed-shaped')
            found += 1
            if found >= ctx.n(2, 6):
                break
    # valid mnemonics holding the FIRST and the LAST word of the list (index 0 / 2047 are values like any other): found by
    # drawing lists with that word forced at a random position until one is a basic seed (1 in 256)
    for w_ in (K.words[0], K.words[-1], K.words[1]):
        for _ in range(ctx.n(2, 8)):
            for _try in range(5000):
                ws = [rng.choice(K.words) for _ in range(24)]
                ws[rng.randrange(24)] = w_
                if rng.random() < 0.3:
                    ws[rng.randrange(24)] = w_
                if ref_valid(ws):
                    check_validity(ctx, ws, 'valid-with-edge-word')
                    break
    # lists whose entropy IS a basic seed but whose length is not 24: must be invalid by length alone
    for n in [23, 25, 12, 18, 1] + [rng.randrange(1, 49) for _ in range(ctx.n(3, 20))]:
        if n == 24:
            continue
        for _ in range(20000):
            ws = [rng.choice(K.words) for _ in range(n)]
            if ref_basic_output(ws)[0] == 0:
                check_validity(ctx, ws, 'basic-seed-wrong-length')
                break


def check_colliding(ctx, pairs):
    """derivation is a function of the WORD LIST: two valid mnemonics that only agree after gluing their words together
    (['car','pet','kitten',..] / ['carpet','kit','ten',..]) derive their own keys, in whichever order they are used"""
    from pytoniq_core.crypto import keys as K
    for i, (l1, l2) in enumerate(pairs):
        order = [l1, l2, l1] if i % 2 == 0 else [l2, l1, l2]
        for ws in order:
            ctx.case(('mn-collide', tuple(ws)), nontrivial=True, sample=None)
            ctx.count('mnemonic-colliding-derivations')
            inp = {'kind': 'colliding-mnemonics', 'pairs': [[l1, l2]]}
            if call(K.mnemonic_is_valid, list(ws)) is not True or not ref_valid(ws):
                ctx.fail('mnemonic-validity:colliding', 'a valid mnemonic is reported invalid', inp, False, True)
                return
            want = ref_wallet_key(ws)
            for fname in ('mnemonic_to_wallet_key', 'mnemonic_to_private_key'):
                f = getattr(K, fname, None)
                if f is None:
                    continue
                got = call(f, list(ws))
                if fname == 'mnemonic_to_wallet_key' and (got is None or tuple(got) != tuple(want)):
                    ctx.fail('derive-history:' + fname, f'{fname} of a mnemonic depends on which mnemonic was derived before (word lists that '
                             'concatenate to the same text)', inp, [x.hex() for x in got] if got else 'exception', [x.hex() for x in want])
                    return
                again = call(f, list(ws))
                if again is None or got is None or tuple(again) != tuple(got):
                    ctx.fail('derive-history:' + fname, f'{fname} twice on the same words gives different keys', inp)
                    return
        k1, k2 = call(K.mnemonic_to_wallet_key, list(l1)), call(K.mnemonic_to_wallet_key, list(l2))
        if k1 is not None and k2 is not None and tuple(k1) == tuple(k2):
            ctx.fail('derive-history:distinct', 'two different valid mnemonics derive the same wallet key', {'kind': 'colliding-mnemonics', 'pairs': [[l1, l2]]})


def src_search(ctx):
    """a `c20_src_*` obligation (or the build of Proofs/SrcAdnl.lean) broke: Lean evaluates the regenerated glue code against the hand
    model on the boundary grid (toy primitives); every differing point is replayed through the oracle of its kind on REAL primitives:
    the ids / plaintext length of a differing channel case, the key / checksum lengths of a differing cipher case, a message of that
    length for the signing helpers, a word list of that length (one whose entropy IS a basic seed) for the validity test."""
    from pytoniq_core.crypto import keys as K
    rng = ctx.rng
    pts = adnlsrc.diff_points(ctx)
    seen = set()
    loop_diff = set()
    for case, names in pts:
        kind = case[0]
        if kind == 'chan':
            _, sa, sb, ida, idb, m, sm = case
            key = ('chan', ida, idb, len(m), len(sm) if names == ['decrypt'] else 32)
            if key in seen:
                continue
            seen.add(key)
            a, b = (sa if len(sa) == 32 else rng.randbytes(32)), (sb if len(sb) == 32 else rng.randbytes(32))
            if names == ['decrypt'] and len(sm) != 32:
                check_cipher(ctx, rng.randbytes(32), rng.randbytes(len(sm)))
            else:
                check_channel(ctx, a, b, ida, idb, [m, b'', rng.randbytes(33)], 'src-diff')
                check_sign(ctx, a, m, rng.randbytes(32))
        elif kind == 'cipher':
            key = ('cipher', len(case[1]), len(case[2]))
            if key not in seen:
                seen.add(key)
                check_cipher(ctx, rng.randbytes(len(case[1])), rng.randbytes(len(case[2])))
        elif kind in ('sign', 'verify'):
            m = case[1] if kind == 'sign' else case[2]
            key = ('sign', len(m))
            if key not in seen:
                seen.add(key)
                check_sign(ctx, rng.randbytes(32), rng.randbytes(len(m)), rng.randbytes(32))
        elif kind == 'mn':
            n = len(case[1])
            key = ('mn', n, tuple(names))
            if key in seen or len([k for k in seen if k[0] == 'mn']) > 12:
                continue
            seen.add(key)
            for want_basic in (True, False):
                for _ in range(20000):
                    ws = [rng.choice(K.words) for _ in range(n)]
                    if (ref_basic_output(ws)[0] == 0) == want_basic:
                        check_validity(ctx, ws, 'src-diff')
                        if n == 24 and want_basic:
                            check_generated(ctx, ws)
                        break
        elif kind == 'rn':
            # the regenerated get_secure_random_number differs from the hand model on this (range, recorded stream): the same range with the
            # same first answer on the real function (range contract + model correspondence), then the whole family once
            lo, hi, stream = case[1], case[2], case[3]
            key = ('rn', lo, hi)
            if key not in seen and len([k for k in seen if k[0] == 'rn']) < 24:
                seen.add(key)
                check_random_number(ctx, lo, hi, rng.randbytes(8), first=(stream[0] if stream and stream[0] else None))
            loop_diff.add('rn')
        elif kind == 'mnew':
            loop_diff.add('mn')
        if len(ctx.failures) >= 8:
            break
    lines = list(arith_adnl.search_points(ctx, ['MnemonicNew'])) + sorted(loop_diff)
    if any(k.startswith('rn') for k in lines):
        random_cases(ctx)
    if any(k.startswith('mn') for k in lines) and not ctx.failures:
        for _ in range(4):
            check_generator_stream(ctx, rng.randbytes(8))
            if ctx.failures:
                break
        if not ctx.failures:
            ws, stuck = guarded_mnemonic_new(ctx, K)
            if stuck:
                ctx.fail('generator-stuck:', f'mnemonic_new() did not return after {MAX_DRAWS} os.urandom draws', {'kind': 'generator-live'})
            elif ws is not None:
                check_generated(ctx, ws)


def run(ctx):
    if ctx.search:
        src_search(ctx)
        if ctx.failures:              # the differing points already gave concrete failing inputs: report them
            return
    identifier_cases(ctx)
    if ctx.search and ctx.failures:
        return
    source_size_cases(ctx)
    channel_cases(ctx)
    cipher_cases(ctx)
    sign_cases(ctx)
    random_cases(ctx)
    mnemonic_cases(ctx)


def replay(ctx, payload):
    inp = payload.get('input') or {}
    if not isinstance(inp, dict):
        return
    k = inp.get('kind')
    if k == 'colliding-mnemonics':
        check_colliding(ctx, inp['pairs'])
    elif k == 'channel':
        msgs = [bytes.fromhex(inp['m'])] if 'm' in inp else [(inp['m_seed'], inp['m_len'])] if 'm_len' in inp else [b'', b'abc']
        check_channel(ctx, bytes.fromhex(inp['a']), bytes.fromhex(inp['b']), bytes.fromhex(inp['ida']), bytes.fromhex(inp['idb']), msgs, inp.get('tag', 'replay'))
    elif k == 'cipher':
        check_cipher(ctx, bytes.fromhex(inp['key']), bytes.fromhex(inp['data']))
    elif k == 'sign':
        check_sign(ctx, bytes.fromhex(inp['seed']), bytes.fromhex(inp['m']), bytes.fromhex(inp['alt_seed']))
    elif k == 'mnemonic':
        check_generated(ctx, inp['words'])
    elif k == 'mnemonic-valid':
        check_validity(ctx, inp['words'], inp.get('tag', 'replay'))
    elif k == 'random-number':
        check_random_number(ctx, int(inp['lo']), int(inp['hi']), bytes.fromhex(inp['stream_seed']), bytes.fromhex(inp['first']) if inp.get('first') else None)
    elif k == 'generator':
        check_generator_stream(ctx, bytes.fromhex(inp['stream_seed']))
    elif k == 'generator-live':
        from pytoniq_core.crypto import keys as K
        ws, stuck = guarded_mnemonic_new(ctx, K)
        if stuck:
            ctx.fail('generator-stuck:', f'mnemonic_new() did not return after {MAX_DRAWS} os.urandom draws', {'kind': 'generator-live'})
        elif ws is not None:
            check_generated(ctx, ws)
