"""C06: typed Builder stores and Slice loads are mutually inverse and bit-exact (TL-B encodings)."""
from ..gen import cells as G
from ..gen import scripts as S
from ..translate import arith, bsops

SPEC = dict(
    manifest=dict(
        category='proof',
        text='Lean 4 theorems over a hand-written model of Builder/Slice (every store_*/load_*/preload_* incl. var-ints, coins, addresses with '
             'anycast, optional refs/dicts, strings), proved for ALL widths, values, byte-length classes, address forms, continuations and sequence '
             'lengths: a typed store that returns appends exactly the TL-B encoding (Spec/TlbPrim.lean, written from the TL-B rules) and its refs '
             '(c06_bits_exact); the matching load on that encoding followed by any continuation returns the value and leaves exactly the continuation '
             '(c06_store_load, c06_decode_encode); any list of values stored into an empty builder loads back equal with nothing left '
             '(c06_sequence, induction); whenever load_X returns, preload_X returns the same and leaves the slice unchanged (c06_preload_eq_load, '
             'every kind incl. preload_address); var-int length prefixes are minimal for both signs (c06_varint_minimal) and the byte-length computations of store_var_uint/store_var_int are '
             're-translated from builder.py on every run and proved equal to the TL-B minimal lengths for ALL integers (c06_src_varint_len, c06_src_varuint_len); snake chains of ANY length into any within-capacity builder (c06_snake_depth_exact, with the depth-checking cell constructor of C01): the chain for n bytes after p prefilled bits has depth exactly 0 if n <= (1023-p)//8 else ceil((n - (1023-p)//8)/127); store_snake_bytes returns iff that is <= 1024, end_cell on the result succeeds iff it is <= 1023 (the library raises the depth error beyond), whenever the store returns load_snake_bytes gives the bytes back, and the cells are the TL-B SnakeData chain of the 127-byte chunks (c06_snake_is_snakedata). '
             'THE TIE TO THE SOURCE: every store_* method of builder.py (store_uint/int/bits/bit/bit_int/bool/bytes/string/ref/maybe_ref/dict/var_uint/var_int/coins/'
             'cell/slice/address for None, ExternalAddress via its to_cell() + end_cell, Address with anycast), every load_*/preload_* method of slice.py '
             '(bit/bool/bits/uint/int/bytes/string/ref/maybe_ref/dict/var_uint/var_int/coins/address, skip_bits, copy) and the TvmBitarray methods they call '
             '(extend/append/frombytes/check_overflow/check_underflow/__delitem__) are re-translated WHOLE from the source on every run '
             '(harness/translate/pymeth.py -> Generated/BuilderOps.lean, SliceOps.lean: state-passing functions that keep the partial writes of a raising call) and '
             'Lean proves for ALL arguments and states that each regenerated method equals the hand model operation (c06_src_store, c06_src_load: same decision to raise, '
             'same state afterwards, same value); hence c06_src_bits_exact, c06_src_store_load, c06_src_preload_eq_load state the property theorems of the regenerated methods. '
             'A source change of these methods breaks a proof obligation (then the failing-input search replays the differing operation through the oracle). '
             'THE SNAKE METHODS TOO: Builder.store_snake_bytes / store_snake_string and Slice.load_snake_bytes / load_snake_string are re-translated on every run '
             '(Generated/SnakeOps.lean: the iterative code as it is - head bytes, then a for loop over reversed(range(0, len(rest), 127)) with the loop-carried tail cell; '
             'the reader a `while True` over a cursor that starts as an alias of self, with a declared iteration bound) and proved equal to the RECURSIVE hand model for every byte '
             'string, every builder state and every slice state with ref_offset <= len(refs) (c06_src_snake); so c06_src_snake_store_iff (returns iff chain depth <= 1024), '
             'c06_src_snake_depth_exact (root depth exactly the closed form, end_cell iff <= 1023, regenerated load gives the bytes back) and c06_src_snake_roundtrip '
             '(depth <= 1023: store, end_cell, begin_parse, load_snake_bytes = the bytes; beyond: no cell comes out) are theorems about the regenerated code; '
             'c06_src_preload_ref_offset: preload_ref(offset) for every offset. '
             'THE ARGUMENT FORMS: store_bit at bool / str / TvmBitarray / plain bitarray / list and store_bits at str / list or tuple of ints / plain bitarray / iterator, and store_address(str), '
             'are regenerated as well (Generated/ArgForms.lean); c06_src_store_bits_forms states for all arguments and builders what each form accepts, refuses and stores '
             '(int(text) must be 0 or 1; a text of 0 / 1 / whitespace / underscore with the capacity test on len(text); items 0 / 1; an iterator is always refused; store_bit of a plain bitarray or a list '
             'returns and stores NOTHING - recorded as an observation), c06_src_store_address_forms: store_address(text) = Address(text) (declared interface function, a parameter) then exactly the Address form. '
             'Still hand model + differential testing: Address(str) parsing itself (C15), the HashMap parse behind load_dict (C09). Seeded scripts run on the library and on the compiled model, and '
             'each script is also checked on the library alone against an independent Python TL-B encoder, peek/load round trip and leftovers.',
        level_note='Proved for all inputs: the statements above, about Model/Builder.lean, and the equality of the regenerated methods with that model. Trusted for the '
                   'regenerated part: the translator pymeth.py (+ pyobj/pybytes/pyarith expression rules), the declared interface in harness/translate/bsops.py (attribute types, '
                   'property aliases, constructors of Address / ExternalAddress / Slice, a str travels as its UTF-8 bytes, HashMap.parse is a function of the referenced cell, '
                   'the cell constructor is a parameter assumed to build reference-free cells) and lean/TonVerif/PyBits.lean (meaning of int2ba, ba2int, bitarray indexing / '
                   'slice deletion / append; for the snake methods also Py.forL / whileS / bindA / rangeStep and the declared reading of <cell>.begin_parse() as `view`, '
                   'of end_cell\'s Cell(..) as the parameter `mk`, of a None passed where a cell is declared as a raise, and the iteration bound `fuel`); '
                   'all validated on every change by Lean evaluation of the regenerated methods = the library on ~650 op scripts. Only sampled: that the '
                   'Address(str) parser behaves as the model (C15; correspondence on generated scripts). Trusted readings for the argument forms: Py.intOfStr? (int(text)), Py.bitsOfStr? / bitsOfInts? '
                   '(bitarray.extend of a text / of ints), Py.strLen, for ASCII text (non-ASCII whitespace / digits are outside the model), validated against CPython on 52 scripts; str.encode/decode are '
                   'assumed as modelled). Not modelled: load_dict parses the referenced HashMap (C09), str<->UTF-8, Python recursion limit for very '
                   'long snake chains. Trusted: Spec/TlbPrim.lean + Spec/TlbVal.lean say what TL-B says; Lean kernel; harness/gen/scripts.py.',
        technique='Lean 4 proof (hand model, OpSpec calculus + closed forms of the slice reads) + differential correspondence with the library '
                  '+ source-regenerated methods (stateful-method translator, equality with the hand model proved for all inputs) and arithmetic lemmas'),
    translators=[('builder.py var-int byte lengths->Generated/VarLen.lean', arith.regenerator('VarLen')),
                 ('builder.py/tvm_bitarray.py store_* methods->Generated/BuilderOps.lean', bsops.regenerator('BuilderOps')),
                 ('slice.py/tvm_bitarray.py load_*/preload_* methods->Generated/SliceOps.lean', bsops.regenerator('SliceOps')),
                 ('builder.py/slice.py snake methods->Generated/SnakeOps.lean', bsops.regenerator('SnakeOps')),
                 ('builder.py store_bit/store_bits/store_address argument forms->Generated/ArgForms.lean', bsops.regenerator('ArgForms'))],
    design_ref='DESIGN.md §6 C06',
    rule='seeded sequences of typed values that fit a cell (ints of widths 1..257 at 0/1/max/top-bit/min/-1, var-ints of every byte-length '
         'class incl. top-bit-set values, coins, bits, bytes, refs, maybe-refs, addr_none/extern(len 0..511)/std(+anycast)), snake byte strings '
         'of boundary lengths (chunk boundaries x prefills 0/8/3/1016/1023; chain depths 1023/1024/1025 for prefills 0/3/11/1016: root depth compared with the closed form, raise point store vs end_cell), optional dicts (HashmapE bit + ref), strings (store_string/load_string/preload_string incl. multi-byte UTF-8), '
         'store_snake_string with and without prefix; texts built from a table of 34 special code points (BOM U+FEFF / U+FFFE, NUL, controls, every kind of whitespace, first / last code point of each UTF-8 length, '
         'surrogate-adjacent, non-characters, combining marks, case-mapping oddities) placed alone / first / last / middle / doubled / behind a NUL / first-and-last, through every string-typed operation '
         '(store_string, preload_string / load_string with a length and with 0 = the rest, store_snake_string with / without prefix, load_snake_string, load_snake_bytes; also at / before / across a cell border of the chain), compared code point by code point; each stored, compared bit-for-bit with an independent TL-B encoder, peeked and loaded back, and run through '
         'the Lean model; distinct = distinct script; non-trivial = script has >= 1 value',
    trusted_base=['Model/Builder.lean mirrors builder.py/slice.py/TvmBitarray/address.to_cell by hand (BOp/SOp state functions)',
                  'bitarray int2ba/ba2int/slicing semantics as modelled (probed)', 'harness/gen/scripts.py: op tokens, executors, TL-B encoder',
                  'harness/translate/pyarith.py + arith.py (Python int arithmetic -> Lean) and lean/TonVerif/PyInt.lean (meaning of bit_length / math.ceil(a / 8)) for the c06_src_* theorems',
                  'harness/translate/pymeth.py + bsops.py (stateful methods -> Lean; declared interface) and lean/TonVerif/PyBits.lean (int2ba / ba2int / bitarray operations) for c06_src_store / c06_src_load; validated against the library on op scripts'],
    assumptions=['correspondence is sampled differential testing', 'str.encode/decode are inverse on valid UTF-8 (strings are modelled as bytes)'],
)

LEAF_DAG = [(G.ORD, '1011', ()), (G.ORD, '', ()), (G.ORD, '11110000', (0, 1)), (G.ORD, '1' * 100, (2, 2, 0))]


def bline(dag, ops):
    return f"bscript {G.dag_line(dag)[8:] if dag else '-'} {';'.join(ops) or '-'}"


def sline(dag, node, ops):
    return f"sscript {G.dag_line(dag)[8:]} {node} {';'.join(ops) or '-'}"


def gen_fitting(rng, cells, dict_idx=None):
    ncells = len(cells)
    toks, bits, refs = [], 0, 0
    cells_cost = {}
    for _ in range(rng.randrange(1, 12)):
        t = S.rand_typed_tok(rng, ncells, dict_idx)
        e = S.enc_tok(t, cells)
        cb, cr = len(e[0]), len(e[1])
        if bits + cb > 1023 or refs + cr > 4:
            continue
        toks.append(t)
        bits += cb
        refs += cr
    return toks


def check_roundtrip(ctx, dag, cells, toks, tag):
    inp = {'dag': [list(n) for n in dag], 'ops': toks, 'tag': tag}
    ctx.case((tag, tuple(toks)), nontrivial=bool(toks), sample={'ops': toks[:6]})
    for t in toks:
        ctx.count('op:' + t.split(':')[0] + (':' + t.split(':')[1] if t.startswith('a:') else ''))
    encs = [S.enc_tok(t, cells) for t in toks]
    want_bits = ''.join(e[0] for e in encs) or '-'
    want_refs = '.'.join(c.hash.hex() for e in encs for c in e[1]) or '-'
    flags, bits, refs, fin, b = S.exec_builder(cells, toks)
    if '0' in flags:
        ctx.fail('store-refused:' + toks[flags.index('0')].split(':')[0], f'a store that fits was refused: {toks[flags.index("0")]}', inp, flags, '1' * len(toks))
        return
    if bits != want_bits or refs != want_refs:
        k = next((i for i in range(len(toks)) if not (bits + 'x').startswith(''.join(e[0] for e in encs[:i + 1]))), 0)
        ctx.fail('bits:' + toks[k].split(':')[0], f'stored bits are not the TL-B encoding (first at op {k}: {toks[k]})', inp, bits, want_bits)
        return
    if fin == 'err':
        ctx.fail('end_cell', 'end_cell failed on a fitting script', inp, 'err', 'cell')
        return
    ctx.expect_model(bline(dag, toks), f'ok {flags} {bits} {refs} {fin}', tag)
    # load back: peek then load for every value
    cell = b.end_cell()
    lops, want = [], []
    for e in encs:
        lops += [e[4], e[2]]
        want += [e[3], e[3]]
    res, rb, rr = S.exec_slice(cell, lops)
    got = res.split(';') if lops else []
    for i, (g, w) in enumerate(zip(got, want)):
        if g != w:
            kind = 'peek' if i % 2 == 0 else 'load'
            ctx.fail(f'{kind}:{lops[i].split(":")[0]}', f'{kind} {lops[i]} returned a different value than stored ({toks[i // 2]})', inp, g, w)
            return
    if rb != '-' or rr != '-':
        ctx.fail('leftover', 'bits/refs left unread after loading everything back', inp, [rb, rr], ['-', '-'])
    full_dag = dag + [(G.ORD, '' if bits == '-' else bits, tuple(_ref_indices(dag, cells, encs)))]
    ctx.expect_model(sline(full_dag, len(full_dag) - 1, lops), f'ok {res} {rb} {rr}', tag)


def _ref_indices(dag, cells, encs):
    out = []
    for e in encs:
        for c in e[1]:
            out.append(next(i for i, x in enumerate(cells) if x is c))
    return out


def snake(ctx, n, prefill):
    rng = ctx.rng
    data = rng.randbytes(n)
    ops = ([f'u:0:{prefill}'] if prefill else []) + [f'sn:{data.hex() or "-"}']
    inp = {'ops': [o[:80] for o in ops], 'len': n, 'prefill': prefill}
    ctx.case(('snake', n, prefill), sample={'snake_len': n, 'prefill': prefill})
    ctx.count('snake')
    try:
        flags, bits, refs, fin, b = S.exec_builder([], ops)
    except Exception as e:      # e.g. a non-cell object left in the reference list
        ctx.fail('snake-store', f'store_snake_bytes of {n} bytes (prefill {prefill}) left the builder in a state that cannot be inspected', inp,
                 type(e).__name__ + ': ' + str(e)[:100], 'stored')
        return
    # closed form of c06_snake_depth_exact: room (1023 - prefill) // 8 in the first builder, 127 bytes per tail cell
    room = (1023 - prefill) // 8
    depth = 0 if n <= room else -(-(n - room) // 127)
    sn_flag = flags[-1]
    # the model run with C01's depth-checking constructor: same flags, partial writes and end_cell outcome (all lengths)
    ctx.expect_model(bline([], ops), f'ok {flags} {bits} {refs} {fin}', f'snake len {n} prefill {prefill}')
    if depth > 1024:
        # a tail cell of depth 1024 would be needed: store_snake_bytes itself must raise
        if sn_flag != '0':
            ctx.fail('snake-depth', f'store_snake_bytes of {n} bytes (prefill {prefill}) built a chain of depth {depth} > 1024', inp, flags + ' ' + fin, 'store raises')
        return
    if '0' in flags:
        ctx.fail('snake-store', f'store_snake_bytes of {n} bytes refused (chain depth {depth})', inp, flags + fin, 'stored')
        return
    if depth == 1024:
        # every tail cell (depth <= 1023) exists, the root would have depth 1024: end_cell must raise
        if fin != 'err':
            ctx.fail('snake-depth', f'a snake of {n} bytes (prefill {prefill}) was finished into a cell of depth 1024', inp, fin, 'end_cell raises')
        return
    if fin == 'err':
        ctx.fail('snake-store', f'end_cell refused a snake of {n} bytes with chain depth {depth} <= 1023', inp, flags + fin, 'stored')
        return
    got_depth = b.end_cell().get_depth()
    ctx.count('snake-depth-checked')
    if got_depth != depth:
        ctx.fail('snake-depth-exact', f'chain depth of a {n}-byte snake with {prefill} bits prefilled is not ceil((n - room) / 127)', inp, got_depth, depth)
        return
    s = b.end_cell().begin_parse()
    if prefill:
        s.skip_bits(prefill)
    try:
        back = s.load_snake_bytes() if prefill % 8 == 0 else None
    except Exception as e:
        back = e
    if prefill % 8 == 0 and back != data:
        ctx.fail('snake-load', f'load_snake_bytes differs from stored data (len {n})', inp, repr(back)[:100], data.hex()[:100])
    if n <= 2000 and prefill % 8 == 0:
        dag = S.cell_dag(b.end_cell())
        lops = ([f'sk:{prefill}'] if prefill else []) + ['lsn']
        res, rb, rr = S.exec_slice(b.end_cell(), lops)
        ctx.expect_model(sline(dag, len(dag) - 1, lops), f'ok {res} {rb} {rr}', f'snake load len {n} prefill {prefill}')


def snake_refs(ctx, n, prefill, nrefs):
    """store_snake_bytes into a builder that already holds `nrefs` references, against the closed form: the first (1023 - prefill) // 8
    bytes go into this cell; anything beyond hangs under ONE more reference as 127-byte cells (refused when no slot is free, the head
    bytes stay written); the chain is read back by walking the cells."""
    from pytoniq_core.boc.builder import Builder
    data = bytes((i * 11 + n) % 253 for i in range(n))
    leaf = G.lib_build(LEAF_DAG)[0]
    inp = {'len': n, 'prefill': prefill, 'refs': nrefs}
    ctx.case(('snake-refs', n, prefill, nrefs), sample=inp)
    ctx.count('snake-refs')
    b = Builder()
    if prefill:
        b.store_uint(0, prefill)
    for _ in range(nrefs):
        b.store_ref(leaf)
    try:
        b.store_snake_bytes(data)
        ok = True
    except Exception:
        ok = False
    room = (1023 - prefill) // 8
    want_ok = n <= room or nrefs < 4
    if ok != want_ok:
        ctx.fail('snake-store', f'store_snake_bytes of {n} bytes into a builder with {prefill} bits / {nrefs} refs ' + ('was refused' if want_ok else 'was accepted'),
                 inp, ok, want_ok)
        return
    try:
        head = b.bits.to01()[prefill:]
        want_head = G.bytes_to_bits(data[:room])
        if head != want_head:
            ctx.fail('snake-store', 'the bytes written into the first cell are not the first (1023 - prefill) // 8 bytes', inp, head[:80], want_head[:80])
            return
        if not ok:
            if len(b.refs) != nrefs:
                ctx.fail('snake-store', 'a refused store_snake_bytes changed the references', inp, len(b.refs), nrefs)
            return
        want_refs = nrefs + (1 if n > room else 0)
        if len(b.refs) != want_refs:
            ctx.fail('snake-store', 'store_snake_bytes did not add exactly one reference for the tail', inp, len(b.refs), want_refs)
            return
        got, c, depth = b'', (b.refs[-1] if n > room else None), 0
        while c is not None:
            got += c.bits.tobytes()
            if len(c.bits) % 8 or len(c.bits) > 1016 or len(c.refs) > 1:
                ctx.fail('snake-store', 'a tail cell of the snake is not a byte string of at most 127 bytes with at most one reference', inp,
                         [len(c.bits), len(c.refs)], '<= 1016 bits, <= 1 ref')
                return
            c = c.refs[0] if c.refs else None
        if got != data[room:]:
            ctx.fail('snake-store', 'the tail cells of the snake do not hold the remaining bytes in order', inp, got.hex()[:80], data[room:].hex()[:80])
    except Exception as e:
        ctx.fail('snake-store', f'the builder after store_snake_bytes cannot be inspected: {type(e).__name__}', inp, repr(e)[:100], 'cells')


def src_search_snake(ctx):
    """Search mode only: where the regenerated snake methods (Generated/SnakeOps.lean) differ from the hand model they are proved equal to
    (evaluated by Lean on the validation scripts), the store / load of that length at that fill level goes through the snake oracles
    (closed-form depth, raise point, round trip, cells of the chain).  True = a concrete failing input was found."""
    n0 = len(ctx.failures)
    pts, strs = [], []
    for (fb, fr, toks), idx in bsops.diff_scripts(ctx, 'B', bsops.snake_builder_scripts(), snake=True):
        for i in idx:
            p = toks[i].split(':')
            n = 0 if p[1] == '-' else len(p[1]) // 2
            if i == 0 and p[0] == 'sn' and (n, fb, fr) not in pts:
                pts.append((n, fb, fr))
            if p[0] == 'sns' and (n, p[2] == '1', fb) not in strs:
                strs.append((n, p[2] == '1', fb))
    if bsops.diff_scripts(ctx, 'S', bsops.snake_slice_scripts(), snake=True):
        pts += [(n, fb, 0) for n in (0, 1, 127, 128, 254, 300, 1000) for fb in (0, 8) if (n, fb, 0) not in pts]
    for n, fb, fr in pts[:60]:
        if fr == 0:
            snake(ctx, n, fb)
        snake_refs(ctx, n, fb, fr)
        if len(ctx.failures) > n0:
            return True
    for n, pre, fb in strs[:30]:
        if fb % 8 == 0:
            snake_string(ctx, n, pre, fb)
        if len(ctx.failures) > n0:
            return True
    return len(ctx.failures) > n0


def src_search_forms(ctx):
    """Search mode only: every argument form of store_bit / store_bits (the executor rotates them with process-wide counters) at an empty
    builder and at the capacity boundary, and store_address(str), through the round-trip oracle.  True = a failing input was found."""
    n0 = len(ctx.failures)
    dag = [tuple(n) for n in bsops.CTX_DAG]
    cells = G.lib_build(dag)
    for form in range(24):
        for pre in (0, 1017):
            S._BIT_FORM[0] = form
            S._BITS_FORM[0] = form
            check_roundtrip(ctx, dag, cells, ([f'b:{"0" * pre}'] if pre else []) + ['bit:1', 'b:0110', 'bit:0'], 'src-forms')
        if len(ctx.failures) > n0:
            return True
    api_extras(ctx)
    return len(ctx.failures) > n0


def snake_string(ctx, n, pre, prefill, text=None, label=None):
    rng = ctx.rng
    if text is None:
        text = ''.join(rng.choice(S.STRING_ALPHABET) for _ in range(n))
    n = len(text)
    data = text.encode()
    ops = ([f'u:0:{prefill}'] if prefill else []) + [f'sns:{data.hex() or "-"}:{int(pre)}']
    inp = {'ops': [o[:80] for o in ops], 'chars': n, 'prefix': pre, 'prefill': prefill, 'snake_text_hex': data.hex(), 'code_points': [hex(ord(c)) for c in text[:6]]}
    if label:
        inp['class'] = label
    ctx.case(('snake-string', n, pre, prefill, text[:20], label), sample={'chars': n, 'prefix': pre, 'prefill': prefill})
    ctx.count('snake-string')
    flags, bits, refs, fin, b = S.exec_builder([], ops)
    if '0' in flags or fin == 'err':
        ctx.fail('snake-string-store', f'store_snake_string of {len(data)} bytes refused', inp, flags + fin, 'stored')
        return
    cell = b.end_cell()
    lops = ([f'sk:{prefill}'] if prefill else []) + ['lsn']
    res, rb, rr = S.exec_slice(cell, lops)
    want = ((b'\x00' if pre else b'') + data).hex() or '-'
    if res.split(';')[-1] != want:
        ctx.fail('snake-string', 'store_snake_string / load_snake_bytes mismatch', inp, res[-80:], want[-80:])
    # load_snake_string: the text itself, behind the NUL of need_prefix=True when that was written - compared as UTF-8 bytes of the returned
    # str, i.e. code point by code point
    r2 = S.exec_slice(cell, ([f'sk:{prefill}'] if prefill else []) + ['lss'])[0]
    if r2.split(';')[-1] != want:
        k = next((i for i, (a, b) in enumerate(zip(r2.split(';')[-1] + '  ', want + '  ')) if a != b), 0) // 2 * 2
        ctx.fail('snake-string-load', 'load_snake_string differs from the stored string' + (' (behind the prefix byte)' if pre else ''), inp,
                 r2.split(';')[-1][max(0, k - 8):k + 72], want[max(0, k - 8):k + 72])
    ctx.expect_model(bline([], ops), f'ok {flags} {bits} {refs} {fin}', f'snake string {n} {pre} {prefill}')
    dag = S.cell_dag(cell)
    ctx.expect_model(sline(dag, len(dag) - 1, lops), f'ok {res} {rb} {rr}', f'snake string load {n} {pre} {prefill}')


def string_rest(ctx, text, extra):
    """preload_string() / load_string() with byte_length 0 = all WHOLE bytes that remain (a trailing partial byte stays)"""
    bits = G.bytes_to_bits(text.encode()) + '1' * extra
    dag = [(G.ORD, bits, ())]
    cell = G.lib_build(dag)[0]
    ctx.case(('string-rest', text, extra))
    ops = ['ps:0', 'ls:0']
    res, rb, rr = S.exec_slice(cell, ops)
    want = text.encode().hex() or '-'
    if res != f'{want};{want}' or rb != ('1' * extra or '-'):
        ctx.fail('string-rest', f'preload_string()/load_string() on {len(text.encode())} bytes + {extra} bits do not return the stored text',
                 {'rest_text_hex': text.encode().hex(), 'extra': extra, 'code_points': [hex(ord(c)) for c in text[:6]]}, [res, rb], [f'{want};{want}', '1' * extra or '-'])
    ctx.expect_model(sline(dag, 0, ops), f'ok {res} {rb} {rr}', 'string-rest')


def edge_strings(ctx, dag, cells):
    """THE CLASS: texts built from the table of special code points (harness/gen/texts.py: BOM U+FEFF / U+FFFE, NUL, controls and every
    kind of whitespace, the first / last code point of each UTF-8 length, surrogate-adjacent, non-characters, combining marks, case-mapping
    oddities) placed first / last / in the middle / alone / doubled / behind a NUL, through EVERY string-typed operation: store_string
    (bits = the UTF-8 bytes), preload_string(n) / load_string(n) alone and between other values, preload_string() / load_string()
    (byte_length 0 = the rest), store_snake_string with and without prefix into empty / prefilled builders, load_snake_string and
    load_snake_bytes; in snake chains also with the special code point AT / BEFORE / ACROSS a cell border.  Every text must come back
    code point by code point."""
    from ..gen import texts as T
    rng = ctx.rng
    for label, text in T.edge_texts(rng, max_bytes=120, fill_bytes=(5, 40)):
        h = text.encode().hex()
        ctx.count('edge-text')
        ctx.count('edge-text:' + label.split(':')[1])
        check_roundtrip(ctx, dag, cells, [f's:{h}'], 'edge-text')
        check_roundtrip(ctx, dag, cells, [f'u:5:3', f's:{h}', 'bit:1'], 'edge-text')
        string_rest(ctx, text, rng.randrange(8))
        pre = rng.random() < 0.5
        snake_string(ctx, None, pre, 0, text=text, label=label)
        snake_string(ctx, None, not pre, rng.choice((8, 16, 1000, 1016)), text=text, label=label)
    # long texts: the special code point in a chain of several cells, first / last / middle of the whole text
    for label, text in T.edge_texts(rng, fill_bytes=(300,)):
        if label.endswith(':alone'):
            continue
        ctx.count('edge-text-long')
        snake_string(ctx, None, rng.random() < 0.5, rng.choice((0, 0, 8, 1016)), text=text, label=label)
    # the special code point at a border between two cells of the chain (first cell: 127 bytes, or 126 behind the prefix byte)
    for pre in (False, True):
        for label, text in T.straddle_texts(rng, 127 - int(pre), chunks=2):
            ctx.count('edge-text-border')
            snake_string(ctx, None, pre, 0, text=text, label=label)


def api_extras(ctx):
    """strings, Address.to_cell / ExternalAddress.to_cell, store_string, load_string, load_snake_string"""
    from pytoniq_core import begin_cell, Address, ExternalAddress
    rng = ctx.rng
    # an address constructor the library does not support (addr_var$11 ...): the peek refuses exactly like the read (both raise)
    for tail in ('', '0', '1' * 20, '0' * 300):
        c = begin_cell().store_bits('11' + tail).end_cell()
        ctx.case(('addr-var', tail))
        outs = []
        for name in ('load_address', 'preload_address'):
            sl = c.begin_parse()
            try:
                outs.append((name, 'value', repr(getattr(sl, name)())))
            except Exception:
                outs.append((name, 'raises', None))
        if outs[0][1] != outs[1][1]:
            ctx.fail('preload-vs-load:address-tag-11', 'preload_address and load_address disagree on an unsupported address constructor (one raises, the other returns)',
                     {'bits': '11' + tail}, outs[1], outs[0])
    # store_bit of a TvmBitarray holding more / fewer than one bit: exactly its first bit (c06_src_store_bits_forms)
    from pytoniq_core.boc.tvm_bitarray import TvmBitarray
    from bitarray import bitarray
    for arg in ('10', '01', '111', ''):
        ctx.case(('bit-tvm', arg))
        try:
            got = begin_cell().store_bit(TvmBitarray(1023, bitarray(arg))).bits.to01()
        except Exception as e:
            got = type(e).__name__
        if got != arg[:1]:
            ctx.fail('bits:bit', f'store_bit(TvmBitarray({arg!r})) did not store exactly the first bit', {'form': 'tvm', 'arg': arg}, got, arg[:1])
    for s in ['', 'a', 'héllo wörld', '日本語' * 10, 'x' * 127, 'é' * 63]:
        ctx.case(('string', s))
        try:
            c = begin_cell().store_string(s).end_cell()
            sl = c.begin_parse()
            if s and (sl.preload_string() != s or sl.load_string() != s or sl.remaining_bits):
                ctx.fail('string', 'store_string/load_string mismatch', {'s': s}, None, s)
            if c.bits.tobytes() != s.encode():
                ctx.fail('string-bits', 'store_string bits are not the UTF-8 bytes', {'s': s}, c.bits.tobytes().hex(), s.encode().hex())
        except Exception as e:
            ctx.fail('string', f'store_string raised {e!r}', {'s': s}, repr(e), 'ok')
    # load_string(0) / preload_string(0) = all WHOLE bytes that remain (a trailing partial byte stays)
    for extra in range(0, 8):
        for text in ('', 'q', 'héllo'):
            bits = G.bytes_to_bits(text.encode()) + '1' * extra
            dag = [(G.ORD, bits, ())]
            cell = G.lib_build(dag)[0]
            ctx.case(('string-rest', text, extra))
            ops = ['ps:0', 'ls:0']
            res, rb, rr = S.exec_slice(cell, ops)
            want = text.encode().hex() or '-'
            if res != f'{want};{want}' or rb != ('1' * extra or '-'):
                ctx.fail('string-rest', f'preload_string()/load_string() on {len(text.encode())} bytes + {extra} bits', {'bits': bits}, [res, rb], [want, '1' * extra])
            ctx.expect_model(sline(dag, 0, ops), f'ok {res} {rb} {rr}', 'string-rest')
    for n in (0, 1, 126, 127, 128, 300, 1000):
        s = ''.join(rng.choice('abcé日') for _ in range(n))
        for pre in (False, True):
            ctx.case(('snake-string', n, pre))
            c = begin_cell().store_snake_string(s, pre).end_cell()
            back = c.begin_parse().load_snake_bytes()
            if back != (b'\x00' if pre else b'') + s.encode():
                ctx.fail('snake-string', 'store_snake_string/load_snake_bytes mismatch', {'n': n, 'prefix': pre}, back.hex()[:60], s.encode().hex()[:60])
    for _ in range(30):
        p = S.rand_addr_tok(rng).split(':')[1:]
        a = S.mk_addr(p)
        ctx.case(('to_cell', tuple(p)))
        if a is None:
            continue
        want = S.enc_addr(p)
        got = a.to_cell().bits.to01()
        if got != want:
            ctx.fail('addr-to_cell:' + p[0], 'Address.to_cell() bits are not the TL-B encoding', {'addr': p}, got, want)
        if p[0] == 's':
            b = begin_cell().store_address(a.to_str() if len(p) == 3 else a).end_cell()
            if len(p) == 3 and b.bits.to01() != want:
                ctx.fail('addr-str', 'store_address(str) differs', {'addr': p}, b.bits.to01(), want)


def src_search(ctx, cells):
    """Search mode only: the values on which a regenerated definition (Generated/VarLen.lean) differs from the TL-B minimal
    length it is proved equal to, stored and loaded back through the oracle.  True = a concrete failing input was found."""
    found = arith.search_points(ctx, ['VarLen'])
    n0 = len(ctx.failures)
    toks = []
    for name, kind in (('varUintIsZero', 'vu'), ('varUintByteLen', 'vu'), ('varIntIsZero', 'vi'), ('varIntByteLen', 'vi')):
        for pt in found.get(name) or []:
            toks += [f'{kind}:{pt["value"]}:{k}' for k in (4, 5, 7)]
            if kind == 'vu' and pt['value'] >= 0:
                toks.append(f'c:{pt["value"]}')
    if found.get('coinsLenBits'):
        toks += [f'c:{v}' for v in (0, 1, 255, 256, 10 ** 9, (1 << 120) - 1)]
    for t in toks:
        try:
            fits = len(S.enc_tok(t, cells)[0]) <= 1023
        except (AssertionError, ValueError):
            fits = False
        if fits:
            check_roundtrip(ctx, LEAF_DAG, cells, [t], 'src-varlen')
    return len(ctx.failures) > n0


LOAD_TO_STORE = {'lu': 'u', 'pu': 'u', 'li': 'i', 'pi': 'i', 'lvu': 'vu', 'pvu': 'vu', 'lvi': 'vi', 'pvi': 'vi', 'lc': 'c', 'pc': 'c', 'lb': 'b', 'pb': 'b',
                 'lby': 'by', 'pby': 'by', 'bit': 'bit', 'pbit': 'bit', 'lbool': 'bit', 'pbool': 'bit', 'sk': 'b', 'lr': 'r', 'lmr': 'mr', 'pmr': 'mr', 'pr': 'r', 'la': 'a', 'pa': 'a', 'ld': 'd', 'pd': 'd', 'ls': 's', 'ps': 's'}


def src_search_methods(ctx):
    """Search mode only: where a regenerated METHOD (Generated/BuilderOps.lean, SliceOps.lean) differs from the hand model it is proved
    equal to (evaluated by Lean on the validation scripts), the store / load of that kind at that fill level goes through the round-trip
    oracle.  True = a concrete failing input was found."""
    n0 = len(ctx.failures)
    dag = [tuple(n) for n in bsops.CTX_DAG]
    cells = G.lib_build(dag)
    kinds = []
    for (fb, fr, toks), idx in bsops.diff_scripts(ctx, 'B', bsops.builder_scripts()):
        for i in idx:
            k = toks[i].split(':')[0]
            if k not in kinds:
                kinds.append(k)
    for (bits, refs, toks), idx in bsops.diff_scripts(ctx, 'S', bsops.slice_scripts()):
        for i in idx:
            k = LOAD_TO_STORE.get(toks[i].split(':')[0])
            if k and k not in kinds:
                kinds.append(k)
    kinds = ['bit' if k in ('bool', 'bi') else k for k in kinds]
    if any(k in ('cell', 'sl') for k in kinds):
        kinds += ['b', 'r']
    seen = set()
    for fb, fr, toks in bsops.builder_scripts():
        for t in toks:
            k = t.split(':')[0]
            if k not in kinds or t in seen or (k == 'bit' and t not in ('bit:0', 'bit:1')):
                continue
            seen.add(t)
            try:
                e = S.enc_tok(t, cells)
            except (AssertionError, ValueError):
                continue
            if e is None:
                continue
            for pre in (0, 1, 1023 - len(e[0])):
                if 0 <= pre and pre + len(e[0]) <= 1023:
                    check_roundtrip(ctx, dag, cells, ([f'b:{"0" * pre}'] if pre else []) + [t] + (['bit:1'] if pre + len(e[0]) < 1023 else []), 'src-method')
            if len(ctx.failures) > n0:
                return True
    return len(ctx.failures) > n0


def run(ctx):
    rng = ctx.rng
    cells = G.lib_build(LEAF_DAG)
    # a codec / error handler other than the declared one in a translated method (`.decode('utf-8-sig')`, `.encode('latin-1')` ...) is not
    # "outside the translatable subset" but a REFUTED interface declaration (a str travels as its UTF-8 bytes): a broken obligation
    for name, t in (getattr(ctx, 'tie', None) or {}).items():
        if t.get('status') == 'lost' and 'outside the declared interface' in str(t.get('reason')):
            ctx.broken.append({'kind': 'declared-interface', 'detail': f'{name}: {t.get("reason")}'[:600]})
    if ctx.search and (src_search(ctx, cells) or src_search_methods(ctx) or src_search_snake(ctx) or src_search_forms(ctx)):
        return
    # context with a real dictionary cell (HashMap(8), 3 entries) for store_dict / load_dict / preload_dict
    ddag = LEAF_DAG + S.shift_dag(S.dict_dag(), len(LEAF_DAG))
    dcells = G.lib_build(ddag)
    didx = len(ddag) - 1
    for t in range(ctx.n(4000, 20000)):
        check_roundtrip(ctx, ddag, dcells, gen_fitting(rng, dcells, didx), f'seq{t}')
    for toks in ([f'd:{didx}'], ['d:-'], [f'd:{didx}', 'd:-', 'u:3:2', f'd:{didx}'], [f'mr:{didx}', f'd:{didx}', f'r:{didx}', 'd:-'],
                 ['b:' + '1' * 1022, 'd:-'], ['b:' + '1' * 1022, f'd:{didx}'], ['r:0', 'r:1', 'r:2', f'd:{didx}']):
        check_roundtrip(ctx, ddag, dcells, toks, 'dict')
    for text in ['a', 'héllo wörld', '日本語' * 10, 'x' * 127, 'é' * 63, '𝄞' * 31, 'ab\x00cd']:
        h = text.encode().hex()
        check_roundtrip(ctx, ddag, dcells, [f's:{h}'], 'string')
        check_roundtrip(ctx, ddag, dcells, ['u:5:3', f's:{h}', 'bit:1'] if len(text.encode()) < 127 else ['u:5:3', f's:{h}'], 'string')
    check_roundtrip(ctx, ddag, dcells, ['u:5:8', 's:-'], 'string-empty-last')
    for n in (0, 1, 40, 126, 127, 128, 300, 1000):
        for pre in (False, True):
            for prefill in (0, 8, 1016):
                snake_string(ctx, n, pre, prefill)
    edge_strings(ctx, ddag, dcells)
    # every var-int byte-length class, both signs, k in 3,4,5 (VarUInteger 7/16/32)
    for k in (3, 4, 5):
        for nb in range(0, (1 << k)):
            us, ss = S.varint_values(nb)
            toks = [f'vu:{v}:{k}' for v in us] + [f'vi:{v}:{k}' for v in ss]
            for t in toks:
                if len(S.enc_tok(t, cells)[0]) <= 1023:
                    check_roundtrip(ctx, LEAF_DAG, cells, [t], 'varint')
    for nb in range(0, 16):
        for v in S.varint_values(nb)[0]:
            check_roundtrip(ctx, LEAF_DAG, cells, [f'c:{v}', 'bit:1'], 'coins')
    # fixed-width ints: every width 1..257 at the boundary values
    for n in range(1, 258):
        vals_u = [0, 1, (1 << n) - 1, 1 << (n - 1)]
        vals_i = [0, -1, -(1 << (n - 1)), (1 << (n - 1)) - 1]
        check_roundtrip(ctx, LEAF_DAG, cells, [f'u:{v}:{n}' for v in vals_u[:3]], 'uint-width')
        check_roundtrip(ctx, LEAF_DAG, cells, [f'i:{v}:{n}' for v in vals_i[:3]] , 'int-width')
        check_roundtrip(ctx, LEAF_DAG, cells, [f'u:{vals_u[3]}:{n}', f'i:{vals_i[3]}:{n}'], 'int-width2')
    # all addr_extern lengths
    for ln in (range(0, 512) if ctx.thorough else list(range(0, 20)) + [63, 64, 65, 255, 256, 257, 510, 511]):
        v = rng.getrandbits(ln) | (1 << (ln - 1)) if ln else 0
        check_roundtrip(ctx, LEAF_DAG, cells, [f'a:e:{ln}:{v}', 'a:n', 'bit:1'], 'extern')
    for d in range(1, 31):
        for pfx in (0, 1, (1 << d) - 1):
            check_roundtrip(ctx, LEAF_DAG, cells, [f'a:s:-1:{rng.randbytes(32).hex()}:{d}:{pfx}', 'u:5:3'], 'anycast')
    for n in [0, 1, 2, 126, 127, 128, 129, 253, 254, 255, 256, 381, 382, 1000, 16000] + ([130000, 129920, 130048] if ctx.thorough else []):
        for prefill in (0, 8, 3, 1016, 1023):
            snake(ctx, n, prefill)
    # the longest chain (depth 1023 = 1024 cells) and one byte more (must be refused by end_cell's depth check)
    snake(ctx, 127 * 1024, 0)
    snake(ctx, 127 * 1024 + 1, 0)
    snake(ctx, 127 * 1023, 1016)
    snake(ctx, 127 * 1023 + 1, 1016)
    # depth 1025: the deepest tail cell cannot be built, store_snake_bytes itself raises; non-byte-aligned prefill at its boundaries
    snake(ctx, 127 * 1025 + 1, 0)
    snake(ctx, 127 * 1024, 1016)
    snake(ctx, 127 * 1024 + 1, 1016)
    snake(ctx, 127 + 127 * 1023, 3)
    snake(ctx, 127 + 127 * 1023 + 1, 3)
    snake(ctx, 126 + 127 * 1023, 11)
    snake(ctx, 126 + 127 * 1023 + 1, 11)
    for n in (0, 1, 126, 127, 128, 255, 300):
        for prefill, nrefs in ((0, 1), (0, 3), (0, 4), (8, 4), (1016, 3), (1016, 4), (1023, 4), (3, 2)):
            snake_refs(ctx, n, prefill, nrefs)
    api_extras(ctx)


def replay(ctx, payload):
    inp = payload.get('input') or {}
    if 'ops' in inp and 'dag' in inp:
        dag = [(k, b, tuple(r)) for k, b, r in inp['dag']]
        for form in range(24):           # the argument forms of store_bit / store_bits rotate with process-wide counters: replay every phase
            S._BIT_FORM[0] = form
            S._BITS_FORM[0] = form
            check_roundtrip(ctx, dag, G.lib_build(dag), inp['ops'], inp.get('tag', 'replay'))
    elif 'snake_text_hex' in inp:
        snake_string(ctx, None, bool(inp['prefix']), int(inp['prefill']), text=bytes.fromhex(inp['snake_text_hex']).decode(), label=inp.get('class'))
    elif 'rest_text_hex' in inp:
        string_rest(ctx, bytes.fromhex(inp['rest_text_hex']).decode(), int(inp['extra']))
    elif 'form' in inp or 'addr' in inp or 's' in inp or 'bits' in inp or 'n' in inp:
        api_extras(ctx)
    elif 'len' in inp and 'prefill' in inp and 'refs' in inp:
        snake_refs(ctx, int(inp['len']), int(inp['prefill']), int(inp['refs']))
    elif 'len' in inp and 'prefill' in inp:
        snake(ctx, int(inp['len']), int(inp['prefill']))


# ----------------------------------------------------------------------------- appended by strengthener st-nfif (round 10)
# Class "every legal NON-CANONICAL encoding of the same value": VarUInteger / VarInteger / Grams carry an explicit `len` field
# (var_uint$_ len:(#< n) value:(uint (len * 8))); every len with value < 2^(8 len) (signed: value fits len bytes of two's complement)
# is a valid encoding.  No store_* writes a non-minimal one, so these cells are hand-built (harness/gen/noncanon.py), preceded by a
# prefix and followed by a tail and references: preload_X and load_X must return the value, load_X must consume exactly the
# len field + len bytes (the tail is then read back intact, nothing is left, the references are untouched).  Model and
# library are compared on the same scripts.
from ..gen import noncanon as NC


def noncanon_case(ctx, kind, k, ln, v, pre, tail, tag='noncanon'):
    """kind: 'vu' / 'vi' / 'c' (coins: k = 4)"""
    body = NC.enc_var_int(k, ln, v) if kind == 'vi' else NC.enc_var_uint(k, ln, v)
    bits = pre + body + tail
    if len(bits) > 1023:
        return
    dag = LEAF_DAG + [(G.ORD, bits, (0, 2))]
    cell = G.lib_build(dag)[-1]
    peek, load = {'vu': (f'pvu:{k}', f'lvu:{k}'), 'vi': (f'pvi:{k}', f'lvi:{k}'), 'c': ('pc', 'lc')}[kind]
    ops = ([f'lb:{len(pre)}'] if pre else []) + [peek, load] + ([f'lb:{len(tail)}'] if tail else [])
    want = ([pre] if pre else []) + [str(v), str(v)] + ([tail] if tail else [])
    inp = {'noncanon': kind, 'lenbits': k, 'len': ln, 'value': str(v), 'pre': pre, 'tail': tail}
    ctx.case((tag, kind, k, ln, v, pre, tail), sample={'ops': ops, 'len': ln, 'value': str(v)})
    ctx.count('noncanon-load:' + kind)
    minimal = (v.bit_length() + 7) // 8 if kind != 'vi' else next(n for n in range(0, ln + 1) if (n == 0 and v == 0) or (n and -(1 << (8 * n - 1)) <= v < (1 << (8 * n - 1))))
    ctx.count('noncanon-load-extra-bytes:%s' % min(ln - minimal, 3))
    res, rb, rr = S.exec_slice(cell, ops)
    got = res.split(';')
    for i, (g, w) in enumerate(zip(got, want)):
        if g != w:
            what = ('the tail behind the field is not read back intact: the load did not consume exactly len field + len bytes' if ops[i].startswith('lb:') and i > 0 and i == len(ops) - 1
                    else f'{ops[i]} returned another value than the one encoded with len = {ln}')
            ctx.fail(f'{"peek" if ops[i][0] == "p" else "load"}:{ops[i].split(":")[0]}', what, inp, g, w)
            return
    if rb != '-' or len(cell.refs) != 2 or rr != '.'.join(c.hash.hex() for c in cell.refs):
        ctx.fail('leftover', f'bits left / references touched after {load} of an encoding with len = {ln} and reading the tail', inp, [rb, rr], ['-', 'both references'])
        return
    ctx.expect_model(sline(dag, len(dag) - 1, ops), f'ok {res} {rb} {rr}', tag)


def noncanon_loads(ctx):
    rng = ctx.rng
    for k in (2, 3, 4, 5):
        top = (1 << k) - 1
        for m in range(0, top + 1):                    # minimal byte length class of the value
            us, ss = S.varint_values(m)
            lens = sorted({m, m + 1, m + 2, top, rng.randrange(m, top + 1)})
            for ln in lens:
                if ln > top or k + 8 * ln > 1000:
                    continue
                pre = rng.choice(['', '1', '0', G.rand_bits(rng, rng.randrange(1, 12))])
                tail = rng.choice(['1', '0', '10', G.rand_bits(rng, rng.randrange(1, 12)) + '1', '1' + '0' * 8, ''])
                for v in {us[0], us[-1], rng.choice(us)}:
                    noncanon_case(ctx, 'vu', k, ln, v, pre, tail)
                    if k == 4:
                        noncanon_case(ctx, 'c', 4, ln, v, pre, tail)
                for v in {ss[0], ss[1] if len(ss) > 1 else ss[0], rng.choice(ss)}:
                    noncanon_case(ctx, 'vi', k, ln, v, pre, tail)
    # zero written with every len; small values with every len (VarUInteger 16 / 32)
    for k in (4, 5):
        for ln in range(0, (1 << k)):
            if k + 8 * ln > 1000:
                continue
            for v in (0, 1, 255):
                if ln or v == 0:
                    noncanon_case(ctx, 'vu', k, ln, v, '', '11')
                    noncanon_case(ctx, 'vi', k, ln, -v if v != 255 else 127, '1', '01')
            if k == 4:
                noncanon_case(ctx, 'c', 4, ln, 0, '0', '1')


_run_before_noncanon = run
_replay_before_noncanon = replay


def run(ctx):
    if ctx.search:
        state = ctx.rng.getstate()      # the search streams that follow keep their own draws
        noncanon_loads(ctx)
        ctx.rng.setstate(state)
        if ctx.failures:
            return
        _run_before_noncanon(ctx)
        return
    _run_before_noncanon(ctx)
    noncanon_loads(ctx)


def replay(ctx, payload):
    inp = payload.get('input') or {}
    if isinstance(inp, dict) and 'noncanon' in inp:
        noncanon_case(ctx, inp['noncanon'], int(inp['lenbits']), int(inp['len']), int(inp['value']), inp.get('pre', ''), inp.get('tail', ''), 'replay')
        return
    _replay_before_noncanon(ctx, payload)

# theorems about every legal (also non-minimal) VarUInteger / VarInteger / Grams encoding: Properties/C06NonCanon.lean
SPEC['property_modules'] = list(SPEC.get('property_modules', [])) + ['C06NonCanon']
SPEC['manifest']['text'] += (' NON-CANONICAL LENGTHS: Properties/C06NonCanon.lean proves that load_var_uint / load_coins / load_var_int - the hand model '
                             'and the methods regenerated from slice.py - return the value and leave exactly the continuation on EVERY legal encoding, i.e. for any '
                             'len field with value < 2^(8 len) (signed: representable in len bytes), not only the minimal one the stores write '
                             '(c06_var_uint_any_len, c06_coins_any_len, c06_var_int_any_len, c06_src_var_any_len); hand-built non-minimal encodings between a prefix '
                             'and a tail are loaded on the library and on the model every run (value, tail intact, nothing left, references untouched).')
SPEC['rule'] += ('; non-canonical var-ints: length prefix 2..5 bits x minimal byte class x len in {min, +1, +2, max, random}, boundary values, both signs, coins, '
                 'zero with every len, hand-built between a prefix and a tail')
