"""C14, object histories: the value a TlSchemas object parses / the bytes it serialises must not depend on what the SAME
object was asked before - in particular not on calls that were REFUSED part-way (an exception inside a nested, auto
deserialised bytes field; inside a vector; inside a conditional field; a serialize call on an ill-typed value).

Every round: (1) a set of well-typed values is serialised and parsed (plain and auto) and the results are kept, (2) a burst
of refused calls of one kind is made on the same object, (3) the same serialisations are parsed again and the same values
serialised again: results must be identical to (1) and to the independent TL encoding.  Failure keys
`history:<kind>:parse|serialize`.  Called from C14.run; uses only the library (the model has no object state: Lean's
deserialize is a function of the bytes)."""
import copy

from ..gen import tlvals as V


def _call(f, *a):
    try:
        return ('ok', f(*a))
    except RecursionError:
        return ('err', 'RecursionError')
    except Exception as e:
        return ('err', type(e).__name__)


def _bytes_hosts(W):
    return [c for c in W.ctors if W.fully_typed(c) and W.canonical(c) and
            any(a['ety'] == ('base', 'bytes') and not a['vec'] and a['cond'] is None for a in c['args'])]


def _nested_value(W, rng, hosts, pool, depth):
    """host value whose bytes field holds one serialised object (recursively `depth` levels) + what auto mode returns"""
    host = rng.choice(hosts)
    v = V.gen_obj(W, rng, host, 0, {'depth': 1, 'big': False})
    exp = dict(v)
    fields = [a for a in host['args'] if a['ety'] == ('base', 'bytes') and not a['vec'] and a['cond'] is None]
    a = rng.choice(fields)
    untouch = a['field'] in W.lib.untouchables.get(host['name'], ())
    if depth > 1:
        ic, iv, iexp = _nested_value(W, rng, hosts, pool, depth - 1)
    else:
        ic = rng.choice(pool)
        iv = V.gen_obj(W, rng, ic, 0, {'depth': 1, 'big': False})
        iexp = iv
    content = V.enc_obj(W, ic, iv, True)
    v[a['field']] = content
    exp[a['field']] = content if untouch else iexp
    return host, v, exp


def _refused_inputs(W, rng, hosts, pool, kind):
    """byte strings / values the library refuses, by kind"""
    out = []
    vec_ctors = [c for c in pool if any(a['vec'] for a in c['args'])]
    for _ in range(40):
        if kind == 'nested-raise':
            # a host whose bytes field starts with a registered id but the object inside is cut short / has a vector
            # announcing more elements than there are bytes: the NESTED parse raises
            host = rng.choice([h for h in hosts])
            v = V.gen_obj(W, rng, host, 0, {'depth': 1, 'big': False})
            fields = [a for a in host['args'] if a['ety'] == ('base', 'bytes') and not a['vec'] and a['cond'] is None]
            a = rng.choice(fields)
            if rng.random() < 0.5 and vec_ctors:
                ic = rng.choice(vec_ctors)
                inner = ic['id'].to_bytes(4, 'little') + b'\xff\xff\xff\xff'
            else:
                ic = rng.choice([c for c in pool if c['args']])
                iv = V.gen_obj(W, rng, ic, 0, {'depth': 1, 'big': False})
                full = V.enc_obj(W, ic, iv, True)
                inner = full[:max(4, rng.randrange(4, max(5, len(full))))]
                inner = inner[:len(inner) - (len(inner) % 4 == 0 and len(inner) > 4 and rng.random() < 0.3)]
            v[a['field']] = inner
            out.append(('parse', V.enc_obj(W, host, v, True)))
        elif kind == 'top-truncated':
            c = rng.choice([c for c in pool if c['args']])
            v = V.gen_obj(W, rng, c, 0, {'depth': 2, 'big': False})
            full = V.enc_obj(W, c, v, True)
            out.append(('parse', full[:rng.randrange(4, max(5, len(full)))]))
        elif kind == 'vector-overrun':
            if not vec_ctors:
                break
            c = rng.choice(vec_ctors)
            out.append(('parse', c['id'].to_bytes(4, 'little') + rng.randbytes(rng.randrange(0, 9)) + b'\xff\xff\xff\x7f'))
        elif kind == 'unknown-id':
            out.append(('parse', rng.randbytes(rng.choice([0, 1, 3, 4, 7, 12]))))
        elif kind == 'ill-typed-serialize':
            c = rng.choice([c for c in pool if c['args']])
            v = V.gen_obj(W, rng, c, 0, {'depth': 1, 'big': False})
            f = rng.choice(list(v.keys())) if v else None
            if f is None:
                continue
            bad = dict(v)
            bad[f] = rng.choice([object(), None, {'@type': 'no.such.constructor'}, [object()], 'text' if not isinstance(v[f], (str, bytes)) else 1.5])
            out.append(('serialize', (c, bad)))
    return out


KINDS = ['nested-raise', 'top-truncated', 'vector-overrun', 'unknown-id', 'ill-typed-serialize']


def history_after_refusals(ctx, W):
    rng = ctx.rng
    hosts = _bytes_hosts(W)
    pool = [c for c in W.ctors if W.covered(c) and W.canonical(c)]
    if not hosts or not pool:
        return
    lib = W.lib
    for rnd in range(ctx.n(2, 10)):
        for kind in KINDS:
            # (1) reference results on the object as it is now
            refs = []
            for depth in (1, 1, 2, 3):
                host, v, exp = _nested_value(W, rng, hosts, pool, depth)
                enc = V.enc_obj(W, host, v, True)
                refs.append((host, v, exp, enc))
            for _ in range(4):
                c = rng.choice(pool)
                v = V.gen_obj(W, rng, c, 0, {'depth': 2, 'big': False})
                refs.append((c, v, None, V.enc_obj(W, c, v, True)))
            before = []
            for c, v, exp, enc in refs:
                lib._auto_deserialize = True
                a = _call(lib.deserialize, enc)
                lib._auto_deserialize = False
                p = _call(lib.deserialize, enc)
                lib._auto_deserialize = True
                s = _call(lib.serialize, lib.list[c['idx']], copy.deepcopy(v))
                before.append((a, p, s))
            # (2) a burst of refused calls on the same object
            refused = 0
            for what, x in _refused_inputs(W, rng, hosts, pool, kind):
                if what == 'parse':
                    lib._auto_deserialize = True
                    st, _ = _call(lib.deserialize, x)
                else:
                    c, bad = x
                    st, _ = _call(lib.serialize, lib.list[c['idx']], bad)
                refused += st == 'err'
            ctx.count(f'history:{kind}:refused_calls', refused)
            # (3) the same questions again
            for (c, v, exp, enc), (a0, p0, s0) in zip(refs, before):
                ctx.case(('history', kind, c['idx'], repr(v)), nontrivial=True)
                lib._auto_deserialize = True
                a = _call(lib.deserialize, enc)
                lib._auto_deserialize = False
                p = _call(lib.deserialize, enc)
                lib._auto_deserialize = True
                s = _call(lib.serialize, lib.list[c['idx']], copy.deepcopy(v))
                inp = {'ctor': c['name'], 'ctor_index': c['idx'], 'value': v, 'wire': enc.hex(), 'after_refused_calls_of_kind': kind,
                       'refused': refused}
                for mode, x0, x in (('auto', a0, a), ('plain', p0, p)):
                    same = x0[0] == x[0] and (x[0] != 'ok' or (x0[1][1] == x[1][1] and V.same(x0[1][0], x[1][0])))
                    if not same:
                        ctx.fail(f'history:{kind}:parse-{mode}', 'the same bytes parsed by the same TlSchemas object give a different result '
                                 'after some refused calls', inp, str(x)[:600], str(x0)[:600])
                    elif mode == 'auto' and exp is not None and x[0] == 'ok' and not V.same(x[1][0], exp):
                        ctx.fail(f'history:{kind}:parse-auto-expected', 'nested value does not parse to the expected value', inp, str(x)[:600], str(exp)[:600])
                if s0 != s or (s[0] == 'ok' and s[1] != enc):
                    ctx.fail(f'history:{kind}:serialize', 'the same value serialised by the same TlSchemas object gives different bytes '
                             'after some refused calls (or not the TL encoding)', inp, str(s)[:600], enc.hex()[:600])
    lib._auto_deserialize = True
