"""C18: CRC-16/XMODEM and CRC-32C.  Tie = translator (crc.py -> Generated/Crc.lean, theorems for all inputs)
+ correspondence of the driver with the library + an independent bitwise oracle in Python."""
from ..translate import crc as tr


def _lib():
    from pytoniq_core.crypto.crc import crc16, crc32c
    return crc16, crc32c


def bit16(data: bytes) -> bytes:
    c = 0
    for b in data:
        c ^= b << 8
        for _ in range(8):
            c = ((c << 1) ^ 0x1021) & 0xFFFF if c & 0x8000 else (c << 1) & 0xFFFF
    return c.to_bytes(2, 'big')


def bit32(data: bytes, order) -> bytes:
    c = 0xFFFFFFFF
    for b in data:
        c ^= b
        for _ in range(8):
            c = (c >> 1) ^ 0x82F63B78 if c & 1 else c >> 1
    return (c ^ 0xFFFFFFFF).to_bytes(4, order)


SPEC = dict(
    manifest=dict(
        category='proof',
        text="crc.py's integer loops and tables are translated to Lean on every run; Lean proves, for every byte string, that the translated code equals the bit-at-a-time CRC-16/XMODEM and CRC-32C definitions (256-entry table obligations by kernel evaluation, per-byte lemma by xor-linearity, induction over the input). Also proved for every record and every amount of zero padding: crc16(record || crc16(record) || zeros) = 0000 and crc32c(record || un-inverted little-endian register || zeros) = ffffffff, for the bitwise definition and for the translated code (c18_*_framed, c18_*_framed_code) - the register-state inputs the harness samples.",
        level_note='Trusted: Lean kernel (propext, Classical.choice, Quot.sound only), the 150-line Python->Lean expression translator, Spec/Crc.lean as the CRC definitions, int.to_bytes modelled by hand. The correspondence (driver vs library vs independent bitwise oracle) additionally ties the compiled model to the library on ~38k (quick) / ~800k (thorough) inputs, among them ~10k messages solved (with the bitwise definition) to put the register into a special state (0, all ones, 1, top bit, initial value ...) at every position up to 200 and around 256..65536 / the sizes crc.py itself mentions, followed by zero bytes and arbitrary tails.',
        technique='Lean 4 proof over a model regenerated from source + differential correspondence',
    ),
    translators=[('crc.py->Generated/Crc.lean', tr.regenerate)],
    design_ref='DESIGN.md §6 C18',
    rule='inputs: all 256 one-byte strings, all/sampled two-byte strings, seeded random strings of length 0..4096 '
         '(both byte orders for CRC-32C); messages SOLVED to put the register into a special state (0, all ones, 1, top bit, initial value ..) at '
         'every position up to 200 and around 256..65536 and the sizes the current source mentions, then zero bytes and arbitrary tails '
         '(record || un-inverted crc || zero padding || tail); distinct = distinct (function, input); every input is non-trivial except the empty string',
    trusted_base=['harness/translate/pyexpr.py + crc.py (Python int loop -> Lean Nat fold)',
                  'Spec/Crc.lean is the bitwise definition of CRC-16/XMODEM and CRC-32C',
                  'int.to_bytes modelled by toBytesBE?/toBytesLE?'],
    assumptions=['Python int arithmetic = Lean Nat arithmetic on the translated subset',
                 'correspondence is sampled: it ties the *driver build* to the library, the theorems are about the regenerated source'],
)


def _call(f, *a):
    try:
        return f(*a)
    except Exception as e:  # any exception == err
        return None


def inputs(ctx):
    yield b''
    for i in range(256):
        yield bytes([i])
    if ctx.thorough:
        for i in range(256):
            for j in range(256):
                yield bytes([i, j])
    else:
        for _ in range(2000):
            yield bytes([ctx.rng.randrange(256), ctx.rng.randrange(256)])
    for _ in range(ctx.n(600, 6000)):
        n = ctx.rng.choice([3, 4, 5, 7, 8, 9, 15, 16, 17, 31, 32, 33, 34, 36, 63, 64, 65, 127, 128, 255, 256, 1000, ctx.rng.randrange(0, 4097)])
        yield ctx.rng.randbytes(n)
    # beyond every plausible internal block size (a bag of cells of > 64 KiB is hashed in one call)
    for n in (65535, 65536, 65537, 70001) + ((131071, 131072, 131073, 262145, 1048577) if ctx.thorough else (131073,)):
        yield ctx.rng.randbytes(n)
    # structured: a single non-zero byte at every position of a 34-byte buffer (address layout)
    for pos in range(34):
        for v in (1, 0x80, 0xff):
            b = bytearray(34)
            b[pos] = v
            yield bytes(b)


def check_inputs(ctx, datas):
    crc16, crc32c = _lib()
    reqs = []
    for d in datas:
        h = d.hex() or '-'
        reqs += [f'crc16 {h}', f'crc32c {h} 0', f'crc32c {h} 1']
    outs = ctx.model.run(reqs) if ctx.driver_ok else None
    for k, d in enumerate(datas):
        if k % 37 == 5:
            # a call that is REJECTED part-way through its input (an item that is no byte) must leave nothing behind:
            # the checksums computed afterwards are functions of their own argument only
            for bad in ([d[0] if d else 1, 2, 300], [7, 'a'], (5, None), [1, 2, 3, -70000], [0x31, 256]):
                for f in (crc16, lambda x: crc32c(x, 'little'), lambda x: crc32c(x, 'big')):
                    try:
                        f(bad)
                    except Exception:
                        pass
            ctx.count('rejected-input-before')
        got = [_call(crc16, d), _call(crc32c, d, 'little'), _call(crc32c, d, 'big')]
        want = [bit16(d), bit32(d, 'little'), bit32(d, 'big')]
        names = ['crc16', 'crc32c-little', 'crc32c-big']
        for j in range(3):
            ctx.case((names[j], d), nontrivial=len(d) > 0, sample={'fn': names[j], 'data': d.hex(), 'result': got[j].hex() if got[j] else None})
            ctx.count(f'len<{1 << max(len(d) - 1, 0).bit_length()}')
            if got[j] != want[j]:
                ctx.fail(f'{names[j]}:{d.hex()[:64]}', f'{names[j]} differs from the bitwise definition',
                         {'fn': names[j], 'data': d.hex()}, got[j].hex() if got[j] else 'err', want[j].hex())
            elif outs is not None:
                m = outs[3 * k + j]
                lib = 'ok ' + got[j].hex()
                if m != lib:
                    # model != code while code == bitwise spec: the model/driver is wrong or stale -> obligation, not an input failure
                    ctx.corr_broken(f'driver != library on {names[j]}({d.hex()[:40]}): {m} vs {lib} (library == bitwise oracle)')
                    ctx.count('driver_disagreements')


CRC_FILES = ['pytoniq_core/crypto/crc.py']


def check_states(ctx):
    """Round 10 class: messages that put the CRC register into a special state (0, all ones, 1, top bit, initial value ...) at a chosen
    position - every position up to 200 (all offsets mod 8, totals 2..290), around 256 / 512 / 1024 / 4096 / 65536 and around every size
    the CURRENT crc.py compares / slices / masks with - followed by zero bytes and arbitrary tails (harness/gen/crcstates.py:
    `record || un-inverted crc(record) || zero padding || tail` and its siblings).  Oracle: the bit-at-a-time definition continued from
    the solved state (independent of the library); messages up to 300 bytes are re-checked from scratch with bit16 / bit32."""
    from ..gen import crcstates as cs
    from ..gen.literals import source_thresholds
    crc16, crc32c = _lib()
    extra = [t for t in source_thresholds(CRC_FILES) if 8 <= t <= 1 << 17]
    ctx.count('state:source-thresholds', len(extra))
    for alg in (cs.CRC16_XMODEM, cs.CRC32C):
        fns = [('crc16', crc16, 'big')] if alg is cs.CRC16_XMODEM else [('crc32c-little', lambda d: crc32c(d, 'little'), 'little'),
                                                                         ('crc32c-big', lambda d: crc32c(d, 'big'), 'big')]
        reqs, exps = [], []
        for d, reg, label in cs.register_state_messages(alg, ctx.rng, extra_positions=extra, per_position=ctx.n(6, 12)):
            ctx.count(f'state:{alg.name}:{label.split("=")[1].split("@")[0]}')
            for name, f, order in fns:
                want = alg.value(reg).to_bytes(alg.nbytes, order)
                if len(d) <= 300 and want != (bit16(d) if name == 'crc16' else bit32(d, order)):
                    raise AssertionError(f'harness: crcstates oracle != bitwise definition on {label}')
                got = _call(f, d)
                ctx.case((name, d), sample={'fn': name, 'class': label, 'len': len(d)})
                if got != want:
                    ctx.fail(f'{name}:{d.hex()[:64]}', f'{name} differs from the bitwise definition on a message that reaches a special register state ({label})',
                             {'fn': name, 'data': d.hex(), 'class': label}, got.hex() if got else 'err', want.hex())
                elif ctx.driver_ok and len(d) <= 4200:
                    reqs.append(f'crc16 {d.hex()}' if name == 'crc16' else f'crc32c {d.hex()} {0 if order == "little" else 1}')
                    exps.append((name, d, 'ok ' + got.hex()))
        if reqs:
            for (name, d, lib), m in zip(exps, ctx.model.run(reqs)):
                if m != lib:
                    ctx.corr_broken(f'driver != library on {name}({d.hex()[:40]}) [register-state class]: {m} vs {lib} (library == bitwise oracle)')
                    ctx.count('driver_disagreements')


def run(ctx):
    check_states(ctx)
    batch = []
    for d in inputs(ctx):
        batch.append(d)
        if len(batch) >= 5000:
            check_inputs(ctx, batch)
            batch = []
    if batch:
        check_inputs(ctx, batch)


def replay(ctx, payload):
    inp = payload.get('input') or {}
    if isinstance(inp, dict) and 'data' in inp:
        check_inputs(ctx, [bytes.fromhex(inp['data'])])
