"""C01: ordinary cell hash/depth = TON representation hash/depth, through every construction route."""
from ..gen import cells as G
from ..translate import arith, cellctor, cellentry

SPEC = dict(
    manifest=dict(
        category='proof',
        text='Lean proves for EVERY tree of ordinary cells (all bit lengths, ref counts, shapes; SHA-256 abstract) that the model of Cell.__init__ is constructible iff depth<=1023 and reports the textbook representation hash/depth at every level, that get_representation hashes to the cached hash, that ==/__hash__ coincide with hash equality, and that the standard representation is injective (c01_repr_injective: d1 d2 ++ padded data ++ child depths ++ child hashes determines the BIT STRING -- the completion-tag padding is invertible given d2, Proofs/Pad.lean -- the reference count and every child depth field and hash; c01_hash_binding: equal hashes without a collision on the two representations mean equal bits and child hashes). The model is tied to the code by differential correspondence through 12 construction routes. The integer arithmetic the model rests on (descriptors, level-mask functions, depth limit, pruned offsets) is additionally REGENERATED from the Python source on every run and proved equal to the model/spec for all inputs (c0x_src_* theorems). The WHOLE constructor is regenerated as well: Cell.__init__ with resolve_mask, the calculate_hashes loop (hash-index bookkeeping, the three raise points, child depths and hashes fed to the hash object), get_descriptors, the completion-tag padding of get_data_bytes, get_hash/get_depth of the children and NullCell.__init__ are re-translated into Generated/CellCtor.lean on every run (harness/translate/pyobj.py + cellctor.py, validated against the running library on about 480 cells each time the source or translator changes), and Lean proves for ALL cell types, bit strings and child infos that the regenerated constructor equals the hand model Model.construct including Cell.hash, the descriptor bytes and the padded data (c01_src_constructor; Proofs/SrcCellCtor.lean), so c01_hash_depth / c01_constructible_iff hold for what the source computes (c01_src_hash_depth). A source change inside the translatable subset breaks this proof and the check then evaluates regenerated constructor vs model on boundary DAGs to hand the differing cells to the oracle; outside the subset the tie is reported lost and the sampled correspondence decides. The OBSERVERS are regenerated too (harness/translate/cellentry.py -> Generated/CellEntry.lean, same program as the constructor, validated against the library on the same ~480 cells): Cell.get_representation (descriptors ++ data or the previous hash ++ child depths ++ child hashes, the Merkle level shift, one loop over the references), calculate_representation_hash, the property hash, __eq__ and __hash__ are proved equal to Model.representation / CellInfo.pyEq / pyHash for ALL infos and child infos (c01_src_observers), and the three statements are restated about the regenerated code: c01_src_repr_agrees (for every ordinary cell of depth <= 1023 the regenerated calculate_representation_hash on the attributes the regenerated constructor leaves behind returns the cached Cell.hash), c01_src_eq_iff_hash, c01_src_pyhash_iff_hash (neither raises; True / equal dict keys exactly when the hashes are equal). A change of these lines inside the subset breaks a proof; the check then lets Lean compare regenerated vs model per cell (cellentry.diff_dags) and hands the differing cells to the oracle (representation hash vs spec, == / hash() / dict lookup over all pairs). Round 10: every run also builds (a) sibling sub-DAGs whose depths are chosen independently over both bytes of the 2-byte depth field a parent hashes (one shared spine of depth 0..1023, every ordered pair of 18 depth points, 2-4 siblings of byte-wise independent depths, such cells as siblings again, children at the limit; the same with pruned branches that STORE their depth) and (b) a tree next to its pruned / differently pruned twins, where ==, !=, hash(), dict and set and list membership of every pair are judged by the SPEC representation hashes; c01_twins_unequal proves for all infos that cells of different level mask (a tree vs. its pruned twin) are unequal and have different dict keys unless H collides on their two representations.',
        level_note='Trusted: Lean kernel (propext, Classical.choice, Quot.sound), the source translators pyarith.py / pyobj.py with their declared interface (attribute types, a child cell = its CellInfo, sha256 streaming = hash of the concatenation, bitarray/int built-ins of PyObj.lean; a property read = the call of its body; `other` in __eq__ is a constructed cell whose _hash is the hash of the model; differentially validated against CPython), Model/Cell.lean as a hand transcription of cell.py/exotic.py (for the constructor, get_representation, __eq__, __hash__ now proved equal to the regenerated source, c01_src_constructor / c01_src_observers; elsewhere checked by sampled correspondence: ~29k node observations per quick run incl. every bit-length class and depth 1022-1025 chains), bitarray/hashlib semantics, the Python harness.',
        technique='Lean 4 refinement proof (hand model) + constructor, get_representation, __eq__, __hash__ regenerated from the source and proved equal to the model for all inputs + differential correspondence with the library',
    ),
    translators=[('cell.py d1/d2/depth-limit->Generated/CellArith.lean', arith.regenerator('CellArith')),
                 ('exotic.py LevelMask->Generated/LevelMask.lean', arith.regenerator('LevelMask')),
                 ('cell.py Cell.__init__/resolve_mask/calculate_hashes/get_data_bytes->Generated/CellCtor.lean', cellctor.regenerate),
                 (cellentry.TIE_NAME, cellentry.regenerate)],
    lean_targets=['TonVerif.Proofs.SrcCellEntry'],
    design_ref='DESIGN.md §6 C01',
    rule='ordinary-cell DAGs: every bit length class (all 1024 lengths in thorough), 0-4 refs, sharing, chains to depth 1022/1023/1024; '
         'siblings with byte-wise independent depths over a shared spine / stored in pruned branches; a tree next to its pruned twins (all pairs, 10 identity observers); '
         'each node observed through routes ctor/plain-bitarray/builder/boc/copy/slice/to_builder; distinct = distinct (dag, node, route); '
         'non-trivial = node has bits or refs',
    trusted_base=['Model/Cell.lean mirrors Cell.__init__/calculate_hashes/get_hash/get_depth/get_representation by hand (each proved equal to its regenerated counterpart: c01_src_constructor, c01_src_observers)',
                  'harness/translate/cellentry.py (declared interface of get_representation / hash / __eq__ / __hash__: _hash assigned once as _hashes[-1]; _descriptors as stored by the constructor) for c01_src_repr_agrees / c01_src_eq_iff_hash / c01_src_pyhash_iff_hash',
                  'Spec/Cell.lean transcribes tvm.pdf 3.1.4-3.1.5', 'SHA-256 is an abstract parameter H in all theorems',
                  'lean/TonVerif/Sha256.lean (driver only) validated against hashlib on each run',
                  'harness/translate/pyarith.py + arith.py (Python int arithmetic -> Lean) and lean/TonVerif/PyInt.lean (meaning of bit_length / bin().count / math.ceil) for the c01_src_* theorems',
                  'harness/translate/pyobj.py + cellctor.py (object programs -> Lean: loops, early return, method calls, list/bitarray/hash-object mutation) with the declared interface in cellctor.py and lean/TonVerif/PyObj.lean, PyBytes.lean for c01_src_constructor (design/translators-cell.md)'],
    assumptions=['bitarray slicing/tobytes/fill behave as modelled', 'hashlib.sha256 is SHA-256',
                 'correspondence is sampled differential testing of model vs library'],
)

ROUTES = ['ctor', 'plain', 'builder']


def derived_routes(c):
    """cells that must be indistinguishable from c, via the other construction routes"""
    from pytoniq_core.boc.cell import Cell
    from pytoniq_core.boc.slice import Slice
    from pytoniq_core.boc.builder import Builder
    yield 'copy', lambda: c.copy()
    yield 'slice.to_cell', lambda: c.begin_parse().to_cell()
    yield 'to_builder', lambda: c.to_builder().end_cell()
    yield 'slice.to_builder', lambda: c.begin_parse().to_builder().end_cell()
    yield 'Slice.from_cell', lambda: Slice.from_cell(c).to_cell()
    yield 'boc', lambda: Cell.one_from_boc(c.to_boc())
    yield 'boc-idx-crc', lambda: Cell.one_from_boc(c.to_boc(True, True))
    yield 'boc-slice-entry', lambda: Slice.one_from_boc(c.to_boc()).to_cell()
    yield 'boc-builder-entry', lambda: Builder.one_from_boc(c.to_boc()).end_cell()
    # a bag written by ANOTHER serialiser that stores each cell's hashes/depths in the record (d1 bit 16) - once with the right
    # values and once with arbitrary ones: whatever the bytes claim, a cell that comes out must report ITS OWN representation hash
    yield 'boc-foreign-stored-hashes', lambda: Cell.one_from_boc(foreign_boc(c, None))
    yield 'boc-foreign-bogus-hashes', lambda: _or_rejected(lambda: Cell.one_from_boc(foreign_boc(c, 1)), c)
    yield 'boc-foreign-bogus-slice-entry', lambda: _or_rejected(lambda: Slice.one_from_boc(foreign_boc(c, 2)).to_cell(), c)
    # a bag of TWO roots whose root list is not the identity (an unrelated small cell sits at position 0, c's root later; the list names
    # c's root first): the first cell returned is the one the root list names, not the first record
    yield 'boc-foreign-root-order', lambda: Cell.from_boc(foreign_boc(c, None, prelude=True))[0]
    # a slice whose references have all been read, turned back into a builder / stored: nothing that was consumed may reappear
    yield 'consumed-refs.to_builder', lambda: _consumed_then_rebuilt(c, 'to_builder')
    yield 'consumed-refs.store_slice', lambda: _consumed_then_rebuilt(c, 'store_slice')


def _consumed_then_rebuilt(c, how):
    from pytoniq_core.boc.builder import Builder
    if c.type_ != -1:
        return c                                   # to_builder / store_slice refuse exotic cells by design
    s = c.begin_parse()
    refs = [s.load_ref() for _ in range(len(c.refs))]
    if how == 'to_builder':
        b = s.to_builder()                         # the remaining bits, no references left
    else:
        b = Builder()
        b.store_slice(s)
    for r in refs:
        b.store_ref(r)
    return b.end_cell()


def _or_rejected(f, c):
    """a parser may refuse a bag whose stored hashes are wrong (the reference node does); refusing is not a C01 matter"""
    try:
        return f()
    except Exception:
        return c


def foreign_boc(c, bogus, prelude=False):
    """independent encoder (C05.py_encode) over the sub-DAG of library cell c, every record carrying stored hashes/depths;
    bogus: None = the true values, int = seed of arbitrary values"""
    import random
    from . import C05
    order, seen, stack = [], set(), [(c, False)]
    while stack:                                   # iterative post-order; reversed = parents before children
        x, done = stack.pop()
        if done:
            order.append(x)
            continue
        if x.hash in seen:
            continue
        seen.add(x.hash)
        stack.append((x, True))
        for r in reversed(x.refs):
            if r.hash not in seen:
                stack.append((r, False))
    order.reverse()
    pos = {x.hash: i for i, x in enumerate(order)}
    rng = random.Random(f'{bogus}:{c.hash.hex()}')
    recs = []
    for x in order:
        m = x.level_mask.mask                      # a cell above a pruned branch has level > 0: one stored hash/depth per significant level
        hs, ds = [], []
        for l in [0] + [l for l in (1, 2, 3) if (m >> (l - 1)) & 1]:
            h, d = x.get_hash(l), x.get_depth(l)
            if bogus is not None:
                h, d = rng.randbytes(32), rng.choice([0, 1, d + 1, rng.randrange(1024)])
            hs.append(h)
            ds.append(d)
        recs.append(dict(kind=x.type_, bits=x.bits.to01(), refs=[pos[r.hash] for r in x.refs], mask=m, hashes=hs, depths=ds))
    store = [True] * len(recs)
    roots = [0]
    if prelude:
        # records of c's DAG shifted behind one unrelated leaf; root list = [root of c, the leaf]
        for r in recs:
            r['refs'] = [i + 1 for i in r['refs']]
        recs.insert(0, dict(kind=-1, bits='1010110011', refs=[], mask=0, hashes=[b'\x00' * 32], depths=[0]))
        store = [False] + store
        roots = [1, 0]
    n = len(recs)
    size = 1 if n < 256 else 2
    tot = sum(len(C05.enc_record(r, size, st)) for r, st in zip(recs, store))
    fr = dict(magic='g', size=size, off=max(1, (tot.bit_length() + 7) // 8), idx=False, crc=bool(bogus), cache=False,
              store=store, cflags=[])
    return C05.py_encode(recs, roots, fr)


def cmp_obs(a, b):
    return [k for k in ('mask', 'hashes', 'depths', 'hash', 'repr', 'pyhash') if a[k] != b[k]]


def spec_obs(s):
    return dict(mask=s.mask, hashes=[s.H[l] for l in range(4)], depths=[s.D[l] for l in range(4)], hash=s.H[4], repr=s.H[4],
                pyhash=int.from_bytes(s.H[4], 'big'))


def check_dag(ctx, nodes, tag, derive=True, routes=ROUTES):
    spec = G.spec_dag(nodes)
    model = G.parse_dag_answer(ctx.model.run([G.dag_line(nodes)])[0]) if ctx.driver_ok else None
    inp = {'dag': [list(n) for n in nodes], 'tag': tag}
    for route in routes:
        libs = G.lib_build(nodes, route)
        for i, c in enumerate(libs):
            nt = bool(nodes[i][1] or nodes[i][2])
            ctx.case((tag, tuple(nodes[:i + 1]), route), nontrivial=nt,
                     sample={'route': route, 'node': list(nodes[i]), 'hash': c.hash.hex() if c is not None else None} if i == len(libs) - 1 else None)
            ctx.count(f'route:{route}')
            s = spec[i]
            ctx.count('refs:%d' % len(nodes[i][2]))
            ctx.count('len%%8=%d' % (len(nodes[i][1]) % 8))
            o = _judge(ctx, route, i, c, s, False if model is None else model[i], lambda: inp)
            if o is None:
                continue
            if derive and i == len(libs) - 1 and nodes[i][0] == G.ORD:      # (an exotic cell has no builder / slice form)
                for name, f in derived_routes(c):
                    try:
                        d = f()
                    except Exception as e:
                        ctx.fail(f'route:{name}', f'route {name} raised {type(e).__name__}', inp, repr(e), 'equal cell')
                        continue
                    ctx.case((tag, tuple(nodes), route, name))
                    ctx.count(f'route:{name}')
                    od = G.observe(d)
                    if cmp_obs(od, o) or d.bits.to01() != nodes[i][1] or not (d == c) or hash(d) != hash(c):
                        ctx.fail(f'route:{name}', f'cell obtained through {name} differs from the original', inp, od, o)
    return spec


def _obs(name, f):
    return name, f


# every way the library (and Python through it) identifies a cell; each answers "are a and b the same cell?"
IDENTITY_OBSERVERS = [
    _obs('==', lambda a, b: bool(a == b)),
    _obs('!=', lambda a, b: not (a != b)),
    _obs('__hash__', lambda a, b: a.__hash__() == b.__hash__()),
    _obs('hash()', lambda a, b: hash(a) == hash(b)),
    _obs('dict-get', lambda a, b: {a: 1}.get(b) is not None),
    _obs('dict-overwrite', lambda a, b: len({a: 1, b: 2}) == 1),
    _obs('set-in', lambda a, b: b in {a}),
    _obs('set-len', lambda a, b: len({a, b}) == 1),
    _obs('list-in', lambda a, b: b in [a]),
    _obs('list-count', lambda a, b: [a, a].count(b) == 2),
]


def identity_pairs(ctx, nodes, tag, pairs=None, spec=None):
    """"Two cells compare equal, and collide as dictionary keys, exactly when their representation hashes are equal", judged by the
    SPEC hashes (gen/cells.py spec_node), for every observer that identifies cells, over pairs of nodes of one DAG (all ordered pairs if
    `pairs` is None), the second operand once from the same build and once built again through another route."""
    spec = spec or G.spec_dag(nodes)
    libs = G.lib_build(nodes, 'ctor')
    libs2 = G.lib_build(nodes, 'builder')
    ok = [i for i in range(len(nodes)) if spec[i] is not None and spec[i].valid and libs[i] is not None and libs2[i] is not None]
    if pairs is None:
        pairs = [(i, j) for i in ok for j in ok]
    n0 = len(ctx.failures)
    for i, j in pairs:
        if i not in ok or j not in ok:
            continue
        si, sj = spec[i], spec[j]
        want = si.H[4] == sj.H[4]
        cls = 'equal' if want else 'level0-twins' if (si.H[0] == sj.H[0] and si.kind == sj.kind) else 'same-bits' if \
            (si.bits == sj.bits and si.kind == sj.kind) else 'different'
        ctx.case(('eq', tag, si.H[4], sj.H[4]), nontrivial=(i != j))
        ctx.count('eq:' + cls)
        for b, how in ((libs[j], 'same-build'), (libs2[j], 'rebuilt')):
            a = libs[i]
            for name, f in IDENTITY_OBSERVERS:
                try:
                    got = f(a, b)
                except Exception as e:
                    got = f'raised {type(e).__name__}'
                if got is not want and len(ctx.failures) < n0 + 6:
                    sub, new = G.sub_dag(nodes, [i, j])
                    # kind `eq`: an observable collision / separation of two cells; kind `pyhash`: only the hash values agree / differ
                    ctx.fail(f'{"pyhash" if "hash" in name else "eq"}:{name}', f'{name} says {got} for two cells ({cls}, second operand {how}) whose representation hashes are '
                             f'{"equal" if want else "different"}', {'dag': [list(n) for n in sub], 'pair': [new[i], new[j]], 'tag': tag},
                             {'observer': name, 'answer': got, 'a.hash': a.hash.hex(), 'b.hash': b.hash.hex(),
                              'a.get_hash(0)': a.get_hash(0).hex(), 'b.get_hash(0)': b.get_hash(0).hex()},
                             {'answer': want, 'spec hash a': si.H[4].hex(), 'spec hash b': sj.H[4].hex()})
    return len(ctx.failures) > n0


def eq_pairs(ctx, nodes, tag='eq'):
    """__eq__ / __hash__ / dict / set / list membership exactly when the (spec) hashes are equal, over all pairs of nodes of one DAG."""
    n = len(nodes)
    pairs = None
    if n > 40:                              # big DAG: every node with itself, its neighbours and a spread of others
        pairs = [(i, j) for i in range(n) for j in sorted({i, (i + 1) % n, (i * 7 + 3) % n, n - 1 - i})]
    return identity_pairs(ctx, nodes, tag, pairs)


def check_shared(ctx, nodes, focus, tag, routes):
    """check_dag for ONE big DAG whose sub-DAGs are shared by many cells of interest (`focus`): every node is built through `routes`
    and judged against spec and model; a failure is reported with the sub-DAG under the failing cell as its (replayable) input."""
    spec = G.spec_dag(nodes)
    model = G.parse_dag_answer(ctx.model.run([G.dag_line(nodes)])[0]) if ctx.driver_ok else None
    fset = set(focus)
    n0 = len(ctx.failures)
    for route in routes:
        libs = G.lib_build(nodes, route)
        for i, c in enumerate(libs):
            if len(ctx.failures) >= n0 + 8:          # leave room for the failures of the other classes (core keeps 50)
                return spec
            s = spec[i]
            ctx.case((tag, route, i if s is None or not s.valid else s.H[4]), nontrivial=True)
            ctx.count(f'route:{route}')
            if i in fset:
                ctx.count('refs:%d' % len(nodes[i][2]))
                ds = [spec[j].D[0] for j in nodes[i][2] if spec[j] is not None and spec[j].valid]
                if len(ds) == len(nodes[i][2]) and len(ds) >= 2:
                    ctx.count('sibling-depth-bytes:' + G.sibling_relation(ds))     # '><' = the bytes of the deepest and another child cross
            _judge(ctx, route, i, c, s, False if model is None else model[i], lambda i=i: _sub_input(nodes, i, tag))
    return spec


def _sub_input(nodes, i, tag):
    sub, _ = G.sub_dag(nodes, [i])
    return {'dag': [list(n) for n in sub], 'tag': tag}


def _judge(ctx, route, i, c, s, m, fill):
    """one library cell `c` (None = the constructor raised) against its spec values `s` and the model's `m` (None = the model refuses the
    cell, False = no model available); fill() = the failure input, built only when needed; -> observation or None"""
    if s is None:
        return None
    if not s.valid:
        ctx.count('spec-invalid:' + s.why)
        if c is not None and s.why in ('depth>1023', 'bits>1023'):
            ctx.fail(f'overlimit:{route}', f'cell beyond limits ({s.why}) was constructed', fill(), 'constructed', 'error')
        if m is not False and (m is None) != (c is None):
            ctx.corr_broken(f'constructibility differs on invalid cell node {i} route {route}: model={m is not None} lib={c is not None}; {fill()}')
        return None
    if c is None:
        ctx.fail(f'unconstructible:{route}', 'spec-valid ordinary cell cannot be constructed', fill(), 'exception', 'cell')
        return None
    o = G.observe(c)
    bad = cmp_obs(o, spec_obs(s))
    if bad:
        ctx.fail(f'hash:{route}:{",".join(bad)}', f'library {bad} differ from the TON representation hash/depth (node {i})', fill(),
                 {k: o[k] for k in bad}, {k: spec_obs(s)[k] for k in bad})
    elif m is not False:
        if m is None or cmp_obs(o, m):
            ctx.corr_broken(f'model != library on node {i} route {route}: {fill()}')
    return o


def src_search(ctx):
    """Search mode only: the points where a regenerated definition (Generated/CellArith.lean) differs from the function it is
    proved equal to, turned into cells for the oracle.  True = a concrete failing input was found."""
    found = arith.search_points(ctx, ['CellArith'])
    n0 = len(ctx.failures)
    leaf = [(G.ORD, '101', ())]
    for pt in found.get('bitsDescriptor') or []:
        if pt['b'] <= 1023:
            check_dag(ctx, [(G.ORD, G.rand_bits(ctx.rng, pt['b']), ())], f'src-d2-len{pt["b"]}', derive=False)
    for pt in found.get('refsDescriptor') or []:
        if pt['r'] <= 4 and not pt['exotic'] and pt['mask'] == 0:
            check_dag(ctx, leaf + [(G.ORD, '1', tuple([0] * pt['r']))], f'src-d1-refs{pt["r"]}', derive=False, routes=['ctor'])
    for pt in found.get('depthTooLarge') or []:
        if 1 <= pt['depth'] <= 1100:
            check_dag(ctx, G.chain(pt['depth'], '', 1), f'src-chain{pt["depth"]}', derive=False, routes=['ctor'])
    if len(ctx.failures) > n0:
        return True
    # the cells on which the REGENERATED constructor (Generated/CellCtor.lean) and the hand model differ
    rng = ctx.rng
    leaf = (G.ORD, '101', ())
    dags = [(f'len{n}refs{n % 5}', [leaf, (G.ORD, G.rand_bits(rng, n), tuple([0] * (n % 5)))]) for n in sorted(set(G.BOUNDARY_LENS) | set(range(0, 26)))]
    dags += [(f'dag{t}', G.gen_ordinary_dag(rng, rng.randrange(2, 10), deep=t % 2 == 0)) for t in range(12)]
    dags += [(f'chain{d}x{w}', G.chain(d, '', w)) for d in (1, 2, 1022, 1023, 1024) for w in (1, 2)]
    dags += [(t, n) for t, n in cellctor.validation_dags() if all(k == G.ORD for k, _, _ in n)]
    # siblings whose 2-byte depths interact byte-wise: a short spine with the parents that need no deeper child, and stored depths
    sd, sdf = G.sibling_depth_dag(rng, 0, top=300)
    sd_spec = G.spec_dag(sd)
    keep = [i for i in sdf if '><' in [G.byte_relation(max(sd_spec[j].D[0] for j in sd[i][2]), sd_spec[j].D[0]) for j in sd[i][2]]]
    dags.append(('sibling-depths', G.sub_dag(sd, keep + [300])[0]))
    dags.append(('stored-depth-siblings', G.stored_depth_siblings(rng, 60)[0]))
    found = cellctor.diff_dags(ctx, dags)
    found.sort(key=lambda f: sum(len(n[1]) for n in f[1]))
    for tag, nodes, idx in found[:40]:
        if len(nodes) > 60:                     # a shared DAG: judge each differing cell on its own sub-DAG
            for i in idx[:6]:
                check_dag(ctx, G.sub_dag(nodes, [i])[0], f'src-ctor-{tag}', derive=False, routes=['ctor'])
        else:
            check_dag(ctx, nodes[:max(idx) + 1], f'src-ctor-{tag}', derive=False, routes=['ctor'])
        if len(ctx.failures) > n0 + 3:
            break
    if len(ctx.failures) > n0:
        return True
    # the cells on which the REGENERATED get_representation / calculate_representation_hash / __eq__ / __hash__
    # (Generated/CellEntry.lean) and the hand model differ: check_dag compares the library's calculate_representation_hash and
    # __hash__ with the spec, eq_pairs judges == / hash() / dict lookup over all pairs of the DAG
    # + a tree next to its pruned twins (the versions' roots are adjacent nodes: the Lean comparison evaluates == between neighbours)
    dags = dags + [(f'pruned-twins{t}', G.pruned_twins(rng, exotic=t % 3 == 2)[0]) for t in range(8)]
    found = cellentry.diff_dags(ctx, dags)
    found.sort(key=lambda f: sum(len(n[1]) for n in f[1]))
    for tag, nodes, idx in found[:40]:
        check_dag(ctx, nodes[:max(idx) + 1], f'src-entry-{tag}', derive=False, routes=['ctor'])
        eq_pairs(ctx, nodes[:max(idx) + 1], f'src-entry-{tag}')
        if len(ctx.failures) > n0 + 3:
            break
    return len(ctx.failures) > n0


def run(ctx):
    rng = ctx.rng
    if ctx.search and src_search(ctx):
        return
    # sha256 of the driver vs hashlib
    import hashlib
    if ctx.driver_ok:
        msgs = [rng.randbytes(n) for n in (0, 1, 55, 56, 63, 64, 65, 119, 120, 200)]
        outs = ctx.model.run([f'sha256 {m.hex() or "-"}' for m in msgs])
        for m, o in zip(msgs, outs):
            if o != 'ok ' + hashlib.sha256(m).hexdigest():
                ctx.corr_broken(f'driver sha256 != hashlib on {m.hex()}')
    # single cells at every bit length
    lens = range(1024) if ctx.thorough else sorted(set(G.BOUNDARY_LENS) | set(range(0, 40)) | {rng.randrange(1024) for _ in range(40)})
    leaf = [(G.ORD, '101', ())]
    for n in lens:
        bits = G.rand_bits(rng, n)
        check_dag(ctx, [(G.ORD, bits, ())], f'len{n}', derive=(n % 8 in (0, 1, 7)) or ctx.thorough)
        k = n % 5
        check_dag(ctx, leaf + [(G.ORD, bits, tuple([0] * k))], f'len{n}refs{k}', derive=False, routes=['ctor', 'plain'])
    # over-long data
    for n in (1024, 1025, 2000):
        check_dag(ctx, [(G.ORD, '1' * n, ())], f'len{n}', derive=False, routes=['ctor', 'plain'])
    # random DAGs
    for t in range(ctx.n(150, 1500)):
        nodes = G.gen_ordinary_dag(rng, rng.randrange(1, 14), deep=rng.random() < 0.3)
        check_dag(ctx, nodes, f'dag{t}', derive=(t % 3 == 0))
        if t % 10 == 0:
            eq_pairs(ctx, nodes, f'dag{t}')
    # near twins built next to each other in one process: cells differing only in what a cache key could forget
    for t in range(ctx.n(120, 1200)):
        twins = G.near_twins(rng)
        check_dag(ctx, twins, f'twins{t}', derive=(t % 6 == 0), routes=[rng.choice(ROUTES)])
        if t % 4 == 0:
            eq_pairs(ctx, twins, f'twins{t}')            # equal bits with different references, equal references with different bits: == / hash() must tell them apart
    sibling_depths(ctx)
    pruned_twins(ctx)
    # chains around the depth limit
    for depth in (1, 2, 1021, 1022, 1023, 1024, 1025):
        for width in (1, 2):
            check_dag(ctx, G.chain(depth, '', width), f'chain{depth}x{width}', derive=False, routes=['ctor', 'builder'])
    # depth limit reached through the last ref only
    nodes = G.chain(1022) + [(G.ORD, '', ())]
    nodes.append((G.ORD, '1', (len(nodes) - 1, len(nodes) - 2)))
    nodes.append((G.ORD, '1', (0, len(nodes) - 1)))
    check_dag(ctx, nodes, 'chain-last-ref', derive=True, routes=['ctor'])


def sibling_depths(ctx):
    """CLASS: sibling sub-DAGs whose depths are chosen independently so that every byte of the 2-byte depth field a parent hashes is
    exercised (a deep child next to a shallower one with a larger low byte, in every position, 2-4 siblings, such cells again as
    siblings, children at the depth limit).  The deep sub-DAGs are one shared spine."""
    rng = ctx.rng
    nodes, focus = G.sibling_depth_dag(rng, ctx.n(250, 1200))
    spec = check_shared(ctx, nodes, focus, 'sibling-depths', ['ctor', 'builder'] if ctx.thorough else ['ctor', rng.choice(['plain', 'builder'])])
    # a few of them (children whose depth bytes cross) through every other construction route as well
    crossed = [i for i in focus if spec[i] is not None and spec[i].valid and
               '><' in [G.byte_relation(max(spec[j].D[0] for j in nodes[i][2]), spec[j].D[0]) for j in nodes[i][2]]]
    for t, i in enumerate(rng.sample(crossed, min(len(crossed), ctx.n(4, 12)))):
        sub, _ = G.sub_dag(nodes, [i])
        sub.append((G.ORD, G.rand_bits(rng, 5), (0, len(sub) - 1)))          # its parent hashes its depth
        check_dag(ctx, sub[:-1] if t % 2 else sub, f'sibling-depths-routes{t}', derive=True, routes=[rng.choice(ROUTES)])
    ctx.count('sibling-depths:crossed-cells', len(crossed))
    # the same class without any deep sub-DAG: pruned branches store the depth they answer with (ordinary / Merkle-update parents)
    nodes, focus = G.stored_depth_siblings(rng, ctx.n(150, 800))
    check_shared(ctx, nodes, focus, 'stored-depth-siblings', ['ctor', rng.choice(['plain', 'builder'])])


def pruned_twins(ctx):
    """CLASS: a tree next to its pruned / differently pruned twins (same level-0 tree, different cells) - all observed like any other cell
    (hash / depth / representation at every level, derived routes incl. a bag holding several twins) and compared with each other by
    every observer that identifies cells."""
    rng = ctx.rng
    for t in range(ctx.n(24, 200)):
        nodes, roots, what = G.pruned_twins(rng, exotic=t % 3 == 2)
        tag = f'pruned-twins{t}'
        spec = G.spec_dag(nodes)
        if len(nodes) <= 45:
            identity_pairs(ctx, nodes, tag, spec=spec)
        else:
            top = list(dict.fromkeys(roots)) + list(range(len(nodes) - 3, len(nodes)))
            identity_pairs(ctx, nodes, tag, pairs=[(i, j) for i in top for j in range(len(nodes))] + [(j, i) for i in top for j in range(len(nodes))], spec=spec)
        if len(ctx.failures) < 44:
            check_dag(ctx, nodes, tag, derive=(t % 4 == 0), routes=[rng.choice(ROUTES)])


def replay(ctx, payload):
    inp = payload.get('input') or {}
    if 'dag' in inp:
        nodes = [(k, b, tuple(r)) for k, b, r in inp['dag']]
        check_dag(ctx, nodes, inp.get('tag', 'replay'))
        if 'pair' in inp:
            identity_pairs(ctx, nodes, inp.get('tag', 'replay'), pairs=[tuple(inp['pair']), tuple(inp['pair'][::-1])])
