"""C10: dictionaries use the canonical TON Hashmap encoding; the parsers accept every valid tree."""
from ..gen import cells as G
from ..gen import maps as M
from ..translate import labelfns as tr
from ..translate import hashmapsrc as hmsrc
from ..translate import hashmapglue as hmglue
from . import C09
from . import c10_embed

SPEC = dict(
    manifest=dict(
        category='proof',
        text='utils.py\'s label functions are translated to Lean on every run; Lean proves for EVERY label and bound that detect_label_type '
             'equals the reference choice of dict.cpp (same iff constant and len>1 and k<2len-1, else long iff k<len, else short) and that this is '
             'the shortest admissible encoding with tie-break short<long<same (c10_label_kind, c10_label_minimal; arithmetic, no enumeration); that '
             'HashMap.serialize() — whenever it returns — yields a spec-valid Hashmap whose labels all use the reference constructor and whose '
             'leaves are the map in key order (c10_canonical); that two canonical trees with the same leaves are the same cell (c10_unique); and '
             'that parse_hashmap / HashMap.parse / from_cell / parse_hashmap_aug decode EVERY spec-valid Hashmap / HashmapAug tree, whatever '
             'label constructors it uses and with any edges replaced by pruned branches, returning exactly the leaves (and extras, in '
             'left/right/own order) of the non-pruned part (c10_parse_any*). Conversely (repaired defect: hashmap.tlb {n <= m} was not '
             'enforced) deserialize_hml returns the bit pattern of a label constructor iff the label is not longer than the remaining key - the '
             'accepted patterns are exactly the spec encodings (c10_label_accepted_iff) - so a cell whose label announces more bits than remain '
             'makes every parser entry point raise, at the root, below forks, and a parse that returns has met only fitting labels at every '
             'depth (c10_label_too_long_rejected, c10_label_too_long_below_fork, c10_parse_labels_fit); a negative key length is refused. '
             'A dictionary that is a FIELD of a larger constructor: an inline Hashmap whose fork root shares its cell with ANY further bits and references is decoded to the same leaves '
             '(c10_parse_embedded; HashmapE: load_dict / preload_dict on `1 ^root ...` = HashMap.parse(root) whatever follows) and the regenerated parse_hashmap leaves the caller\'s slice '
             'exactly behind it - label bits and two references consumed, nothing else (c10_src_parse_embedded). '
             'SOURCE TIE: every function of parse.py and utils.py is regenerated as a Lean function on every run (Generated/HashmapSrc.lean, translator pyrec.py) and validated '
             'against the running library; Lean proves FOR ALL INPUTS (every slice, int key length, dict, prefix, decoder pair; every recursion fuel >= 2*key_length+2) that the regenerated '
             'deserialize_unary / deserialize_hml / parse / deserialize_hashmap_node / parse_aug / deserialize_hashmap_aug_node / parse_hashmap equal the hand model '
             '(c10_src_label_reader, c10_src_parse, c10_src_parse_hashmap, c10_src_parse_aug), so c10_parse_any*, c10_label_accepted_iff and the over-long-label refusal hold of the code as '
             'written (c10_src_parse_any, c10_src_parse_any_aug, c10_src_label_accepted_iff, c10_src_label_too_long_rejected). The SERIALISER is tied the same way (Proofs/SrcHashmapSer.lean): the regenerated pad / find_common_prefix (every list of strings) / remove_prefix_map / fork_map / build_node / build_edge / build_tree '
             '(every map of pairwise different keys < 2^n, i.e. every map set_int_key can build) / write_label_short / long / same / write_label (every label, int key size and builder) / write_node / write_edge / serialize_dict '
             '(every value serialiser that appends bits and references; every fuel >= 2n+2) equal the hand model (c10_src_common_prefix, c10_src_build_tree, c10_src_label_writer, c10_src_serializer), so the label written is the reference constructor '
             'and minimal (c10_src_label_kind, c10_src_label_minimal) and whatever serialize_dict returns is THE canonical cell of the map (c10_src_canonical). Outside that domain (keys wider than the dict injected through HashMap(map_=..)) the Python dict re-keying may merge keys; not covered.',
        level_note='Trusted: Lean kernel (propext, Classical.choice, Quot.sound); Spec/Hashmap.lean as the transcription of hashmap.tlb and of '
                   'append_dict_label; Model/Hashmap.lean as a hand transcription of utils.py/parse.py (tied by sampled differential correspondence: '
                   'for non-default deserialisers and the Builder / Slice primitives only; HashMap.set / serialize / parse / from_cell, Slice.load_dict / preload_dict / load_hashmap / load_hashmap_aug / load_hashmap_aug_e (ordinary slice) and the int-key conversion of parse_hashmap_aug are regenerated (hashmapglue.py) and proved equal to the model (c10_src_parse_hashmap_aug, c10_src_load_hashmap_aug_e, c09_src_*); parser AND serialiser side: regenerated from parse.py / utils.py and proved equal, a value serialiser being read as a callback that appends bits and references (serCb), trusting pyrec.py, the declared interface in hashmapsrc.py and PyHm.lean as the reading of Slice/Builder/dict, validated against the library on 2.4k inputs per change; every (len,max,same) with max<=40 (<=64 thorough), tie-break boundaries for max up to 1023, random valid non-canonical trees '
                   'with Merkle prunings through 8 parser entry points; over-long labels of every constructor at depth 0-4 must raise); the 200-line Python->Lean translator for the label functions; '
                   'that the hash equals the on-chain one rests on c10_canonical + c10_unique + Spec/Hashmap.lean being the reference format, on C01 (cell hash), and is cross-checked on samples against an independent Python transcription of dict.cpp.',
        technique='Lean 4 proof (label functions, label reader, parse recursion, tree building and label/edge writer and the HashMap / Slice entry points regenerated from source and proved equal to the model) + differential correspondence + independent reference serialiser',
    ),
    translators=[('hashmap/utils.py->Generated/LabelFns.lean', tr.regenerate),
                 ('hashmap/parse.py+utils.py->Generated/HashmapSrc.lean', hmsrc.regenerate),
                 ('hashmap.py+slice.py dict methods->Generated/HashmapGlue.lean', hmglue.regenerate)],
    design_ref='DESIGN.md §6 C10',
    rule='(a) maps whose root label realises a given (len, max, constant?, bit): hash of HashMap.serialize() vs an independent transcription of the '
         'reference serialiser, all triples with max<=40/64 and boundary lens for every max<=1023 (sampled in quick); (b) spec-valid trees built by an '
         'independent encoder with a random admissible constructor on every edge, optional augmentation and random Merkle-pruned subtrees, fed to '
         'parse_hashmap, HashMap.parse, from_cell, load_dict, load_hashmap, parse_hashmap_aug, load_hashmap_aug, load_hashmap_aug_e; '
         '(c) cells whose edge label (hml_short / hml_long / hml_same) announces more bits than the key has left, as the root edge or below 1-4 '
         'well-formed forks, key lengths 1..256, plain and augmented: all 7 entry points must raise and the model must answer err; '
         '(d) dictionaries as FIELDS (c10_embed.py, gen/dictfields.py): a cell = sequence of bit fields, ^Cell fields and dictionaries (inline Hashmap / '
         'HashmapAug, HashmapE / HashmapAugE; whole, empty, pruned at every edge in turn incl. the root reference itself) with 0..2 references and 0..61 bits '
         'before and after each, 1-4 dictionaries per cell, read field by field from ONE slice through every entry point (load_dict, preload_dict+load_dict, '
         'load_bit/load_ref + HashMap.parse / parse_hashmap, load_hashmap, HashMap.parse(slice), parse_hashmap(slice), load_hashmap_aug, parse_hashmap_aug, '
         'load_hashmap_aug_e; with and without value deserialisers): result = leaves of the non-pruned part, slice exactly behind the dictionary, following fields read back; '
         'distinct = distinct (tree, constructors, prunings); non-trivial = at least one leaf',
    trusted_base=['Spec/Hashmap.lean transcribes hashmap.tlb + dict.cpp label choice', 'Model/Hashmap.lean mirrors utils.py/parse.py by hand',
                  'harness/translate/labelfns.py', 'harness/translate/pyrec.py + hashmapsrc.py (declared interface) + lean/TonVerif/PyHm.lean', 'harness/gen/maps.py: independent reference serialiser and tree encoder'],
    assumptions=['correspondence is sampled differential testing', 'pruned branches are level-1 prunings inside one Merkle proof'],
)


def _lib():
    from pytoniq_core.boc.hashmap.hashmap import HashMap
    from pytoniq_core.boc.hashmap.parse import parse_hashmap, parse_hashmap_aug
    from pytoniq_core.boc.builder import Builder
    from pytoniq_core.boc.cell import Cell
    return HashMap, parse_hashmap, parse_hashmap_aug, Builder, Cell


call, is_err, slice_tok = C09.call, C09.is_err, C09.slice_tok


# ----------------------------------------------------------------------------- (a) canonical encoding

def canon_case(ctx, n, keys, vbits, tag, model=True):
    """library serialisation of {k: vbits} vs the independent reference serialiser"""
    HashMap = _lib()[0]
    inp = {'kind': 'canon', 'n': n, 'keys': [str(k) for k in keys], 'vbits': vbits, 'tag': tag}
    hm = HashMap(n)
    hm.value_serializer = lambda src, dest: dest.store_bits(src)
    for k in keys:
        hm.set_int_key(k, vbits)
    ctx.case(('canon', n, tuple(keys), vbits), sample={'n': n, 'keys': [str(k) for k in keys[:3]]})
    want = M.ref_hash({k: (vbits, []) for k in keys}, n)
    cell = call(hm.serialize)
    line = f"hmser - {n} raw {';'.join(f'i:{k}={vbits or chr(45)}/-' for k in keys)}"
    flags = '1' * len(keys)
    if want is None:
        ctx.count('canon:does-not-fit')
        if not is_err(cell):
            ctx.fail('canon-overflow', 'serialize() returned a cell for a dictionary whose canonical form does not fit', inp, 'cell', 'error')
        elif model:
            ctx.expect_model(line, f'ok {flags} err -', tag)
        return
    if is_err(cell):
        ctx.fail('canon-raised', f'serialize() raised {cell[1]} although the canonical dictionary fits', inp, cell, want.hex())
        return
    if cell.hash != want:
        root = cell.bits.to01()
        ctx.fail('canon-hash:' + tag.split(':')[0], 'hash of HashMap.serialize() differs from the reference (dict.cpp) serialisation',
                 dict(inp, root_bits=root[:80]), cell.hash.hex(), want.hex())
        return
    parsed = ';'.join(f'{k}={vbits or chr(45)}/-' for k in sorted(keys))
    if model:
        ctx.expect_model(line, f'ok {flags} {want.hex()} ok {parsed}', tag)


def label_cases(ctx):
    rng = ctx.rng
    lim = ctx.n(40, 64)
    triples = []
    for mx in range(1, lim + 1):
        for ln in range(0, mx + 1):
            triples.append((mx, ln))
    # tie-break boundaries for every bound up to 1023
    maxes = range(lim + 1, 1024) if ctx.thorough else sorted(set(rng.sample(range(lim + 1, 1024), 110)) | {63, 64, 65, 127, 128, 129, 255, 256, 257, 511, 512, 513, 1022, 1023})
    for mx in maxes:
        k = mx.bit_length()
        lens = {0, 1, 2, 3, k - 1, k, k + 1, (k + 1) // 2, (k + 1) // 2 + 1, (k + 2) // 2 + 1, mx - 1, mx, mx - k, 1023 - 12 - k if mx > 1000 else 5}
        for ln in sorted(l for l in lens if 0 <= l <= mx):
            triples.append((mx, ln))
    for mx, ln in triples:
        for same in (True, False):
            for v in '01':
                keys = M.two_key_map(mx, ln, same, v, rng if rng.random() < 0.5 else None)
                if keys is None:
                    continue
                ctx.count(f'label:{M.ref_label_kind(ln, mx, same)}')
                kk = mx.bit_length()
                if kk == ln or kk == 2 * ln - 1 or ln <= 2:
                    ctx.count('label:tie-or-boundary')
                canon_case(ctx, mx, keys, '1', f'lbl:{mx}:{ln}:{int(same)}', model=(mx <= 64 or rng.random() < 0.25))
    # hmlabel: generated function vs reference kind on the driver, random labels
    for _ in range(ctx.n(300, 3000)):
        mx = rng.choice([1, 2, 3, 7, 8, 15, 16, 64, 255, 256, 1023, rng.randrange(1, 1024)])
        ln = rng.randrange(0, min(mx, 40) + 1)
        s = G.rand_bits(rng, ln)
        kind = {'s': 'short', 'l': 'long', 'm': 'same'}[M.ref_label_kind(ln, mx, M.is_const(s))]
        lb = M.enc_label(s, mx, M.ref_label_kind(ln, mx, M.is_const(s)))
        ctx.expect_model(f"hmlabel {s or '-'} {mx}", f'ok {kind} {kind} {lb}', 'hmlabel')
    # random key sets
    for t in range(ctx.n(300, 3000)):
        n = rng.choice([1, 2, 3, 4, 5, 8, 16, 32, 64, 256, 267]) if rng.random() < 0.6 else M.rand_width(rng)
        keys = M.pattern_keys(rng, n) if n >= 5 else sorted({rng.randrange(1 << n) for _ in range(rng.randrange(1, 9))})
        rng.shuffle(keys)
        canon_case(ctx, n, keys, G.rand_bits(rng, rng.choice([0, 1, 4, 9])), f'set:{t}')


# ----------------------------------------------------------------------------- (b) any valid tree

def leaf_tok(bits, refs, cells):
    return f"{bits or '-'}/{'.'.join(cells[i].hash.hex() for i in refs) or '-'}"


def tree_case(ctx, n, items, ybits, prune_p, base, tag, canonical=False, force=None, xref=False, pre=None):
    """items: sorted [(key bits, (value bits, [ref idx]))]; builds a valid tree with random constructors and prunings and checks all parsers"""
    HashMap, parse_hashmap, parse_hashmap_aug, Builder, Cell = _lib()
    rng = ctx.rng
    t = pre if pre is not None else M.patricia(items)         # pre: a fully annotated tree (replay)
    room = max(len(v[0]) for _, v in items)
    # xref: extra:Y = uint(ybits) ++ Maybe ^Cell - the augmentation OWNS a reference (as CurrencyCollection's dictionary does),
    # so the parser must hand Y a slice whose next reference is the one after left/right (fork) / before the value's (leaf)
    xw = ybits + 1 if xref else ybits
    if pre is None and not M.choose_kinds(rng, t, n, xw, room, canonical):
        ctx.count('tree:does-not-fit')
        return
    if xref is True:
        def setx(t):
            if t['extra'][-1] == '1':
                if base and (('leaf' not in t) or len(t['leaf'][1]) < 4):
                    t['xrefs'] = [rng.randrange(len(base))]
                else:
                    t['extra'] = t['extra'][:-1] + '0'
            if 'leaf' not in t:
                setx(t['l'])
                setx(t['r'])
        setx(t)
    if force:
        force(t)
    if pre is None:
        M.mark_pruned(rng, t, prune_p)
    db, root, toks, leaves, extras = M.emit_tree(t, n, base)
    if not db.ok(root):
        ctx.count('tree:invalid-cell')
        return
    cells = G.lib_build(db.nodes, 'ctor')
    npruned = sum(1 for x in toks if x == 'P')
    inp = {'kind': 'tree', 'n': n, 'ybits': ybits, 'tokens': toks, 'base': [list(b) for b in base], 'tag': tag}
    if xref:
        def pre(t):
            return [list(t.get('xrefs', ()))] + ([] if 'leaf' in t else pre(t['l']) + pre(t['r']))
        inp['xref'] = True
        inp['xrefs'] = pre(t)            # pre-order, one entry per (non-'P') token
    ctx.case(('tree', n, ybits, tuple(toks)), nontrivial=bool(leaves), sample={'n': n, 'tokens': toks[:5], 'pruned': npruned})
    ctx.count(f'tree:pruned={min(npruned, 3)}')
    for x in toks:
        if x != 'P':
            p = x.split(':')
            ctx.count(f'edge:{p[2]}' + (':m0' if False else ''))
    rc = cells[root]
    if rc is None:
        ctx.fail('tree-cell', 'a spec-valid dictionary cell could not be constructed', inp, 'exception', 'cell')
        return
    if npruned:
        # a real Merkle proof around the pruned dictionary
        mp = call(lambda: Cell(__import__('bitarray').bitarray(G.mproof_bits(db.infos[root])), [rc], 3))
        if is_err(mp):
            ctx.fail('tree-merkle', 'Merkle proof cell around the pruned dictionary could not be built', inp, mp, 'cell')
            return
        rc = mp.refs[0]
    dag = G.dag_line(db.nodes)[8:]
    if not xref:        # the spec encoder's extras are bit strings; ref-carrying extras are checked against the parsers only
        ctx.expect_model(f"hmenc {G.dag_line(list(base))[8:] if base else '-'} {n} {','.join(toks)}",
                         'ok ' + rc.hash.hex() + ' ' + (';'.join(f'{k}={leaf_tok(b, r, cells)}' for k, b, r in leaves) or '-'), tag)
    want_bits = ';'.join(f'{k}={leaf_tok(b, r, cells)}' for k, b, r in leaves) or '-'
    want_int = ';'.join(f'{int(k, 2)}={leaf_tok(b, r, cells)}' for k, b, r in leaves) or '-'
    root_pruned = bool(t.get('pruned'))
    want_api = 'none' if root_pruned else want_int       # HashMap.parse / parse_hashmap_aug return None for a non-ordinary root

    dag2 = dag + f'|-1,1,{root}'
    cnode = len(db.nodes)

    def check(name, f, render, want, mode, node=root, dag=dag):
        got = call(f)
        ctx.count('parser:' + name)
        if is_err(got):
            ctx.fail(f'parse-any-raised:{name}', f'{name} raised {got[1]} on a spec-valid dictionary', inp, got, want)
            return False
        g = render(got)
        if g != want:
            ctx.fail(f'parse-any:{name}', f'{name} did not return exactly the leaves of the non-pruned part', inp, g, want)
            return False
        ctx.expect_model(f'hmparse {dag} {node} {n} {mode}', 'ok ' + want, tag + ':' + name)
        return True

    if ybits == 0:
        cont = Builder().store_bit(1).store_ref(rc).end_cell()
        ok = check('parse_hashmap', lambda: parse_hashmap(rc.begin_parse(), n),
                   lambda d: ';'.join(f'{k}={slice_tok(v)}' for k, v in d.items()) or '-', want_bits, 'p')
        ok = ok and check('HashMap.parse', lambda: HashMap.parse(rc.begin_parse(), n), C09.show_dict, want_api, 'h')
        ok = ok and check('from_cell', lambda: HashMap.from_cell(rc, n).map, C09.show_dict, want_int, 'f')
        ok = ok and check('load_hashmap', lambda: rc.begin_parse().load_hashmap(n), C09.show_dict, want_api, 'h')
        ok = ok and check('load_dict', lambda: cont.begin_parse().load_dict(n), C09.show_dict, want_api, 'ld', cnode, dag2)
        if ok and not npruned and leaves:
            # loading ANY valid (possibly non-canonical) encoding and serialising the loaded HashMap must give THE canonical cell
            # of that content - the one the reference serialiser (gen/maps.py) builds from the same leaves
            t2 = M.patricia([(k_, (b_, list(r_))) for k_, b_, r_ in leaves])
            if M.choose_kinds(rng, t2, n, 0, max(len(b_) for _, b_, _ in leaves), True):
                db2, root2, _, _, _ = M.emit_tree(t2, n, base)
                canon_hash = db2.infos[root2].H[0] if db2.ok(root2) else None

                def reser():
                    hm = HashMap.from_cell(rc, n)
                    hm.value_serializer = lambda src, dest: dest.store_slice(src)
                    return hm.serialize()
                got = call(reser)
                ctx.count('reserialize:from_cell')
                if canon_hash is not None and (is_err(got) or got is None or got.hash != canon_hash):
                    ctx.fail('reserialize:from_cell', 'HashMap.from_cell(valid encoding).serialize() is not the canonical cell of that content',
                             inp, 'exception' if is_err(got) else (got.hash.hex() if got is not None else None), canon_hash.hex())
        ok = ok and check('preload_dict', lambda: cont.begin_parse().preload_dict(n), C09.show_dict, want_api, 'ld', cnode, dag2)
    else:
        y = lambda s: s.load_uint(ybits)
        x = lambda s: slice_tok(s)
        am, aem = f'aug:{ybits}', f'auge:{ybits}'
        if xref:
            def y(s):
                v = s.load_uint(ybits)
                return f'{v}^{s.load_ref().hash.hex()}' if s.load_bit() else str(v)
            extras = [(f'{int(e[:-1], 2)}^{cells[r[0]].hash.hex()}' if r else str(int(e[:-1], 2))) for e, r in db.xextras]
            am, aem = f'augr:{ybits}', f'auger:{ybits}'
            ctx.count('tree:xref-extras', sum(1 for _, r in db.xextras if r))
        want = 'none' if root_pruned else want_int + ' ' + ('.'.join(map(str, extras)) or '-')

        def render(res):
            if res is None:
                return 'none'
            d, ex = res
            return (';'.join(f'{k}={v}' for k, v in d.items()) or '-') + ' ' + ('.'.join(map(str, ex)) or '-')
        # HashmapAugE: ahme_root$1 root:^(HashmapAug n X Y) extra:Y  /  ahme_empty$0 extra:Y  (the top-level extra is read since f2933e1)
        te = (len(leaves) * 5 + 3 + n) % (1 << ybits)
        # with ref-owning augmentations the TOP-LEVEL extra of the HashmapAugE owns one too: ahme_root$1 root:^.. extra:Y - its
        # reference comes AFTER the root reference (ahme_empty$0 extra:Y: it is the only one)
        xtop = bool(xref and base)
        tebits = format(te, f'0{ybits}b') + (('1' if xtop else '0') if xref else '')
        tes = f'{te}^{cells[0].hash.hex()}' if xtop else te
        cb = Builder().store_bit(1).store_ref(rc).store_bits(tebits)
        cont = (cb.store_ref(cells[0]) if xtop else cb).end_cell()
        dag2 = dag + f'|-1,1{tebits},{root}' + ('.0' if xtop else '')
        cb0 = Builder().store_bit(0).store_bits(tebits)
        cont0 = (cb0.store_ref(cells[0]) if xtop else cb0).end_cell()
        dag0 = dag + f'|-1,0{tebits},' + ('0' if xtop else '-')
        contx = Builder().store_bit(1).store_ref(rc).end_cell()          # extra missing: not a HashmapAugE, must raise
        ok = check('parse_hashmap_aug', lambda: parse_hashmap_aug(rc.begin_parse(), n, x, y), render, want, am)
        ok = ok and check('load_hashmap_aug', lambda: rc.begin_parse().load_hashmap_aug(n, x, y), render, want, am)
        ok = ok and check('load_hashmap_aug_e', lambda: cont.begin_parse().load_hashmap_aug_e(n, x, y), render, want, aem, cnode, dag2)
        ok = ok and check('load_hashmap_aug_e', lambda: cont0.begin_parse().load_hashmap_aug_e(n, x, y), render, f'- {tes}', aem, cnode, dag0)
        gotx = call(lambda: contx.begin_parse().load_hashmap_aug_e(n, x, y))
        ctx.count('parser:load_hashmap_aug_e:no-extra')
        ctx.expect_model(f"hmparse {dag + f'|-1,1,{root}'} {cnode} {n} {aem}", 'err' if is_err(gotx) else 'ok ' + render(gotx), tag + ':auge-no-extra')


def rand_items(rng, n, nbase):
    keys = M.pattern_keys(rng, n) if n >= 5 else sorted({rng.randrange(1 << n) for _ in range(rng.randrange(1, (1 << n) + 1))})
    items = []
    for k in sorted(set(keys)):
        b = G.rand_bits(rng, rng.choice([0, 1, 2, 8, 31]))
        r = [rng.randrange(nbase) for _ in range(rng.choice([0, 0, 0, 1, 2]))] if nbase else []
        items.append((M.key_bits(k, n), (b, r)))
    return items


def tree_cases(ctx):
    rng = ctx.rng
    base = C09.BASE
    # every constructor on edges with remaining key length 0 (below the last fork), and on the root of 1-key maps
    for n in (1, 2, 3):
        for kinds in [(a, b, c) for a in 'slm' for b in 'slm' for c in 'slm']:
            full = [(M.key_bits(k, n), ('1' * (k % 3), [])) for k in range(1 << n)]

            def force(t, kinds=kinds):
                def go(t, depth):
                    if 'leaf' in t:
                        t['kind'] = kinds[depth % 3]
                    else:
                        t['kind'] = kinds[(depth + 1) % 3] if M.is_const(t['label']) else 's'
                        go(t['l'], depth + 1)
                        go(t['r'], depth + 2)
                go(t, 0)
            for ybits in (0, 3):
                tree_case(ctx, n, full, ybits, 0.0, (), f'm0:{n}:{"".join(kinds)}', force=force)
    # pruned branch directly below the LAST fork (remaining length 0), and at every other depth
    for n in (1, 2, 4, 8):
        for side in 'lr':
            for ybits in (0, 2):
                items = [(M.key_bits(k, n), ('101', [])) for k in sorted({0, 1, (1 << n) - 1, (1 << n) - 2})]

                def force(t, side=side):
                    # walk to the deepest fork on the left spine and prune one of its children
                    f = t
                    while 'leaf' not in f['l'] and 'l' in f['l']:
                        f = f['l']
                    f[side]['pruned'] = True
                tree_case(ctx, n, items, ybits, 0.0, (), f'prune-last:{n}:{side}', force=force)
    for n in (1, 8, 267):
        for ybits in (0, 4):
            items = [(M.key_bits(k, n), ('11', [])) for k in sorted({0, 1, (1 << n) - 1})]
            tree_case(ctx, n, items, ybits, 0.0, (), f'prune-root:{n}', force=lambda t: t.__setitem__('pruned', True))
    for t in range(ctx.n(1500, 12000)):
        n = rng.choice([1, 2, 3, 4, 5, 8, 16, 32]) if rng.random() < 0.6 else M.rand_width(rng)
        items = rand_items(rng, n, len(base))
        ybits = rng.choice([0, 0, 1, 5, 32])
        tree_case(ctx, n, items, ybits, rng.choice([0.0, 0.15, 0.4]), base, f'tree{t}', canonical=rng.random() < 0.1)
    # augmentation values that own a reference (fork: refs = left, right, THEN extra's; leaf: extra's, then the value's)
    for t in range(ctx.n(300, 3000)):
        n = rng.choice([1, 2, 3, 4, 5, 8, 16, 32]) if rng.random() < 0.7 else M.rand_width(rng)
        items = rand_items(rng, n, len(base))
        tree_case(ctx, n, items, rng.choice([1, 4, 32]), rng.choice([0.0, 0.0, 0.15, 0.4]), base, f'xtree{t}', canonical=rng.random() < 0.1, xref=True)


# ----------------------------------------------------------------------------- (c) labels longer than the remaining key: refused

LIB_CELL = (2, G.bytes_to_bits(bytes([2]) + bytes(range(32))), ())       # a library cell: where a pre-repair parser would have stopped quietly


def over_pattern(kind, length, m, rng):
    """bit pattern of constructor `kind` announcing `length` > m bits under bound m (None if the `#<= m` field cannot hold it)"""
    if kind == 's':
        return '0' + '1' * length + '0' + G.rand_bits(rng, length)
    if length >= (1 << m.bit_length()):
        return None
    field = format(length, 'b').zfill(m.bit_length())
    if kind == 'l':
        return '10' + field + G.rand_bits(rng, length)
    return '11' + rng.choice('01') + field


def overlong_case(ctx, n, kind, length, path, ybits, seed_bits, tag):
    """A dictionary cell of key length n: `path` = the fork labels above the bad edge with the side it hangs on ([(label, 'l'|'r')],
    [] = the bad edge is the root), every other child a well-formed leaf.  The bad edge announces `length` bits although only
    m = n - sum(|label| + 1) remain.  Every parser entry point must RAISE (hashmap.tlb {n <= m}); the model must answer err."""
    import random as _r
    HashMap, parse_hashmap, parse_hashmap_aug, Builder, Cell = _lib()
    rng = _r.Random(seed_bits)
    m = n - sum(len(lab) + 1 for lab, _ in path)
    inp = {'kind': 'overlong', 'n': n, 'ctor': kind, 'length': length, 'path': [list(p) for p in path], 'ybits': ybits, 'seed_bits': seed_bits, 'tag': tag}
    pat = over_pattern(kind, length, m, rng) if m >= 0 and length > m else None
    if pat is None:
        ctx.count('overlong:not-expressible')
        return
    extra = lambda: G.rand_bits(rng, ybits)
    nodes = [LIB_CELL]
    # the bad edge: label, then (aug: its fork extra), two references to a library cell (a pre-repair parser ends there quietly)
    nodes.append((-1, pat + extra() + '1', (0, 0)))
    cur, rem = 1, m
    for lab, side in reversed(path):
        # sibling: a well-formed leaf at remaining length `rem`
        ls = G.rand_bits(rng, rem)
        lk = 's' if rem <= 100 else 'l'
        nodes.append((-1, M.enc_label(ls, rem, lk) + extra() + '101', ()))
        sib = len(nodes) - 1
        rem = rem + 1 + len(lab)
        fk = rng.choice('sl') if lab else rng.choice('slm')
        kids = (cur, sib) if side == 'l' else (sib, cur)
        nodes.append((-1, M.enc_label(lab, rem, fk) + extra(), kids))
        cur = len(nodes) - 1
    assert rem == n
    root = cur
    cells = G.lib_build(nodes, 'ctor')
    if cells[root] is None:
        ctx.count('overlong:invalid-cell')
        return
    rc = cells[root]
    ctx.case(('overlong', n, kind, length, tuple(map(tuple, path)), ybits, seed_bits), nontrivial=True,
             sample={'n': n, 'ctor': kind, 'length': length, 'remaining': m, 'depth': len(path), 'aug': ybits})
    ctx.count(f'overlong:{kind}:depth{min(len(path), 3)}:' + ('aug' if ybits else 'plain'))
    dag = G.dag_line(nodes)[8:]

    def refused(name, f, mode, node=root, dag=dag):
        got = call(f)
        ctx.count('overlong-parser:' + name)
        if not is_err(got):
            shown = 'None' if got is None else (f'{len(got[0])} entries, {len(got[1])} extras' if isinstance(got, tuple) else f'{len(got)} entries')
            ctx.fail(f'label-too-long:{name}', f'{name} returned although an edge label ({dict(s="hml_short", l="hml_long", m="hml_same")[kind]}) '
                     f'announces {length} bits with {m} key bits remaining ({len(path)} fork(s) below the root): hashmap.tlb requires n <= m',
                     inp, shown, 'an exception')
            return
        ctx.expect_model(f'hmparse {dag} {node} {n} {mode}', 'err', tag + ':' + name)

    if ybits == 0:
        cont = Builder().store_bit(1).store_ref(rc).end_cell()
        dag2, cnode = dag + f'|-1,1,{root}', len(nodes)
        refused('parse_hashmap', lambda: parse_hashmap(rc.begin_parse(), n), 'p')
        refused('HashMap.parse', lambda: HashMap.parse(rc.begin_parse(), n), 'h')
        refused('from_cell', lambda: HashMap.from_cell(rc, n).map, 'f')
        refused('load_dict', lambda: cont.begin_parse().load_dict(n), 'ld', cnode, dag2)
    else:
        y = lambda sl: sl.load_uint(ybits)
        x = lambda sl: slice_tok(sl)
        te = G.rand_bits(rng, ybits)
        cont = Builder().store_bit(1).store_ref(rc).store_bits(te).end_cell()
        dag2, cnode = dag + f'|-1,1{te},{root}', len(nodes)
        refused('parse_hashmap_aug', lambda: parse_hashmap_aug(rc.begin_parse(), n, x, y), f'aug:{ybits}')
        refused('load_hashmap_aug', lambda: rc.begin_parse().load_hashmap_aug(n, x, y), f'aug:{ybits}')
        refused('load_hashmap_aug_e', lambda: cont.begin_parse().load_hashmap_aug_e(n, x, y), f'auge:{ybits}', cnode, dag2)


def overlong_cases(ctx):
    rng = ctx.rng
    t = 0
    for n in (1, 2, 3, 5, 6, 8, 12, 16, 32, 64, 256):
        paths = [[]]
        if n >= 2:
            paths += [[('', 'l')], [('', 'r')], [(G.rand_bits(rng, min(n - 1, 2)), rng.choice('lr'))]]
        if n >= 4:
            paths += [[('', 'r'), ('', 'l')], [(G.rand_bits(rng, 1), 'l'), (G.rand_bits(rng, rng.randrange(0, min(n - 3, 5))), 'r')]]
        if n >= 12:
            paths.append([(G.rand_bits(rng, rng.randrange(0, 3)), rng.choice('lr')) for _ in range(4)])
        for path in paths:
            m = n - sum(len(lab) + 1 for lab, _ in path)
            top = (1 << m.bit_length()) - 1
            for kind in 'slm':
                lens = {m + 1, m + 2, m + rng.randrange(1, 12)} if kind == 's' else {m + 1, top, rng.randrange(m + 1, top + 1) if top > m else m + 1}
                for length in sorted(lens):
                    if kind == 's' and 2 + 2 * length > 900:
                        continue
                    for ybits in (0, rng.choice([1, 3, 8])):
                        t += 1
                        overlong_case(ctx, n, kind, length, path, ybits, rng.getrandbits(32), f'overlong{t}')


def auge_case(ctx, bits, refs, n, tag):
    """hashmap.tlb `ahme_empty$0 extra:Y` / `ahme_root$1 root:^(HashmapAug n X Y) extra:Y`: the top-level extra is a mandatory field, so
    `Slice.load_hashmap_aug_e` (y_deserializer = load_bit) on an ordinary slice that has NO bit left behind the presence bit must raise
    (c10_aug_e_extra_required), and where the extra is present it must be consumed."""
    inp = {'kind': 'auge', 'bits': bits, 'refs': [hmsrc._show_cell(r) for r in refs], 'cells': [_jsonable(r) for r in refs], 'n': n, 'tag': tag}

    def f():
        sl = hmsrc._py_slice((-1, bits, ()))
        cs = []
        for r in refs:
            c = hmsrc._py_cell(r)
            c.type_ = r[0]
            cs.append(c)
        sl.refs = cs
        r = sl.load_hashmap_aug_e(n, lambda cs_: cs_.load_bits(2).to01(), lambda cs_: cs_.load_bit())
        return r, len(sl.bits)
    got = call(f)
    ctx.case(('auge', bits, tuple(inp['refs']), n), sample=inp)
    if len(bits) == 1 and not is_err(got):
        ctx.fail('aug-e:extra-not-required', 'load_hashmap_aug_e returned although the mandatory top-level extra is missing', inp, 'returned', 'raises')
    elif len(bits) >= 2 and not is_err(got) and got[1] != len(bits) - 2:
        ctx.fail('aug-e:extra-not-consumed', 'load_hashmap_aug_e left the top-level extra in the slice', inp, f'{got[1]} bits left', f'{len(bits) - 2} bits left')


def _jsonable(t):
    return [t[0], t[1], [_jsonable(r) for r in t[2]]]


def _tupled(t):
    return (t[0], t[1], tuple(_tupled(r) for r in t[2]))


def src_search(ctx):
    """Search mode only (a `c10_src_*` obligation or the tie broke): Lean evaluates the regenerated parser / serialiser
    (Generated/HashmapSrc.lean) against the hand model on the translator's validation inputs; the differing points are judged by
    property-level oracles first: a label point by the independent transcription of hashmap.tlb `HmLabel` (`hmsrc.ref_hml`: the
    library's `deserialize_hml` must return exactly the spec's (n, s, rest) and raise on everything else), a serialiser point by the
    reference serialiser (`canon_case`).  True = a concrete failing input was found."""
    found = hmsrc.diff_points(ctx)
    n0 = len(ctx.failures)
    from pytoniq_core.boc.hashmap.parse import deserialize_hml
    for bits, m in found['hml'][:40]:
        inp = {'kind': 'hml', 'bits': bits, 'm': m}
        want = hmsrc.ref_hml(bits, m)

        def f():
            sl = hmsrc._py_slice((-1, bits, ()))
            n, s = deserialize_hml(sl, m)
            return n, s.to01(), sl.bits.to01()
        got = call(f)
        ctx.case(('src-hml', bits, m), sample=inp)
        if want is None and not is_err(got):
            ctx.fail('label-reader:accepted', 'deserialize_hml returned on bits that are no HmLabel under this bound (hashmap.tlb)', inp, got, 'raises')
        elif want is not None and (is_err(got) or tuple(got) != tuple(want)):
            ctx.fail('label-reader:wrong', 'deserialize_hml does not return the label hashmap.tlb denotes', inp, got, want)
    for n, items in found['ser'][:20]:
        if len({v for _, v in items}) == 1 and all(0 <= k < (1 << n) for k, _ in items):
            canon_case(ctx, n, [k for k, _ in items], items[0][1], 'src-ser')
        else:
            for k, v in items:
                canon_case(ctx, n, [k2 for k2, _ in items], v, 'src-ser')
                break
    try:
        for i, (bits, refs, n) in enumerate(hmglue.validation_inputs()['auge']):
            auge_case(ctx, bits, refs, n, f'src-auge{i}')
    except Exception as e:
        ctx.notes.append(f'load_hashmap_aug_e search failed: {type(e).__name__}: {e}')
    return len(ctx.failures) > n0


def run(ctx):
    if ctx.search and src_search(ctx):
        return
    c10_embed.embed_cases(ctx)      # dictionaries as FIELDS of a larger constructor (bits / references before and after, prunings)
    label_cases(ctx)
    tree_cases(ctx)
    overlong_cases(ctx)


def replay(ctx, payload):
    inp = payload.get('input') or {}
    if inp.get('kind') == 'canon':
        canon_case(ctx, inp['n'], [int(k) for k in inp['keys']], inp['vbits'], inp.get('tag', 'replay'))
    elif inp.get('kind') == 'tree':
        replay_tree(ctx, inp)
    elif inp.get('kind') == 'hml':
        from pytoniq_core.boc.hashmap.parse import deserialize_hml
        bits, m = inp['bits'], inp['m']
        want = hmsrc.ref_hml(bits, m)

        def f():
            sl = hmsrc._py_slice((-1, bits, ()))
            n, s = deserialize_hml(sl, m)
            return n, s.to01(), sl.bits.to01()
        got = call(f)
        ctx.case(('src-hml', bits, m), sample=inp)
        if want is None and not is_err(got):
            ctx.fail('label-reader:accepted', 'deserialize_hml returned on bits that are no HmLabel under this bound (hashmap.tlb)', inp, got, 'raises')
        elif want is not None and (is_err(got) or tuple(got) != tuple(want)):
            ctx.fail('label-reader:wrong', 'deserialize_hml does not return the label hashmap.tlb denotes', inp, got, want)
    elif inp.get('kind') == 'auge':
        auge_case(ctx, inp['bits'], [_tupled(c) for c in inp['cells']], inp['n'], inp.get('tag', 'replay'))
    elif inp.get('kind') == 'embed':
        c10_embed.replay_case(ctx, inp)
    elif inp.get('kind') == 'overlong':
        overlong_case(ctx, inp['n'], inp['ctor'], inp['length'], [tuple(p) for p in inp['path']], inp['ybits'], inp['seed_bits'], inp.get('tag', 'replay'))


def replay_tree(ctx, inp):
    """rebuild the tree description from its tokens and re-run all parsers"""
    toks = list(inp['tokens'])
    n, ybits = inp['n'], inp['ybits']
    base = [(k, b, tuple(r)) for k, b, r in inp.get('base', [])]

    def parse(pos):
        t = toks[pos]
        if t == 'P':
            sub, pos = parse(pos + 1)
            sub['pruned'] = True
            return sub, pos
        p = [x.replace('-', '') for x in t.split(':')]
        if p[0] == 'L':
            return {'label': p[1], 'kind': p[2], 'v': p[3], 'extra': p[4], 'leaf': (p[5], [int(i) for i in p[6].split('.')] if p[6] else [])}, pos + 1
        l, pos2 = parse(pos + 1)
        r, pos3 = parse(pos2)
        return {'label': p[1], 'kind': p[2], 'v': p[3], 'extra': p[4], 'l': l, 'r': r}, pos3

    tree, _ = parse(0)
    if inp.get('xref'):
        it = iter(inp['xrefs'])

        def put(t):
            t['xrefs'] = list(next(it))
            if 'leaf' not in t:
                put(t['l'])
                put(t['r'])
        put(tree)
    tree_case(ctx, n, [('', ('', []))], ybits, 0.0, base, inp.get('tag', 'replay'), xref='fixed' if inp.get('xref') else False, pre=tree)
