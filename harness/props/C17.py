"""C17: TVM stack values round-trip, follow the VmStack schema, and serialising does not consume them."""
from ..gen import cells as G
from ..gen import vmvals as V
from ..translate import arith2
from ..translate import vmsrc

SPEC = dict(
    manifest=dict(
        category='proof',
        text='Lean theorems over a hand model of tlb/vm_stack.py, for all stacks, all tuple nestings and all ten continuation kinds '
             '(no size bound): c17_roundtrip (whenever VmStack.serialize(vs) returns a cell c, VmStack.deserialize(c.begin_parse()) returns vs - '
             'equal values in the same order - for null, 64-bit and 257-bit integers, cells, slices, builders, arbitrarily nested tuples, every '
             'VmCont kind and VmControlData with or without nargs / stack / save list / cp); it is the composition of c17_schema (every cell '
             'VmStack.serialize returns is an encoding of its argument under the block.tlb VmStack relation: 24-bit depth, tinyint iff '
             '-2^63 <= v < 2^63, 15-bit 0201_ tag + int257 otherwise, tuple chaining 0/1/2/3+, all VmCont kinds and VmControlData) with '
             'c17_parser_accepts_schema (the parser returns vs on EVERY cell whose content is a schema encoding of vs, also ones the serialiser '
             'never writes, e.g. VmCellSlice windows that start inside the cell, and leaves nothing unread; proved by mutual recursion over the '
             'schema derivation: tag dispatch of VmStackValue.deserialize on the 15-bit / 2-byte preload, the VmTuple / VmTupleRef / VmStackList '
             'recursions, the ten VmCont branches, VmControlData); corollary c17_serialize_injective. c17_pure / c17_twice (in an explicit model of '
             'what serialize leaves in the caller\'s objects the post-state equals the pre-state, so a second call returns the same cell; the same '
             'model with the pre-fix code path exhibits F20). c17_roundtrip_fields is the field-level statement underneath (intN/uintN fields and '
             'VmCellSlice records are read back exactly). Sampling is used only to tie the model to the code: on the library alone '
             '(deserialize(serialize(vs)) == vs by content, hash == an independent Python transcription of the schema, serialize twice, deep '
             'snapshot of the caller\'s values) and against the Lean model (cell hash, post-state, parsed stack, parser on damaged input). '
             'The int64 selection test of VmStackValue.serialize (`-2**63 <= value < 2**63`) and the two window tests of VmCellSlice.deserialize '
             'are re-translated from vm_stack.py on every run (Generated/VmStackTests.lean) and proved for EVERY integer to be the model\'s tests '
             '(c17_src_tests); the hand model chooses tinyint / int257 by exactly the regenerated test (c17_src_model_int). '
             'The WHOLE serialize and deserialize methods of VmStack, VmStackList, VmStackValue, VmTuple, VmTupleRef, VmCellSlice, VmCont, '
             'VmControlData, VmSaveList are regenerated from vm_stack.py on every run (Generated/VmStackSrc.lean, translator pytlb.py) and proved '
             'for ALL inputs to equal the hand model: c17_src_serialize (same raise decision and cell, every sufficient recursion budget), '
             'c17_src_deserialize (the regenerated parsers ARE De.* on every slice and every budget, value and slice state), c17_src_pure / '
             'c17_src_twice (the regenerated serialisers return, next to the cell, the state of the caller\'s argument after the call - a pop() on '
             'it shows up there - and that state is the argument itself), c17_src_roundtrip (regenerated serialize then regenerated deserialize).',
        level_note='Full proof of all three clauses over the model. The parser model carries a recursion budget (one unit per nested call; Python has '
                   'none): the round trip holds for every budget >= fuelL vs, an explicit bound linear in the size of the stack (the driver runs with 10^8). Trusted: Model/VmStack.lean mirrors vm_stack.py by hand '
                   '(Python lists stored last-first); '
                   'Spec/Tlb/VmStack.lean says what block.tlb says; the save list (HashmapE 4 VmStackValue) is an opaque dictionary root cell '
                   'in model and spec (HashMap codec is C09/C10); cell construction is a parameter (mk/view/ord) with the laws view(mk b r) = (b, r), '
                   'ord(mk b r); the post-state model describes successful calls only. Since the methods are regenerated and proved equal, model = code no longer '
                   'rests on sampling for vm_stack.py itself; what stays trusted: the translator pytlb.py + the declared interface in vmsrc.py (Builder / Slice '
                   'methods mean BOp.* / SOp.* of Model/Builder.lean, value classes <-> constructors of Val / Cont / Ctl, Python lists as Lean lists last '
                   'element first, PyTlb.lean), validated against CPython on 685 requests whenever anything changes; element states reached only through a '
                   'continuation\'s control-data stack or a copy are outside the regenerated post-state (hand model postList + deep snapshot).',
        technique='Lean 4 proof; serialize / deserialize methods regenerated from source and proved equal to the hand model for all inputs; differential correspondence with the library'),
    translators=[('vm_stack.py tinyint / cell-slice window tests->Generated/VmStackTests.lean', arith2.regenerator('VmStackTests')),
                 ('vm_stack.py whole serialize / deserialize methods->Generated/VmStackSrc.lean', vmsrc.regenerate)],
    lean_targets=['TonVerif.Proofs.SrcVmStack', 'TonVerif.Proofs.SrcVmStackDe'],
    design_ref='DESIGN.md §6 C17',
    rule='stacks of depth 0..50 (thorough 0..2000 and the cell-depth limit 1021..1024) of null / ints at +-2^63, +-(2^63+-1), +-2^256 and random '
         'magnitudes / cells / slices with partly consumed bits and refs / builders / tuples nested to depth 6 with lengths 0..5, 255, 256 / all ten '
         'continuation kinds with control data (each Maybe on and off, inlined stacks, save lists); stacks that hold the SAME object several times (structurally equal parts of a description hash-consed into one '
         'tuple / slice / builder / continuation object: siblings, cousins at different depths, several stack entries, a shared nil; 27 spelled-out patterns x 4 sharing modes + pool-built and random stacks); each stack is serialised twice, compared '
         'with an independent transcription of the schema, parsed back and compared by content, the caller\'s values are snapshotted before and '
         'after, and the Lean model answers the same requests; distinct = distinct description; non-trivial = depth >= 1',
    trusted_base=['Model/VmStack.lean mirrors tlb/vm_stack.py by hand (BOp/SOp state functions)',
                  'Spec/Tlb/VmStack.lean transcribes block.tlb (VmStack .. VmCont, VmControlData); VmSaveList content opaque',
                  'harness/gen/vmvals.py: descriptions, canonical form, independent schema encoder; gen/cells.py spec cell hash',
                  'HashMap (HashmapE 4) serialisation of save lists is taken from the library (C09/C10)',
                  'harness/translate/pyarith.py + arith.py/arith2.py (Python comparisons -> Lean) for the c17_src_tests theorems',
                  'harness/translate/pytlb.py + vmsrc.py (declared interface) + lean/TonVerif/PyTlb.lean for the whole-method c17_src_* theorems; Model/Builder.lean as the meaning of Builder / Slice'],
    assumptions=['correspondence is sampled differential testing',
                 'Python recursion limit raised to 40000 in the harness (a runtime limit, not part of the model)'],
)


def vkind(d):
    if d[0] == 'i':
        return 'int64' if V.I64_MIN <= d[1] <= V.I64_MAX else 'int257'
    if d[0] == 't':
        return 'tuple%d' % min(len(d[1]), 3)
    return d[0]


def _try(f):
    try:
        return f(), None
    except RecursionError:
        raise
    except Exception as e:  # every exception is "raises"
        return None, e


def check_stack(ctx, cx, stack, tag, corr=True, share=None):
    """share = (mode, salt): the library values are built with aliasing (gen/vmvals.py `sharing`): structurally equal parts of the
    description are ONE object; everything else - schema cell, canonical form, model request - is a function of the description, so the
    aliased stack must serialise to exactly the cell of structurally equal copies, leave the objects untouched and parse back"""
    if share is not None:
        return _check_aliased(ctx, cx, stack, tag, corr, share)
    return _check_stack(ctx, cx, stack, tag, corr, None)


def _check_aliased(ctx, cx, stack, tag, corr, share):
    n0 = len(ctx.failures)
    _check_stack(ctx, cx, stack, tag, corr, share)
    # the failure key says that aliasing is what it takes when the same description built from separate objects passes
    new = ctx.failures[n0:]
    if new:
        probe = type(ctx)(ctx.prop, ctx.tier, ctx.seed)
        probe.driver_ok = False
        _check_stack(probe, cx, stack, tag, False, None)
        if not probe.failures:
            for f in new:
                f['key'] = 'aliased-' + f['key'].split(':')[0] + ':' + share[0]
                f['what'] = 'with the SAME object at several places of the stack (structurally equal copies pass): ' + f['what']


def _check_stack(ctx, cx, stack, tag, corr, share):
    lib = V._lib()[0]
    cx = cx.fresh()
    inp = {'dag': [list(n) for n in V.BASE_DAG], 'stack': stack, 'tag': tag}
    if share is not None:
        inp['share'] = list(share)
    ctx.case(('stack', repr(stack)) + ((share[0],) if share else ()), nontrivial=bool(stack), sample={'depth': len(stack), 'top': stack[-1][0] if stack else None})
    for d in stack:
        for k in V.kinds_in(d):
            ctx.count('kind:' + k)
    ctx.count('depth:%s' % ('0' if not stack else '1-5' if len(stack) <= 5 else '6-50' if len(stack) <= 50 else '51+'))
    want = V.spec_stack_cell(cx, stack)
    try:
        want_canon, toks = V.canon_desc_stack(cx, stack), V.stack_tokens(cx, stack)
    except V.Unencodable:                  # a save-list value has no encoding: no dictionary cell to show the model
        want_canon = toks = None
    if share is None:
        vs = [V.mk_lib(cx, d) for d in stack]
    else:
        with V.sharing(*share) as sh:
            vs = [V.mk_lib(cx, d) for d in stack]
        ctx.count('aliased:' + share[0])
        ctx.count('aliased-objects', sh.aliased())
    try:
        snap0 = V.canon_stack(vs)
    except V.NotCanonical as e:
        if want is not None:
            ctx.fail('refused:savedict', f'a save list of encodable values does not serialise: {e}', inp, str(e), 'dictionary cell')
        return
    if want_canon is not None and snap0 != want_canon:
        # only the save-list dictionary hash is computed through vm_stack.py here (values re-serialised by the library)
        ctx.fail('bits:save-list', 'a save list (HashmapE 4 VmStackValue) serialised through VmStackValue.serialize is not the schema encoding',
                 inp, snap0, want_canon)
        return
    corr = corr and toks is not None
    c1, e1 = _try(lambda: lib.VmStack.serialize(vs))
    snap1, _ = _try(lambda: V.canon_stack(vs))
    ser_line = f'vmser {cx.dag_arg()} {toks}'
    if snap1 != snap0:
        k = next((i for i, (a, b) in enumerate(zip(snap0.split(','), snap1.split(','))) if a != b), 0)
        ctx.fail('mutated:' + _first_kind(stack, vs, cx), 'VmStack.serialize changed the caller\'s values', inp, snap1, snap0)
        return
    if want is None:
        ctx.count('unencodable')
        if c1 is not None:
            ctx.fail('accepted-unencodable', 'a stack with no encoding under the schema was serialised', inp, c1.hash.hex(), 'raises')
            return
        if corr:
            ctx.expect_model(ser_line, 'err', tag)
        return
    if c1 is None:
        ctx.fail('refused:' + _first_kind(stack, vs, cx), f'VmStack.serialize raised {e1!r} on an encodable stack', inp, repr(e1), want.hash().hex())
        return
    if c1.hash != want.hash():
        ctx.fail('bits:' + _first_kind(stack, vs, cx), 'VmStack.serialize is not the schema encoding', inp, c1.hash.hex(), want.hash().hex())
        return
    c2, e2 = _try(lambda: lib.VmStack.serialize(vs))
    if c2 is None or c2.hash != c1.hash:
        ctx.fail('twice:' + _first_kind(stack, vs, cx), 'serialising the same values twice gives a different cell', inp,
                 repr(e2) if c2 is None else c2.hash.hex(), c1.hash.hex())
        return
    sl = c1.begin_parse()
    back, e3 = _try(lambda: lib.VmStack.deserialize(sl))
    got, e4 = _try(lambda: V.canon_stack(back)) if e3 is None else (None, e3)
    if got != snap0:
        bad = 'x'
        if got is not None:
            back_k = [V.canon_val(v, []) for v in back]
            for i, d in enumerate(stack):
                if i >= len(back_k) or back_k[i] != V.canon_desc(cx, d, []):
                    bad = vkind(d)
                    break
        else:
            bad = _first_kind(stack, vs, cx, parse=True)
        ctx.fail('roundtrip:' + bad, 'deserialize(serialize(vs)) != vs', inp, got if got is not None else repr(e4), snap0)
        return
    if sl.remaining_bits or sl.remaining_refs:
        ctx.fail('leftover', 'VmStack.deserialize left data unread', inp, [sl.remaining_bits, sl.remaining_refs], [0, 0])
        return
    if corr:
        ctx.expect_model(ser_line, f'ok {c1.hash.hex()} {snap1}', tag)
        nodes, root = V.flatten(c1)
        ctx.expect_model(f'vmdeser {G.dag_line(nodes)[8:]} {root}', f'ok {got}', tag)


def _first_kind(stack, vs, cx, parse=False):
    """kind of the first top-level value that misbehaves on its own (for the failure key)"""
    lib = V._lib()[0]
    for d in stack:
        v = V.mk_lib(cx, d)
        before = V.canon_val(v, [])
        c, e = _try(lambda: lib.VmStackValue.serialize(v))
        try:
            want = V.s_value_cell(cx, d).hash()
        except V.Unencodable:
            want = None
        if (c is None) != (want is None) or (c is not None and c.hash != want) or V.canon_val(v, []) != before:
            return vkind(d)
        if c is not None:
            b, e = _try(lambda: V.canon_val(lib.VmStackValue.deserialize(c.begin_parse()), []))
            if b != before:
                return vkind(d)
    return 'stack'


def check_parse(ctx, nodes, root, tag, pending):
    """foreign / damaged input: the model parser and the library parser agree (no property oracle: any outcome is allowed)"""
    lib = V._lib()[0]
    cells = G.lib_build(nodes)
    ctx.case(('parse', tuple(nodes), root), sample={'parse_nodes': len(nodes)})
    ctx.count('foreign-parse')
    if cells[root] is None:
        return
    back, e = _try(lambda: lib.VmStack.deserialize(cells[root].begin_parse()))
    got, e2 = _try(lambda: V.canon_stack(back)) if e is None else (None, e)
    pending.append((f'vmdeser {G.dag_line(nodes)[8:]} {root}', 'err' if got is None else f'ok {got}', tag))


def flush_parse(ctx, pending):
    if not ctx.driver_ok or not pending:
        return
    outs = ctx.model.run([p[0] for p in pending])
    for (line, expected, tag), got in zip(pending, outs):
        if got == expected:
            continue
        if any(t.startswith('d:') and t.split(':')[3] != '-' for t in got[3:].split(',')):
            ctx.count('foreign-parse-skipped-save')      # damage produced control data with a dictionary: opaque in the model
            continue
        ctx.corr_broken(f'model != library: model={got[:300]} library={expected[:300]} request={line[:1500]} ({tag})')


def directed(ctx, cx):
    nb = len(V.BASE_DAG)
    S = lambda stack, tag: check_stack(ctx, cx, stack, tag)
    S([], 'empty')
    for v in V.INT_BOUNDARY + V.INT_OUT_OF_RANGE:
        S([['i', v]], 'int-boundary')
        S([['i', 7], ['t', [['i', v], ['n']]], ['i', v]], 'int-boundary-nested')
    S([['n']], 'null')
    for node in range(nb):
        S([['c', node]], 'cell')
        S([['b', node]], 'builder')
        info = cx.infos[node]
        for sb in sorted({0, 1, len(info.bits) // 2, len(info.bits)} & set(range(len(info.bits) + 1))):
            for sr in range(len(info.refs) + 1):
                S([['s', node, sb, sr]], 'slice')
    leaves = [['i', 1], ['i', 2 ** 63], ['n'], ['c', 2], ['s', 3, 5, 1], ['b', 2], ['kquit', 5], ['t', []]]
    for n in [0, 1, 2, 3, 4, 5, 255, 256]:
        S([['t', [leaves[i % len(leaves)] for i in range(n)]]], f'tuple-len')
        S([['t', [['i', i] for i in range(n)]], ['i', 1]], f'tuple-len-int')
    for depth in range(1, 7):
        for width in (0, 1, 2, 3, 4):
            S([V.nested_tuple(depth, width, leaves[depth % len(leaves)])], 'tuple-nest')
    q = ['kquit', 5]
    for kind in V.CONT_KINDS:
        for _ in range(ctx.n(6, 40)):
            S([V.gen_cont(ctx.rng, cx, nb, 2, kind)], 'cont-kind')
    for kind in ('kstd', 'kenv'):
        for mask in range(16):
            ctl = ['d', 3 if mask & 1 else None, [['t', [['i', 1], ['i', 2], ['i', 3]]], ['i', -2 ** 63]] if mask & 2 else None,
                   [[0, q], [7, ['t', [['i', 1], ['i', 2], ['i', 3]]]]] if mask & 4 else None, -1 if mask & 8 else None]
            S([[kind, ctl, ['s', 2, 3, 1] if kind == 'kstd' else ['krep', 5, q, ['kqexc']]]], 'ctl-maybe')
        for nargs, cp in ((0, 0), (8191, 32767), (8192, 0), (0, 32768), (0, -32768), (0, -32769), (-1, 0)):
            S([[kind, ['d', nargs, [], None, cp], ['s', 0, 0, 0] if kind == 'kstd' else q]], 'ctl-range')
        # the inlined stack's top value shares the continuation's cell: refs can run out (no encoding)
        S([[kind, ['d', 1, [['i', 1], ['t', [['i', 1], ['i', 2]]]], [[1, ['n']]], 0], ['s', 2, 0, 0] if kind == 'kstd' else q]], 'ctl-refs-overflow')
    for code, ok in ((2 ** 31 - 1, 1), (-2 ** 31, 1), (2 ** 31, 0), (-2 ** 31 - 1, 0)):
        S([['kquit', code]], 'i32')
        S([['kpush', code, q]], 'i32')
    for count in (0, 2 ** 63 - 1, 2 ** 63, -1):
        S([['krep', count, q, q]], 'u63')


def random_stacks(ctx, cx):
    rng = ctx.rng
    nb = len(V.BASE_DAG)
    for t in range(ctx.n(500, 4000)):
        depth = rng.choice([0, 1, 1, 2, 3, 5, 8, 13, 21, 34, 50]) if rng.random() < 0.7 else rng.randrange(0, 51)
        stack = [V.gen_val(rng, cx, nb, rng.choice([0, 1, 2, 3, 6])) for _ in range(depth)]
        check_stack(ctx, cx, stack, f'rand{t}')
    deep = [200, 1021, 1022, 1023, 1024] if not ctx.thorough else [200, 500, 1000, 1021, 1022, 1023, 1024, 1500, 2000]
    for depth in deep:
        stack = [['i', rng.choice(V.INT_BOUNDARY)] if i % 7 else V.gen_val(rng, cx, nb, 1) for i in range(depth)]
        check_stack(ctx, cx, stack, f'deep{depth}')


def foreign(ctx, cx):
    """damaged encodings and hand-made cells through both parsers"""
    rng = ctx.rng
    lib = V._lib()[0]
    nb = len(V.BASE_DAG)
    hand = [
        [(G.ORD, '', ()), (G.ORD, format(1, '024b') + '0000001011111111', (0,))],                      # vm_stk_nan#02ff
        [(G.ORD, '', ()), (G.ORD, format(1, '024b') + '0000001000000000' + '1' * 8, (0,))],             # 0200 (bytes form)
        [(G.ORD, '', ()), (G.ORD, format(1, '024b') + '00001000', (0,))],                               # unknown tag 08
        [(G.ORD, '', ()), (G.ORD, format(1, '024b'), (0,))],                                            # value missing
        [(G.ORD, '', ()), (G.ORD, format(1, '024b') + '000', (0,))],                                    # 3 bits only
        [(G.ORD, '', ()), (G.ORD, format(2, '024b') + '00000000', (0,))],                               # depth too large
        [(G.ORD, format(0, '020b'), ())],                                                               # short depth field
        [(G.ORD, '', ()), (G.ORD, format(1, '024b') + '00000001' + '1' * 10, (0,))],                    # short int64
        [(G.ORD, '', ()), (G.ORD, '1', ()), (G.ORD, format(1, '024b') + '00000100' + format(5, '010b') + format(3, '010b') + '000000', (0, 1))],  # st>end
        [(G.ORD, '', ()), (G.ORD, '1011', (0, 0)), (G.ORD, format(1, '024b') + '00000100' + format(1, '010b') + format(3, '010b') + '001010', (0, 1))],
        [(G.ORD, '', ()), (G.ORD, '1011', (0, 0)), (G.ORD, format(1, '024b') + '00000100' + format(1, '010b') + format(900, '010b') + '001111', (0, 1))],
        [(G.ORD, '', ()), (G.ORD, format(1, '024b') + '00000110' + '1011', (0,))],                      # no continuation tag matches
        [(G.ORD, '', ()), (G.ORD, format(1, '024b') + '00000111' + format(2, '016b'), (0,))],           # tuple refs missing
    ]
    pending = []
    for nodes in hand:
        check_parse(ctx, nodes, len(nodes) - 1, 'hand', pending)
    for t in range(ctx.n(150, 1500)):
        depth = rng.randrange(1, 6)
        stack = [V.gen_val(rng, cx, nb, rng.choice([0, 1, 2])) for _ in range(depth)]
        if any(k in ('kstd', 'kenv') for d in stack for k in V.kinds_in(d)):
            continue                      # control data holds a dictionary: opaque in the model
        vs = [V.mk_lib(cx, d) for d in stack]
        c, e = _try(lambda: lib.VmStack.serialize(vs))
        if c is None:
            continue
        nodes, root = V.flatten(c)
        nodes = [list(n) for n in nodes]
        for _ in range(rng.randrange(1, 4)):
            i = rng.randrange(len(nodes))
            k, bits, refs = nodes[i]
            m = rng.randrange(4)
            if m == 0 and bits:
                j = rng.randrange(min(len(bits), 48)) if rng.random() < 0.8 else rng.randrange(len(bits))
                bits = bits[:j] + ('1' if bits[j] == '0' else '0') + bits[j + 1:]
            elif m == 1 and bits:
                bits = bits[:rng.randrange(len(bits))]
            elif m == 2 and refs:
                refs = tuple(refs[:-1])
            elif m == 3 and i > 0 and len(refs) < 4:
                refs = tuple(refs) + (rng.randrange(i),)
            nodes[i] = [k, bits, refs]
        check_parse(ctx, [tuple(n) for n in nodes], root, f'damaged{t}', pending)
    flush_parse(ctx, pending)


def api_level(ctx, cx):
    """the non-consumption clause at the entry points below VmStack.serialize"""
    lib = V._lib()[0]
    for d in (['t', [['i', 1], ['i', 2], ['i', 3]]], ['t', [['t', [['i', 1], ['i', 2], ['i', 3], ['i', 4]]], ['n']]], ['t', [['i', 1]]]):
        for name, f in (('VmStackValue', lib.VmStackValue.serialize), ('VmTuple', lib.VmTuple.serialize), ('VmTupleRef', lib.VmTupleRef.serialize)):
            v = V.mk_lib(cx, d)
            before = V.canon_val(v, [])
            ctx.case(('api', name, repr(d)))
            a, e = _try(lambda: f(v))
            b, e = _try(lambda: f(v))
            if V.canon_val(v, []) != before or a is None or b is None or a.hash != b.hash:
                ctx.fail(f'mutated:{name}', f'{name}.serialize consumed its argument', {'value': d, 'entry': name}, V.canon_val(v, []), before)


def aliased(ctx, cx):
    """THE CLASS "stacks / tuples that contain the same OBJECT several times": the spelled-out patterns under every sharing mode, then
    seeded stacks built from a small pool of values used again and again, and ordinary random stacks with their repeated parts aliased"""
    rng = ctx.rng
    nb = len(V.BASE_DAG)
    for stack in V.aliased_directed():
        for mode in V.SHARE_MODES:
            check_stack(ctx, cx, stack, 'aliased-directed', share=(mode, rng.randrange(1 << 16)))
    for t in range(ctx.n(200, 2000)):
        stack = V.gen_aliased_stack(rng, cx, nb)
        check_stack(ctx, cx, stack, f'aliased{t}', share=(rng.choice(V.SHARE_MODES), rng.randrange(1 << 16)))
    for t in range(ctx.n(60, 600)):
        depth = rng.choice([1, 2, 3, 5, 8])
        stack = [V.gen_val(rng, cx, nb, rng.choice([1, 2, 3])) for _ in range(depth)]
        stack += [rng.choice(stack) for _ in range(rng.randrange(1, 4))]
        check_stack(ctx, cx, stack, f'aliased-rand{t}', share=(rng.choice(V.SHARE_MODES), rng.randrange(1 << 16)))


def src_search(ctx, cx):
    """Search mode only: the integers on which the regenerated int64 test (Generated/VmStackTests.lean) differs from the schema's,
    each serialised alone, nested in a tuple and under another value (schema encoding + round trip are checked by check_stack).
    True = a concrete failing input was found."""
    found = arith2.search_points(ctx, ['VmStackTests'])
    n0 = len(ctx.failures)
    for pt in (found.get('tinyIntFits') or [])[:12]:
        v = pt['value']
        if -2 ** 256 <= v < 2 ** 256:
            check_stack(ctx, cx, [['i', v]], 'src-int')
            check_stack(ctx, cx, [['i', 7], ['t', [['i', v], ['n']]], ['i', v]], 'src-int-nested')
    if len(ctx.failures) > n0:
        return True
    return src_search_whole(ctx, cx)


def src_search_whole(ctx, cx):
    """Search mode: Lean evaluates the REGENERATED serialize / deserialize methods (Generated/VmStackSrc.lean) against the hand
    model on the validation stacks (every value kind, tuple length class, continuation kind, Maybe combination, integer
    boundary) and on the cells the library writes for them; the stacks on which they differ go through the property's oracle
    first (schema encoding, caller's values untouched, round trip)."""
    lib = V._lib()[0]
    try:
        cx0, stacks = vmsrc.validation_stacks()
    except Exception as e:
        ctx.notes.append(f'source-diff search (VmStackSrc): no inputs: {type(e).__name__}: {e}')
        return False
    lines, owner = [], []
    for st in stacks:
        c1 = cx0.fresh()
        try:
            toks = V.stack_tokens(c1, st)
        except V.Unencodable:
            continue
        lines.append(f'ser {c1.dag_arg()} {toks}')
        owner.append(st)
        if st:
            lines.append(f'serv {c1.dag_arg()} {V.stack_tokens(c1, [st[0]])}')
            owner.append([st[0]])
        cell, e = _try(lambda: lib.VmStack.serialize([V.mk_lib(c1, d) for d in st]))
        if cell is not None:
            nodes, root = V.flatten(cell)
            lines.append(f'de {G.dag_line(nodes)[8:]} {root}')
            owner.append(st)
    diff = set(vmsrc.diff_lines(ctx, lines))
    n0 = len(ctx.failures)
    seen = set()
    for l, st in zip(lines, owner):
        if l in diff and repr(st) not in seen:
            seen.add(repr(st))
            check_stack(ctx, cx, st, 'src-diff')
            if len(ctx.failures) > n0 + 3:
                break
    return len(ctx.failures) > n0


def builder_histories(ctx):
    """a Builder on the stack belongs to the caller, who may go on writing to it between two serialisations: every
    serialisation must show the builder's content AT THAT MOMENT (nothing remembered from the previous call)"""
    lib = V._lib()[0]
    from pytoniq_core.boc.builder import Builder
    from pytoniq_core import begin_cell
    rng = ctx.rng
    leaf = begin_cell().store_uint(0xAB, 8).end_cell()
    empty_with_refs = begin_cell().store_ref(leaf).store_ref(begin_cell().end_cell()).end_cell()      # zero data bits, two references
    writes = [('store_cell(0 bits, 2 refs)', lambda b: b.store_cell(empty_with_refs)), ('store_ref', lambda b: b.store_ref(leaf)),
              ('store_bits', lambda b: b.store_bits('101')), ('store_uint', lambda b: b.store_uint(9, 4)),
              ('store_cell(bits)', lambda b: b.store_cell(leaf)), ('store_maybe_ref(None)', lambda b: b.store_maybe_ref(None)),
              ('store_slice(0 bits, 1 ref)', lambda b: b.store_slice(begin_cell().store_ref(leaf).end_cell().begin_parse()))]
    for t in range(ctx.n(40, 400)):
        b = Builder()
        if rng.random() < 0.7:
            b.store_uint(rng.getrandbits(12), 12)
        vs = [rng.getrandbits(20), b] if rng.random() < 0.5 else [lib.VmTuple([b, 1]), None]
        steps = []
        ctx.case(('builder-history', t))
        for k in range(rng.randrange(2, 6)):
            cell, e = _try(lambda: lib.VmStack.serialize(vs))
            back, e2 = _try(lambda: lib.VmStack.deserialize(cell.begin_parse())) if cell is not None else (None, e)
            pb = None
            if back is not None:
                try:
                    x = back[1] if isinstance(vs[0], int) else back[0]
                    pb = x if isinstance(x, Builder) else (x[0] if hasattr(x, '__getitem__') else None)
                except Exception:          # e.g. a tuple that came back empty
                    pb = None
            now = (b.bits.to01(), [r.hash.hex() for r in b.refs])
            got = (pb.bits.to01(), [r.hash.hex() for r in pb.refs]) if isinstance(pb, Builder) else None
            if got != now:
                ctx.fail('history:builder', 'a stack holding a Builder the caller wrote to between two serialisations does not round-trip to its '
                         'current content', {'writes': steps, 'shape': 'flat' if isinstance(vs[0], int) else 'tuple'}, got, now)
                return
            if len(b.refs) >= 3 or len(b.bits) > 900:
                break
            name, w = rng.choice(writes)
            steps.append(name)
            w(b)
            ctx.count('builder-history:' + name.split('(')[0])


def run(ctx):
    cx = V.Ctx()
    # a serialize / deserialize method whose PARAMETER LIST differs from the declared interface (an extra parameter threaded through the
    # recursion carries state the theorems know nothing about) is not merely "outside the translatable subset": the declaration the
    # c17_src_* theorems rest on is refuted -> a broken obligation (the failing-input search then looks for the concrete input)
    import re
    for name, t in (getattr(ctx, 'tie', None) or {}).items():
        if t.get('status') == 'lost' and re.search(r'parameters \[.*\], declared \[', str(t.get('reason'))):
            ctx.broken.append({'kind': 'declared-interface', 'detail': f'signature changed: {name}: {t.get("reason")}'[:600]})
    if ctx.search and src_search(ctx, cx):
        return
    builder_histories(ctx)
    aliased(ctx, cx)
    if ctx.search and ctx.failures:
        return
    directed(ctx, cx)
    random_stacks(ctx, cx)
    foreign(ctx, cx)
    api_level(ctx, cx)


def replay(ctx, payload):
    inp = payload.get('input') or {}
    if 'stack' in inp:
        sh = inp.get('share')
        check_stack(ctx, V.Ctx([tuple([k, b, tuple(r)]) for k, b, r in inp['dag']]) if 'dag' in inp else V.Ctx(), _unjson(inp['stack']), inp.get('tag', 'replay'),
                    share=(sh[0], int(sh[1])) if sh else None)
    elif 'value' in inp:
        api_level(ctx, V.Ctx())


def _unjson(x):
    if isinstance(x, dict) and 'int' in x:
        return int(x['int'])
    if isinstance(x, list):
        return [_unjson(y) for y in x]
    return x
